#!/venv/bin/python
"""Regenerates MANIFEST.json from sa/manifest_data.py (kept valid at all times)."""
import json, os, sys
sys.path.insert(0, os.path.dirname(os.path.abspath(__file__)))
from sa.manifest_data import CHECKS, NOT_APPLICABLE, NOTES

PROPS = [f"C{i:02d}" for i in range(1, 21)]
checks = []
for p in PROPS:
    if p not in CHECKS:
        continue
    c = CHECKS[p]
    checks.append({
        "property_id": p,
        "quick_cmd": f"./check {p} --tier quick",
        "thorough_cmd": f"./check {p} --tier thorough",
        "evidence_file": f"/verif/evidence/{p}.json",
        "replay_cmd_template": "./check --replay {path}",
        "engine": "sa",
        "level_claimed": {"category": "other", "text": c["text"], "design_ref": c["ref"]},
        "level_note": c["note"],
        "technique": c["technique"],
    })
na = [{"property_id": p, "reason": NOT_APPLICABLE[p]} for p in PROPS if p not in CHECKS]
assert all(p in CHECKS or p in NOT_APPLICABLE for p in PROPS)
m = {
    "version": 1,
    "setup_cmd": "/venv/bin/python -B -c \"import sys; sys.path.insert(0,'/verif'); import sa.main, sa.selftest\"",
    "hooks": {
        "guard": "EKUT_ES_ARCHITECTURE_SIMULATOR_VERIF",
        "enable": "none needed: the checks parse /repo's sources and never execute them, so no instrumentation exists",
        "baseline_off_cmd": "cd /repo && /venv/bin/python -m pytest -q -p no:cacheprovider --timeout=900",
        "source_commits": ["2594f97", "05d580d", "b146dea", "46eb6d7", "a726f63"],
        "add_only": True,
    },
    "engines": [{
        "name": "sa", "path": "/verif/sa",
        "serves_properties": [c["property_id"] for c in checks],
        "kind_free_text": "repository-specific static analysis over Python ast: class-hierarchy call graph, "
                          "interprocedural write-effect summaries, structured path sets, constant folding of tables, "
                          "bit-slice linear forms, pyparsing grammar IR with token-language inclusion",
    }],
    "checks": checks,
    "not_applicable": na,
    "notes": NOTES,
}
with open(os.path.join(os.path.dirname(os.path.abspath(__file__)), "MANIFEST.json"), "w") as fh:
    json.dump(m, fh, indent=1)
    fh.write("\n")
print("checks:", [c["property_id"] for c in checks], "n/a:", [x["property_id"] for x in na])
