"""Static analysis of ekut-es/architecture-simulator against properties C01..C20.

Nothing under /repo is imported or executed by this package: every module is
parsed with ``ast`` and decided from the shape of the source.
"""
