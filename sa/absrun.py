"""A small abstract interpreter over the bit-slice domain (`sa.bitslice.Form`).

Runs a function body statement by statement with

  * integer-valued locals as Forms (constants are constant Forms, so `mask = (1 << w) - 1`,
    `width = self.memory_file_values_width` etc. are propagated instead of being pattern-matched),
  * `for i in range(<constant>)` unrolled, `if <constant test>` resolved, anything else Inconclusive,
  * calls given to a hook that may model them (return a Form), record them, or decline.

Used where a rule needs "what does this loop compute, bit by bit" without caring how the loop body
is written (temporaries, `x |= ..` vs `x = x | ..`, shifting the value vs shifting by i*w).
"""
from __future__ import annotations

import ast
from typing import Callable, Mapping, Optional

from .bitslice import Evaluator, Form, Inconclusive, NotABit
from .consteval import Folder, Unknown
from .model import FuncInfo, Model, body_without_docstring


def _load(t: ast.AST) -> ast.AST:
    import copy
    t = copy.deepcopy(t)
    for n in ast.walk(t):
        if hasattr(n, "ctx"):
            n.ctx = ast.Load()  # type: ignore[attr-defined]
    return t


class _Raised(Exception):
    def __init__(self, node: ast.AST) -> None:
        self.node = node


class _Return(Exception):
    def __init__(self, value: Optional[Form]) -> None:
        self.value = value


class _EnvFolder(Folder):
    """Constant folder that also knows the interpreter's constant locals and the given attribute constants."""

    def __init__(self, model: Model, f: FuncInfo, run: "AbsRun") -> None:
        super().__init__(model, f.module, f.cls, {})
        self.run = run

    def fold(self, e):  # type: ignore[override]
        t = ast.unparse(e)
        if t in self.run.consts:
            return self.run.consts[t]
        if isinstance(e, ast.Name):
            v = self.run.env.get(e.id)
            if isinstance(v, Form) and v.is_const():
                return v.const
            if v is not None:
                raise Unknown(f"{e.id} is not constant")
        return Folder.fold(self, e)


class _Ev(Evaluator):
    def __init__(self, run: "AbsRun") -> None:
        self.run = run
        self.env = run.env  # live view
        self.folder = run.folder

    def resolve_alias(self, e: ast.AST, depth: int = 0) -> ast.AST:
        """Follow locals that stand for an object / class / callable (run.alias) and pick the arm of a conditional
        expression whose test folds."""
        while depth < 8:
            depth += 1
            if isinstance(e, ast.Name) and e.id in self.run.alias and e.id not in self.run.env:
                e = self.run.alias[e.id]
                continue
            if isinstance(e, ast.IfExp):
                try:
                    t = self.truth(e.test)
                except Inconclusive:
                    return e
                if t.is_const():
                    e = e.body if t.const else e.orelse
                    continue
            return e
        return e

    def const(self, e: ast.AST):  # type: ignore[override]
        c = Evaluator.const(self, e)
        if c is not None:
            return c
        # a component of a table row selected by folded tests: `(row_a if n == 8 else row_b)[0]`
        if isinstance(e, ast.Subscript) and isinstance(e.slice, ast.Constant) and isinstance(e.value, (ast.IfExp, ast.Tuple, ast.Name)):
            try:
                f_ = self.ev(e)
            except Inconclusive:
                return None
            return f_.const if f_.is_const() else None
        return None

    def _select_row(self, e: ast.AST) -> ast.AST:
        """Follow aliases and conditional expressions whose tests fold (a chain left by an expanded table) to the selected row."""
        cur = self.resolve_alias(e)
        for _ in range(64):
            if not isinstance(cur, ast.IfExp):
                break
            try:
                t = self.truth(cur.test)
            except Inconclusive:
                break
            if not t.is_const():
                break
            cur = self.resolve_alias(cur.body if t.const else cur.orelse)
        return cur

    def _deep_alias(self, e: ast.AST) -> ast.AST:
        """`e` with every local that stands for an object (run.alias) replaced by what it stands for, at any depth:
        `memory.get_address_range().start` with `memory = self.state.memory`."""
        al = self.run.alias
        if not al or isinstance(e, ast.Name):
            return e
        hit = [n for n in ast.walk(e) if isinstance(n, ast.Name) and isinstance(n.ctx, ast.Load) and n.id in al and n.id not in self.run.env]
        if not hit:
            return e
        import copy as _copy
        outer = self

        class T(ast.NodeTransformer):
            def visit_Name(self, n):
                if isinstance(n.ctx, ast.Load) and n.id in al and n.id not in outer.run.env:
                    r = outer.resolve_alias(n)
                    if r is not n and not isinstance(r, ast.IfExp):
                        return _copy.deepcopy(r)
                return n
        return T().visit(_copy.deepcopy(e))

    def ev(self, e: ast.AST) -> Form:
        if isinstance(e, ast.Name) and e.id in self.run.env:
            return self.run.env[e.id]
        if not getattr(e, "_aliased", False):
            e2 = self._deep_alias(e)
            if e2 is not e:
                try:
                    e2._aliased = True  # type: ignore[attr-defined]
                except Exception:
                    pass
                e = e2
        if isinstance(e, ast.Name) and e.id in self.run.alias:
            return self.ev(self.resolve_alias(e))
        if isinstance(e, ast.Call) and (isinstance(e.func, ast.IfExp) or (isinstance(e.func, ast.Name) and e.func.id in self.run.alias and e.func.id not in self.run.env)):
            f2 = self.resolve_alias(e.func)
            if f2 is not e.func:
                e = ast.copy_location(ast.Call(func=f2, args=e.args, keywords=e.keywords), e)
        if isinstance(e, ast.Attribute) and isinstance(e.value, ast.Name) and e.value.id in self.run.alias and e.value.id not in self.run.env:
            e = ast.copy_location(ast.Attribute(value=self.resolve_alias(e.value), attr=e.attr, ctx=ast.Load()), e)
        if isinstance(e, ast.Call) and isinstance(e.func, ast.Attribute) and isinstance(e.func.value, ast.Name) \
                and e.func.value.id in self.run.alias and e.func.value.id not in self.run.env:
            e = ast.copy_location(ast.Call(func=ast.Attribute(value=self.resolve_alias(e.func.value), attr=e.func.attr, ctx=ast.Load()),
                                           args=e.args, keywords=e.keywords), e)
        if isinstance(e, ast.Subscript) and isinstance(e.slice, ast.Constant) and isinstance(e.slice.value, int) \
                and isinstance(e.value, (ast.IfExp, ast.Tuple, ast.Name)):
            # (row if c else other_row)[i]: the component of the row the (folded) tests select
            rv = self._select_row(e.value)
            if isinstance(rv, ast.Tuple) and -len(rv.elts) <= e.slice.value < len(rv.elts):
                return self.ev(rv.elts[e.slice.value])
        if isinstance(e, ast.Call):
            c = self.const(e) if not self.run.call_hook_first else None
            if c is not None:
                return Form.k(c)
            r = self.run.on_call(e, self)
            if r is not None:
                return r
        if isinstance(e, ast.IfExp):
            try:
                t = self.run.folder.fold(e.test)
            except Exception:
                tf = self.truth(e.test)
                a, b = self.ev(e.body), self.ev(e.orelse)
                return self.run.select(tf, a, b, e)
            return self.ev(e.body if t else e.orelse)
        if isinstance(e, (ast.Subscript, ast.Attribute)) and self.run.on_load is not None:
            r = self.run.on_load(e, self)
            if r is not None:
                return r
        if isinstance(e, (ast.Compare, ast.BoolOp)) or (isinstance(e, ast.UnaryOp) and isinstance(e.op, ast.Not)):
            return self.truth(e)
        if isinstance(e, ast.Call) and isinstance(e.func, ast.Name) and e.func.id in ("bool",) and len(e.args) == 1:
            return self.truth(e.args[0])
        return Evaluator.ev(self, e)

    def truth(self, e: ast.AST) -> Form:
        """A test as a 0/1-valued form (Inconclusive when it is not one)."""
        try:
            return Form.k(1 if self.run.folder.fold(e) else 0)
        except Exception:
            pass
        if isinstance(e, ast.Compare) and len(e.ops) == 1 and isinstance(e.ops[0], (ast.Is, ast.IsNot)) and isinstance(e.comparators[0], ast.Constant) \
                and e.comparators[0].value is None and (isinstance(e.left, (ast.IfExp, ast.Tuple)) or (
                    isinstance(e.left, ast.Name) and e.left.id in self.run.alias and e.left.id not in self.run.env)):
            rv = self._select_row(e.left)
            if isinstance(rv, ast.Tuple) or (isinstance(rv, ast.Constant) and rv.value is None):
                is_none = isinstance(rv, ast.Constant)
                return Form.k(1 if is_none == isinstance(e.ops[0], ast.Is) else 0)
        if isinstance(e, ast.UnaryOp) and isinstance(e.op, ast.Not):
            return Form.k(1) - self.truth(e.operand)
        if isinstance(e, ast.BoolOp):
            is_or = isinstance(e.op, ast.Or)
            rest = []
            for v in e.values:
                t = self.truth(v)
                if t.is_const():
                    if bool(t.const) == is_or:
                        return Form.k(1 if is_or else 0)
                    continue
                if not any(t == x for x in rest):
                    rest.append(t)
            if not rest:
                return Form.k(0 if is_or else 1)
            if len(rest) == 1:
                return rest[0]
            raise Inconclusive(f"and/or of several symbolic bits: {ast.unparse(e)[:60]}")
        if isinstance(e, ast.Compare) and len(e.ops) == 1 and isinstance(e.ops[0], (ast.Gt, ast.GtE, ast.Lt, ast.LtE, ast.Eq, ast.NotEq)):
            l, r = self.ev(e.left), self.ev(e.comparators[0])
            if l.is_const() and r.is_const():
                import operator
                fn = {ast.Gt: operator.gt, ast.GtE: operator.ge, ast.Lt: operator.lt, ast.LtE: operator.le, ast.Eq: operator.eq, ast.NotEq: operator.ne}[type(e.ops[0])]
                return Form.k(1 if fn(l.const, r.const) else 0)
        if isinstance(e, ast.Compare) and len(e.ops) == 1 and isinstance(e.ops[0], (ast.Gt, ast.GtE, ast.Lt, ast.LtE)):
            l, r = self.ev(e.left), self.ev(e.comparators[0])
            op = e.ops[0]
            if l.is_const() and not r.is_const():
                l, r = r, l
                op = {ast.Gt: ast.Lt, ast.GtE: ast.LtE, ast.Lt: ast.Gt, ast.LtE: ast.GtE}[type(op)]()
            if r.is_const() and not l.tails and l.const == 0 and l.bits:
                # l is a k-bit unsigned field: coefficients 1, 2, 4, ..., 2**(k-1)
                items = sorted(l.bits.items(), key=lambda kv: kv[1])
                k = len(items)
                if [c for _, c in items] == [1 << i for i in range(k)]:
                    c = r.const
                    # reduce to  F > c
                    neg = False
                    if isinstance(op, ast.GtE):
                        c -= 1
                    elif isinstance(op, ast.Lt):
                        c -= 1
                        neg = True
                    elif isinstance(op, ast.LtE):
                        neg = True
                    if c < 0:
                        res = Form.k(1)
                    elif c >= (1 << k) - 1:
                        res = Form.k(0)
                    elif c == (1 << (k - 1)) - 1:
                        (var, b), _ = items[-1]
                        res = Form.field(var, b, b + 1)  # the top bit of the field
                    else:
                        raise NotABit(f"`{ast.unparse(e)[:60]}` compares a {k}-bit field with {r.const}: that is not the value of one of its bits")
                    return Form.k(1) - res if neg else res
            raise Inconclusive(f"ordering comparison outside the bit-field fragment: {ast.unparse(e)[:60]}")
        if isinstance(e, ast.Compare) and len(e.ops) == 1:
            l, r = self.ev(e.left), self.ev(e.comparators[0])
            op = e.ops[0]
            if r.is_const() and is_bit(l) and r.const in (0, 1) and isinstance(op, (ast.Eq, ast.NotEq, ast.Is, ast.IsNot)):
                same = l if r.const == 1 else Form.k(1) - l
                return same if isinstance(op, (ast.Eq, ast.Is)) else Form.k(1) - same
            if l.is_const() and is_bit(r) and l.const in (0, 1) and isinstance(op, (ast.Eq, ast.NotEq)):
                same = r if l.const == 1 else Form.k(1) - r
                return same if isinstance(op, ast.Eq) else Form.k(1) - same
            raise Inconclusive(f"comparison outside the 0/1 fragment: {ast.unparse(e)[:60]}")
        f = self.ev(e)
        if is_bit(f):
            return f
        raise Inconclusive(f"test is not a 0/1 value: {ast.unparse(e)[:60]}")


def is_bit(f: Form) -> bool:
    """The form only takes the values 0 and 1: a constant 0/1, one bit symbol, or 1 - one bit symbol."""
    if f.tails:
        return False
    if not f.bits:
        return f.const in (0, 1)
    if len(f.bits) != 1:
        return False
    c = next(iter(f.bits.values()))
    return (c == 1 and f.const == 0) or (c == -1 and f.const == 1)


class AbsRun:
    def __init__(self, model: Model, f: FuncInfo, env: Mapping[str, Form], consts: Optional[Mapping[str, int]] = None,
                 on_call: Optional[Callable[[ast.Call, Evaluator], Optional[Form]]] = None, max_steps: int = 4000,
                 on_load: Optional[Callable[[ast.AST, Evaluator], Optional[Form]]] = None,
                 on_store: Optional[Callable[[ast.AST, Form, Evaluator], bool]] = None) -> None:
        self.on_load = on_load
        self.on_store = on_store
        self.model, self.f = model, f
        self.env: dict = dict(env)
        self.consts = dict(consts or {})
        self.folder = _EnvFolder(model, f, self)
        self._hook = on_call
        self.call_hook_first = True
        self.steps = 0
        self.max_steps = max_steps
        self.ev = _Ev(self)
        # tests (source text) under which the statements now running are reached, when a non-constant
        # `break` / conditional store made the rest conditional; hooks may read it
        self.unknown: set = set()
        self.alias: dict = {}  # local -> expression it stands for (objects, classes, callables: not forms)
        self.lists: dict = {}  # local -> python list of Forms (None: outside the domain): `xs = []`, `xs.append(v)`, `for x in xs`
        self.lenient = False  # True: statements whose value is outside the domain are skipped unless a hook wants them
        self.guards: list[str] = []
        self._loop_depth = 0
        self._guard_pushed: list[int] = []

    def select(self, t: Form, a: Form, b: Form, at: ast.AST) -> Form:
        """t*a + (1-t)*b for a 0/1-valued t: linear when a - b is a constant (or t is)."""
        if t.is_const():
            return a if t.const else b
        d = a - b
        if d.is_const():
            return b + t.scale(d.const)
        raise Inconclusive(f"the two arms of a branch differ by a non-constant at line {getattr(at, 'lineno', 0)}")

    @staticmethod
    def _aliasable(v: ast.AST) -> bool:
        """A name, an attribute chain, or a conditional expression of those: may denote an object rather than a number."""
        if isinstance(v, ast.Name):
            return True
        if isinstance(v, ast.Attribute):
            return AbsRun._aliasable(v.value)
        if isinstance(v, ast.IfExp):
            return AbsRun._aliasable(v.body) and AbsRun._aliasable(v.orelse)
        if isinstance(v, ast.Call) and isinstance(v.func, ast.Name) and v.func.id == "KEY_ERROR":
            return True  # the failed-lookup arm of an expanded table
        if isinstance(v, ast.Tuple) or (isinstance(v, ast.Constant) and v.value is None):
            return True  # a row of constants / "no row": kept as it is, its components are evaluated where they are used
        if isinstance(v, ast.Subscript) and not isinstance(v.slice, ast.Slice) and AbsRun._aliasable(v.value) and isinstance(v.slice, (ast.Name, ast.Constant)):
            return True  # an entry of a table of objects (classes, callables): `cls = TABLE[opcode]`
        return False

    def on_call(self, c: ast.Call, ev: Evaluator) -> Optional[Form]:
        if self._hook is not None:
            return self._hook(c, ev)
        return None

    # ------------------------------------------------------------------ statements
    def run(self) -> Optional[Form]:
        self.raised: Optional[ast.AST] = None
        try:
            self.block(body_without_docstring(self.f.node))
        except _Return as r:
            return r.value
        except _Raised as r:
            self.raised = r.node
        return None

    def block(self, stmts) -> None:
        for s in stmts:
            self.stmt(s)

    def run_events(self, events) -> bool:
        """Replay the events of one path (sa.paths) as straight-line code.  Tests that fold to a constant must agree
        with the branch the path took: returns False when the path is infeasible for the current values."""
        for e in events:
            n = e.node
            if e.kind == "test":
                try:
                    t = self.folder.fold(n)
                except Exception:
                    try:
                        tf = self.ev.truth(n)
                    except Inconclusive:
                        continue
                    if tf.is_const() and bool(tf.const) != bool(e.pol):
                        return False
                    continue
                if bool(t) != bool(e.pol):
                    return False
            elif e.kind in ("stmt",) and isinstance(n, (ast.Assign, ast.AugAssign, ast.AnnAssign, ast.Expr)):
                self.stmt(n)
            elif e.kind == "loop" and e.pol and hasattr(n, "target"):
                for x in ast.walk(n.target):
                    if isinstance(x, ast.Name):
                        self.env.pop(x.id, None)
        return True

    def _tick(self, s: ast.AST) -> None:
        self.steps += 1
        if self.steps > self.max_steps:
            raise Inconclusive(f"more than {self.max_steps} abstract steps at line {getattr(s, 'lineno', 0)}")

    def stmt(self, s: ast.stmt) -> None:
        self._tick(s)
        if isinstance(s, (ast.Pass, ast.Assert)):
            return
        if isinstance(s, ast.Expr) and isinstance(s.value, ast.Call) and isinstance(s.value.func, ast.Attribute) and s.value.func.attr == "append" \
                and isinstance(s.value.func.value, ast.Name) and s.value.func.value.id in self.lists and len(s.value.args) == 1:
            if self.guards:
                raise Inconclusive("append under a non-constant condition")
            try:
                v = self.ev.ev(s.value.args[0])
            except Inconclusive:
                if not self.lenient:
                    raise
                v = None
            self.lists[s.value.func.value.id].append(v)
            return
        if isinstance(s, ast.Assign) and len(s.targets) == 1 and isinstance(s.targets[0], ast.Name):
            if isinstance(s.value, ast.List) and not s.value.elts:
                self.lists[s.targets[0].id] = []
                self.env.pop(s.targets[0].id, None)
                self.alias.pop(s.targets[0].id, None)
                return
            if isinstance(s.value, ast.Name) and s.value.id in self.lists:
                self.lists[s.targets[0].id] = self.lists[s.value.id]
                self.env.pop(s.targets[0].id, None)
                self.alias.pop(s.targets[0].id, None)
                return
            self.lists.pop(s.targets[0].id, None)
        if isinstance(s, ast.For) and not s.orelse:
            it = s.iter
            enum = isinstance(it, ast.Call) and isinstance(it.func, ast.Name) and it.func.id == "enumerate" and len(it.args) == 1 and not it.keywords
            src = it.args[0] if enum else it
            if isinstance(src, ast.Name) and src.id in self.lists:
                tg = s.target
                if enum and not (isinstance(tg, ast.Tuple) and len(tg.elts) == 2 and all(isinstance(t, ast.Name) for t in tg.elts)):
                    raise Inconclusive("enumerate target is not a pair of names")
                if not enum and not isinstance(tg, ast.Name):
                    raise Inconclusive("loop target is not a name")
                for k, v in enumerate(list(self.lists[src.id])):
                    name = tg.elts[1].id if enum else tg.id  # type: ignore[union-attr]
                    if v is None:
                        self.env.pop(name, None)
                        if not self.lenient:
                            raise Inconclusive("list element outside the domain")
                    else:
                        self.env[name] = v
                    if enum:
                        self.env[tg.elts[0].id] = Form.k(k)  # type: ignore[union-attr]
                    self.block(s.body)
                return
        if isinstance(s, ast.Expr):
            if isinstance(s.value, ast.Constant):
                return
            try:
                self.ev.ev(s.value)
            except Inconclusive:
                if not self.lenient:
                    raise
            return
        if isinstance(s, ast.Assign) and len(s.targets) == 1 and isinstance(s.targets[0], ast.Name) and self._aliasable(s.value):
            rv = self.ev.resolve_alias(s.value)
            if isinstance(rv, ast.Tuple) or (isinstance(rv, ast.Constant) and rv.value is None):
                self.env.pop(s.targets[0].id, None)
                self.alias[s.targets[0].id] = rv
                return
            try:
                self.env[s.targets[0].id] = self.ev.ev(s.value)
                self.alias.pop(s.targets[0].id, None)
            except Inconclusive:
                self.env.pop(s.targets[0].id, None)
                av = self.ev.resolve_alias(s.value)
                if isinstance(av, ast.Subscript) and isinstance(av.slice, ast.Name):
                    # the index as it is *now* (the local may be rebound before the entry is used)
                    iv = self.env.get(av.slice.id)
                    if isinstance(iv, Form) and iv.is_const():
                        av = ast.copy_location(ast.Subscript(value=av.value, slice=ast.Constant(value=iv.const), ctx=ast.Load()), av)
                    else:
                        raise Inconclusive(f"table entry selected by a non-constant index: {ast.unparse(av)[:60]}")
                self.alias[s.targets[0].id] = av
            return
        # a, b = <local that stands for a tuple>
        if isinstance(s, ast.Assign) and len(s.targets) == 1 and isinstance(s.targets[0], ast.Tuple) and isinstance(s.value, ast.Name) \
                and s.value.id in self.alias and s.value.id not in self.env:
            rv = self.ev.resolve_alias(s.value)
            if isinstance(rv, ast.Tuple) and len(rv.elts) == len(s.targets[0].elts):
                self.stmt(ast.copy_location(ast.Assign(targets=s.targets, value=rv, lineno=getattr(s, "lineno", 0)), s))
                return
        if isinstance(s, ast.Assign) and len(s.targets) == 1 and isinstance(s.targets[0], ast.Name):
            try:
                self.env[s.targets[0].id] = self.ev.ev(s.value)
                self.alias.pop(s.targets[0].id, None)
            except Inconclusive:
                if not self.lenient:
                    raise
                # an integer the domain knows nothing about: a fresh symbol named after the local
                self.env[s.targets[0].id] = Form.var(s.targets[0].id)
                self.unknown.add(s.targets[0].id)
            return
        if isinstance(s, ast.Assign) and len(s.targets) > 1 and all(isinstance(t, ast.Name) for t in s.targets):
            v = self.ev.ev(s.value)
            for t in s.targets:
                self.env[t.id] = v
            return
        if isinstance(s, ast.Assign) and len(s.targets) == 1 and isinstance(s.targets[0], ast.Tuple) and isinstance(s.value, ast.Tuple) \
                and len(s.targets[0].elts) == len(s.value.elts) and all(isinstance(t, ast.Name) for t in s.targets[0].elts):
            vals = []
            for v in s.value.elts:
                try:
                    vals.append(self.ev.ev(v))
                except Inconclusive:
                    if not self.lenient:
                        raise
                    vals.append(None)
            for t, v in zip(s.targets[0].elts, vals):
                if v is None:
                    self.env.pop(t.id, None)
                else:
                    self.env[t.id] = v
            return
        if isinstance(s, ast.AnnAssign) and isinstance(s.target, ast.Name) and s.value is not None:
            self.env[s.target.id] = self.ev.ev(s.value)
            return
        if isinstance(s, ast.AugAssign) and isinstance(s.target, ast.Name):
            cur = ast.Name(id=s.target.id, ctx=ast.Load())
            self.env[s.target.id] = self.ev.ev(ast.BinOp(left=cur, op=s.op, right=s.value))
            return
        if isinstance(s, ast.Raise):
            raise _Raised(s)
        if isinstance(s, ast.Return):
            raise _Return(self.ev.ev(s.value) if s.value is not None else None)
        if isinstance(s, ast.If):
            try:
                t = self.folder.fold(s.test)
            except Exception:
                # `if x[p] != v: x[p] = v`  is the store  x[p] = v
                if not s.orelse and len(s.body) == 1 and isinstance(s.body[0], ast.Assign) and len(s.body[0].targets) == 1 \
                        and isinstance(s.test, ast.Compare) and len(s.test.ops) == 1 and isinstance(s.test.ops[0], (ast.NotEq, ast.IsNot)):
                    tg, val = s.body[0].targets[0], s.body[0].value
                    l, r = s.test.left, s.test.comparators[0]
                    if isinstance(tg, ast.Subscript) and {ast.dump(l), ast.dump(r)} == {ast.dump(_load(tg)), ast.dump(val)}:
                        self.stmt(s.body[0])
                        return
                # `if c: break` inside a loop: the rest of the loop runs under `not c`
                if self._loop_depth and not s.orelse and s.body and isinstance(s.body[-1], ast.Break) \
                        and all(isinstance(x, (ast.Assert, ast.Pass, ast.Expr)) for x in s.body[:-1]):
                    self.guards.append("not (" + " ".join(ast.unparse(s.test).split()) + ")")
                    self._guard_pushed[-1] += 1
                    return
                # a conditional store: recorded under its guard
                if self.on_store is not None and not s.orelse and all(isinstance(x, ast.Assign) and not isinstance(x.targets[0], ast.Name) for x in s.body):
                    self.guards.append(" ".join(ast.unparse(s.test).split()))
                    try:
                        self.block(s.body)
                    finally:
                        self.guards.pop()
                    return
                # a branch on a 0/1 value: run both arms and join (no path is followed separately)
                tf = self.ev.truth(s.test)
                if tf.is_const():
                    self.block(s.body if tf.const else s.orelse)  # decided in the domain (the folder could not, the forms can)
                    return
                if any(isinstance(n, (ast.Return, ast.Break, ast.Continue, ast.Raise)) for x in s.body + s.orelse for n in ast.walk(x)):
                    raise Inconclusive(f"branch on a non-constant leaves the block: {ast.unparse(s.test)[:60]}")
                if self.on_store is not None and any(isinstance(n, (ast.Assign, ast.AugAssign)) and not isinstance(
                        (n.targets[0] if isinstance(n, ast.Assign) else n.target), ast.Name) for x in s.body + s.orelse for n in ast.walk(x)):
                    raise Inconclusive("a store under a non-constant branch")
                base = dict(self.env)
                self.block(s.body)
                ea = dict(self.env)
                self.env.clear()
                self.env.update(base)
                self.block(s.orelse)
                eb = dict(self.env)
                for k in set(ea) | set(eb):
                    if k in ea and k in eb:
                        self.env[k] = ea[k] if ea[k] == eb[k] else self.select(tf, ea[k], eb[k], s)
                    else:
                        self.env.pop(k, None)
                return
            self.block(s.body if t else s.orelse)
            return
        if isinstance(s, (ast.Assign, ast.AnnAssign)) and self.on_store is not None and \
                isinstance((s.targets[0] if isinstance(s, ast.Assign) else s.target), (ast.Subscript, ast.Attribute)) and \
                (isinstance(s, ast.AnnAssign) or len(s.targets) == 1) and s.value is not None:
            tgt = s.targets[0] if isinstance(s, ast.Assign) else s.target
            tgt = self.ev._deep_alias(tgt)  # `tree = self.tree_array; tree[p] = v` stores to self.tree_array[p]
            try:
                v = self.ev.ev(s.value)
            except Inconclusive as exc:
                if not self.lenient:
                    raise
                v = exc  # type: ignore[assignment]  # the hook sees why the value is not a form
            if self.on_store(tgt, v, self.ev):
                return
            if self.lenient:
                return
        if isinstance(s, ast.While) and not s.orelse:
            self._loop_depth += 1
            self._guard_pushed.append(0)
            try:
                n_iter = 0
                while True:
                    try:
                        t = self.ev.truth(s.test)
                    except Inconclusive as exc:
                        raise Inconclusive(f"while on a non-constant: {ast.unparse(s.test)[:60]} ({exc})")
                    if not t.is_const():
                        raise Inconclusive(f"while on a non-constant: {ast.unparse(s.test)[:60]}")
                    if not t.const:
                        break
                    n_iter += 1
                    if n_iter > 64:
                        raise Inconclusive("while loop does not end within 64 abstract iterations")
                    self.block(s.body)
            finally:
                self._loop_depth -= 1
                for _ in range(self._guard_pushed.pop()):
                    self.guards.pop()
            return
        if isinstance(s, ast.For) and isinstance(s.target, ast.Name) and isinstance(s.iter, ast.Call) \
                and isinstance(s.iter.func, ast.Name) and s.iter.func.id in ("range", "reversed"):
            it = s.iter
            rev = False
            if it.func.id == "reversed":
                if not (len(it.args) == 1 and isinstance(it.args[0], ast.Call) and isinstance(it.args[0].func, ast.Name) and it.args[0].func.id == "range"):
                    raise Inconclusive("loop over reversed(<not a range>)")
                it, rev = it.args[0], True
            try:
                args = [self.folder.fold(a) for a in it.args]
            except Exception:
                raise Inconclusive(f"loop bound is not constant: {ast.unparse(s.iter)[:60]}")
            seq = list(range(*args))
            if rev:
                seq.reverse()
            self._loop_depth += 1
            self._guard_pushed.append(0)
            assigned_after_guard: set = set()
            try:
                for k in seq:
                    self.env[s.target.id] = Form.k(k)
                    before = self._guard_pushed[-1]
                    self.block(s.body)
                    if self._guard_pushed[-1]:
                        for n in ast.walk(s):
                            if isinstance(n, ast.Name) and isinstance(n.ctx, ast.Store):
                                assigned_after_guard.add(n.id)
            finally:
                self._loop_depth -= 1
                for _ in range(self._guard_pushed.pop()):
                    self.guards.pop()
            for n in assigned_after_guard:
                self.env.pop(n, None)  # its value depends on where the loop was left
            if assigned_after_guard and s.orelse:
                raise Inconclusive("loop with a non-constant break and an else clause")
            self.block(s.orelse)
            return
        if self.lenient:
            for n in ast.walk(s):
                if isinstance(n, ast.Name) and isinstance(n.ctx, ast.Store):
                    self.env.pop(n.id, None)
            return
        raise Inconclusive(f"statement outside the abstract interpreter: {type(s).__name__} at line {getattr(s, 'lineno', 0)}")
