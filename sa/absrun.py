"""A small abstract interpreter over the bit-slice domain (`sa.bitslice.Form`).

Runs a function body statement by statement with

  * integer-valued locals as Forms (constants are constant Forms, so `mask = (1 << w) - 1`,
    `width = self.memory_file_values_width` etc. are propagated instead of being pattern-matched),
  * `for i in range(<constant>)` unrolled, `if <constant test>` resolved, anything else Inconclusive,
  * calls given to a hook that may model them (return a Form), record them, or decline.

Used where a rule needs "what does this loop compute, bit by bit" without caring how the loop body
is written (temporaries, `x |= ..` vs `x = x | ..`, shifting the value vs shifting by i*w).
"""
from __future__ import annotations

import ast
from typing import Callable, Mapping, Optional

from .bitslice import Evaluator, Form, Inconclusive
from .consteval import Folder, Unknown
from .model import FuncInfo, Model, body_without_docstring


class _Return(Exception):
    def __init__(self, value: Optional[Form]) -> None:
        self.value = value


class _EnvFolder(Folder):
    """Constant folder that also knows the interpreter's constant locals and the given attribute constants."""

    def __init__(self, model: Model, f: FuncInfo, run: "AbsRun") -> None:
        super().__init__(model, f.module, f.cls, {})
        self.run = run

    def fold(self, e):  # type: ignore[override]
        t = ast.unparse(e)
        if t in self.run.consts:
            return self.run.consts[t]
        if isinstance(e, ast.Name):
            v = self.run.env.get(e.id)
            if isinstance(v, Form) and v.is_const():
                return v.const
            if v is not None:
                raise Unknown(f"{e.id} is not constant")
        return Folder.fold(self, e)


class _Ev(Evaluator):
    def __init__(self, run: "AbsRun") -> None:
        self.run = run
        self.env = run.env  # live view
        self.folder = run.folder

    def ev(self, e: ast.AST) -> Form:
        if isinstance(e, ast.Name) and e.id in self.run.env:
            return self.run.env[e.id]
        if isinstance(e, ast.Call):
            c = self.const(e) if not self.run.call_hook_first else None
            if c is not None:
                return Form.k(c)
            r = self.run.on_call(e, self)
            if r is not None:
                return r
        if isinstance(e, ast.IfExp):
            try:
                t = self.run.folder.fold(e.test)
            except Exception:
                raise Inconclusive(f"conditional on a non-constant: {ast.unparse(e.test)[:60]}")
            return self.ev(e.body if t else e.orelse)
        return Evaluator.ev(self, e)


class AbsRun:
    def __init__(self, model: Model, f: FuncInfo, env: Mapping[str, Form], consts: Optional[Mapping[str, int]] = None,
                 on_call: Optional[Callable[[ast.Call, Evaluator], Optional[Form]]] = None, max_steps: int = 4000) -> None:
        self.model, self.f = model, f
        self.env: dict = dict(env)
        self.consts = dict(consts or {})
        self.folder = _EnvFolder(model, f, self)
        self._hook = on_call
        self.call_hook_first = True
        self.steps = 0
        self.max_steps = max_steps
        self.ev = _Ev(self)

    def on_call(self, c: ast.Call, ev: Evaluator) -> Optional[Form]:
        if self._hook is not None:
            return self._hook(c, ev)
        return None

    # ------------------------------------------------------------------ statements
    def run(self) -> Optional[Form]:
        try:
            self.block(body_without_docstring(self.f.node))
        except _Return as r:
            return r.value
        return None

    def block(self, stmts) -> None:
        for s in stmts:
            self.stmt(s)

    def _tick(self, s: ast.AST) -> None:
        self.steps += 1
        if self.steps > self.max_steps:
            raise Inconclusive(f"more than {self.max_steps} abstract steps at line {getattr(s, 'lineno', 0)}")

    def stmt(self, s: ast.stmt) -> None:
        self._tick(s)
        if isinstance(s, (ast.Pass, ast.Assert)):
            return
        if isinstance(s, ast.Expr):
            if isinstance(s.value, ast.Constant):
                return
            self.ev.ev(s.value)
            return
        if isinstance(s, ast.Assign) and len(s.targets) == 1 and isinstance(s.targets[0], ast.Name):
            self.env[s.targets[0].id] = self.ev.ev(s.value)
            return
        if isinstance(s, ast.AnnAssign) and isinstance(s.target, ast.Name) and s.value is not None:
            self.env[s.target.id] = self.ev.ev(s.value)
            return
        if isinstance(s, ast.AugAssign) and isinstance(s.target, ast.Name):
            cur = ast.Name(id=s.target.id, ctx=ast.Load())
            self.env[s.target.id] = self.ev.ev(ast.BinOp(left=cur, op=s.op, right=s.value))
            return
        if isinstance(s, ast.Return):
            raise _Return(self.ev.ev(s.value) if s.value is not None else None)
        if isinstance(s, ast.If):
            try:
                t = self.folder.fold(s.test)
            except Exception:
                raise Inconclusive(f"branch on a non-constant: {ast.unparse(s.test)[:60]}")
            self.block(s.body if t else s.orelse)
            return
        if isinstance(s, ast.For) and isinstance(s.target, ast.Name) and isinstance(s.iter, ast.Call) \
                and isinstance(s.iter.func, ast.Name) and s.iter.func.id in ("range", "reversed"):
            it = s.iter
            rev = False
            if it.func.id == "reversed":
                if not (len(it.args) == 1 and isinstance(it.args[0], ast.Call) and isinstance(it.args[0].func, ast.Name) and it.args[0].func.id == "range"):
                    raise Inconclusive("loop over reversed(<not a range>)")
                it, rev = it.args[0], True
            try:
                args = [self.folder.fold(a) for a in it.args]
            except Exception:
                raise Inconclusive(f"loop bound is not constant: {ast.unparse(s.iter)[:60]}")
            seq = list(range(*args))
            if rev:
                seq.reverse()
            for k in seq:
                self.env[s.target.id] = Form.k(k)
                self.block(s.body)
            self.block(s.orelse)
            return
        raise Inconclusive(f"statement outside the abstract interpreter: {type(s).__name__} at line {getattr(s, 'lineno', 0)}")
