"""Alignment of printed templates (f-strings) with grammar alternatives.

A template is a sequence of literal characters and typed holes.  An
instruction alternative of the line grammar is flattened into a *shape*: a
sequence of items (mnemonic set, register, literal punctuation, immediate,
label, variable).  ``match`` walks both, honouring pyparsing's token rules
(whitespace may separate items but not split one), and returns the binding
hole -> results name, or None.
"""
from __future__ import annotations

import ast
from dataclasses import dataclass
from typing import Optional, Union

from .model import AnalysisError
from .ppgram import G, alt, lit, oneof_strings, seq, NUMS


@dataclass
class Hole:
    expr: str  # source text of the interpolated expression
    kind: str  # mnemonic | reg | int | hex | regtext | unknown


@dataclass
class Item:
    kind: str  # mn | reg | lit | imm | label | var | quoted | other
    name: Optional[str] = None
    strings: tuple = ()
    g: Optional[G] = None
    optional: bool = False


def flatten(g: G, inherited: Optional[str] = None) -> list[Item]:
    """Shape of one instruction alternative."""
    name = g.name or inherited
    k = g.kind
    if k == "group" or k == "combine" and _is_imm(g) is False and _is_register(g) is False and False:
        return flatten(g.items[0], name)
    if _is_register(g):
        return [Item("reg", name, g=g)]
    if _is_imm(g):
        return [Item("imm", name, g=g)]
    if k == "group":
        return flatten(g.items[0], name)
    if k == "seq":
        out: list[Item] = []
        for it in g.items:
            out += flatten(it, None)
        return out
    if k == "sup":
        inner = g.items[0]
        if inner.kind == "lit":
            return [Item("lit", None, (inner.s,))]
        if inner.kind == "end":
            return []
        return [Item("other", None, g=g)]
    if k == "lit":
        if name == "mnemonic":
            return [Item("mn", name, (g.s.lower(),))]
        return [Item("lit", name, (g.s,))]
    if k == "oneof":
        if name == "mnemonic":
            return [Item("mn", name, tuple(s.lower() for s in oneof_strings(g)))]
        return [Item("other", name, g=g)]
    if k == "alt" and name == "mnemonic":
        strs: list[str] = []
        for it in g.items:
            if it.kind == "lit":
                strs.append(it.s.lower())
            elif it.kind == "oneof":
                strs += [s.lower() for s in oneof_strings(it)]
            else:
                return [Item("other", name, g=g)]
        return [Item("mn", name, tuple(strs))]
    if k == "word":
        return [Item("label", name, g=g)]
    if k == "opt":
        inner = flatten(g.items[0], name)
        for it in inner:
            it.optional = True
        return inner
    if k == "alt":
        # operand alternatives such as imm ^ (label + offset): keep as a choice item
        return [Item("choice", name, g=g)]
    if k == "combine":
        return [Item("var", name, g=g)]
    if k == "quoted":
        return [Item("quoted", name, g=g)]
    return [Item("other", name, g=g)]


def _is_register(g: G) -> bool:
    if g.kind != "alt" or len(g.items) != 2:
        return False
    a, b = g.items
    return a.kind == "oneof" and b.kind == "group" and b.items[0].kind == "seq" and len(b.items[0].items) == 2 \
        and b.items[0].items[0].kind == "lit" and b.items[0].items[0].s == "x" and b.items[0].items[1].kind == "oneof"


def _is_imm(g: G) -> bool:
    return g.kind == "combine" and g.src == "_pattern_imm" or (g.kind == "combine" and g.items and g.items[0].kind == "seq"
                                                             and g.items[0].items and g.items[0].items[0].kind == "opt"
                                                             and g.items[0].items[0].items[0].kind == "lit" and g.items[0].items[0].items[0].s == "-")


def register_numbers(g: G) -> list[str]:
    return oneof_strings(g.items[1].items[0].items[1])


def register_names(g: G) -> list[str]:
    return oneof_strings(g.items[0])


# ----------------------------------------------------------------- templates
def template_of(js: ast.JoinedStr, hole_kind) -> list[Union[str, Hole]]:
    out: list[Union[str, Hole]] = []
    for v in js.values:
        if isinstance(v, ast.Constant):
            out += list(str(v.value))
        elif isinstance(v, ast.FormattedValue):
            if v.format_spec is not None or v.conversion != -1:
                out.append(Hole(ast.unparse(v.value), "unknown"))
            else:
                t = ast.unparse(v.value)
                out.append(Hole(t, hole_kind(v.value)))
    return out


def match(tpl: list[Union[str, Hole]], shape: list[Item], mnemonics: Optional[set] = None) -> Optional[dict]:
    """hole expr -> results name, or None if the template does not parse as this shape."""
    i = 0
    binding: dict = {}

    def skip_ws() -> None:
        nonlocal i
        while i < len(tpl) and isinstance(tpl[i], str) and tpl[i].isspace():
            i += 1

    for it in shape:
        skip_ws()
        if it.kind == "mn":
            # a literal mnemonic or a mnemonic hole
            if i < len(tpl) and isinstance(tpl[i], Hole) and tpl[i].kind == "mnemonic":
                if mnemonics is not None and not (mnemonics <= set(it.strings)):
                    return None
                binding[tpl[i].expr] = it.name
                i += 1
            else:
                j = i
                word = ""
                while j < len(tpl) and isinstance(tpl[j], str) and (tpl[j].isalnum() or tpl[j] == "_"):
                    word += tpl[j]
                    j += 1
                if not word or word.lower() not in it.strings:
                    return None
                # the mnemonic must end at a token boundary
                if j < len(tpl) and isinstance(tpl[j], Hole):
                    return None
                binding["<mnemonic>"] = word.lower()
                i = j
        elif it.kind == "reg":
            if i < len(tpl) and isinstance(tpl[i], str) and tpl[i] == "x" and i + 1 < len(tpl) and isinstance(tpl[i + 1], Hole) \
                    and tpl[i + 1].kind == "reg":
                binding[tpl[i + 1].expr] = it.name
                i += 2
            elif i < len(tpl) and isinstance(tpl[i], Hole) and tpl[i].kind == "regtext":
                binding[tpl[i].expr] = it.name
                i += 1
            elif i < len(tpl) and isinstance(tpl[i], str) and tpl[i] == "x":
                # literal register such as x0
                j = i + 1
                num = ""
                while j < len(tpl) and isinstance(tpl[j], str) and tpl[j].isdigit():
                    num += tpl[j]
                    j += 1
                if num not in register_numbers(it.g):
                    return None
                if j < len(tpl) and (isinstance(tpl[j], Hole) or (isinstance(tpl[j], str) and tpl[j].isalnum())):
                    return None
                binding[f"<x{num}>"] = it.name
                i = j
            else:
                return None
        elif it.kind == "lit":
            s = it.strings[0]
            for ch in s:
                if i < len(tpl) and tpl[i] == ch:
                    i += 1
                else:
                    return None if not it.optional else None
        elif it.kind == "imm":
            if i < len(tpl) and isinstance(tpl[i], Hole) and tpl[i].kind in ("int", "hex"):
                binding[tpl[i].expr] = it.name
                i += 1
            else:
                j = i
                num = ""
                while j < len(tpl) and isinstance(tpl[j], str) and (tpl[j].isdigit() or (tpl[j] == "-" and not num)):
                    num += tpl[j]
                    j += 1
                if not num or num == "-":
                    return None
                binding[f"<{num}>"] = it.name
                i = j
        elif it.kind == "choice":
            # operand alternative: an int hole selects the imm branch
            if i < len(tpl) and isinstance(tpl[i], Hole) and tpl[i].kind in ("int", "hex"):
                names = [x.name for x in _walk(it.g) if x.name]
                binding[tpl[i].expr] = "imm" if "imm" in names else (names[0] if names else None)
                i += 1
            else:
                return None
        else:
            return None
    skip_ws()
    if i != len(tpl):
        return None
    return binding


def _walk(g: G):
    yield g
    for it in g.items:
        if isinstance(it, G):
            yield from _walk(it)


# ----------------------------------------------------- hole text languages
def lang_decimal_int() -> G:
    """str(int): '0' | '-'? [1-9][0-9]*   (also '-0' never occurs)"""
    return alt([lit("0"), seq([G("opt", (lit("-"),)), G("word", chars="123456789", body=NUMS)])], False)


def lang_hex_int() -> G:
    """hex(int): '-'? '0x' [0-9a-f]+"""
    return seq([G("opt", (lit("-"),)), lit("0x"), G("word", chars="0123456789abcdef", body="0123456789abcdef")])
