"""Discharge `assert` statements that cannot fail, by abstract interpretation of their backward slice.

An assert on the load path is a possible AssertionError (R15.raise) -- unless it states a fact the code in front of it has just
established.  The tactic: take the statements of the same block in front of the assert that (transitively) assign what its test
reads (plain assignments and `if`s of those only), rename attribute chains to plain names, and run the slice in `sa.absrun` with
every free variable symbolic.  When the test mentions `% C` for a small power of two C, each free variable is split into its
residues `C*q + k`; the assert is discharged when the test evaluates to the constant 1 in every case.  Everything else (calls that
are not int()/fixedint casts, loops, a test outside the bit-slice domain) leaves the assert standing: fail closed.
"""
from __future__ import annotations

import ast
import copy
import itertools
from typing import Optional

from .absrun import AbsRun
from .bitslice import Form, Inconclusive
from .model import FuncInfo, Model


def _find_block(root: ast.AST, st: ast.stmt) -> Optional[tuple[list, int]]:
    for n in ast.walk(root):
        for fld in ("body", "orelse", "finalbody"):
            v = getattr(n, fld, None)
            if isinstance(v, list):
                for i, x in enumerate(v):
                    if x is st:
                        return v, i
        if isinstance(n, ast.Try):
            for h in n.handlers:
                for i, x in enumerate(h.body):
                    if x is st:
                        return h.body, i
    return None


def _chain_text(e: ast.AST) -> Optional[str]:
    t = e
    while isinstance(t, ast.Attribute):
        t = t.value
    return ast.unparse(e) if isinstance(t, ast.Name) and isinstance(e, ast.Attribute) else None


class _Flatten(ast.NodeTransformer):
    """attribute chains -> plain names (`self.full_address` -> `_a_self__full_address`)"""

    def visit_Attribute(self, n: ast.Attribute):
        t = _chain_text(n)
        if t is not None:
            return ast.copy_location(ast.Name(id="_a_" + t.replace(".", "__"), ctx=n.ctx), n)
        return self.generic_visit(n)


class _SplitChains(ast.NodeTransformer):
    def visit_Compare(self, n: ast.Compare):
        self.generic_visit(n)
        if len(n.ops) > 1:
            parts = []
            left = n.left
            for op, right in zip(n.ops, n.comparators):
                parts.append(ast.Compare(left=copy.deepcopy(left), ops=[op], comparators=[copy.deepcopy(right)]))
                left = right
            return ast.copy_location(ast.BoolOp(op=ast.And(), values=parts), n)
        return n


def _reads(n: ast.AST) -> set:
    return {x.id for x in ast.walk(n) if isinstance(x, ast.Name) and isinstance(x.ctx, ast.Load)}


def _stores(n: ast.AST) -> set:
    return {x.id for x in ast.walk(n) if isinstance(x, ast.Name) and isinstance(x.ctx, (ast.Store, ast.Del))}


def _simple_stmt(s: ast.stmt) -> bool:
    if isinstance(s, (ast.Assign, ast.AugAssign, ast.AnnAssign)):
        return True
    if isinstance(s, ast.If):
        return all(_simple_stmt(x) for x in s.body + s.orelse)
    return isinstance(s, ast.Pass)


_OK_CALLS = {"int", "bool", "UInt8", "UInt16", "UInt32", "UInt64", "Int8", "Int16", "Int32", "Int64", "pow", "abs"}


def _calls_ok(n: ast.AST) -> bool:
    for x in ast.walk(n):
        if isinstance(x, ast.Call):
            nm = x.func.id if isinstance(x.func, ast.Name) else x.func.attr if isinstance(x.func, ast.Attribute) else None
            if nm not in _OK_CALLS:
                return False
    return True


def discharged(model: Model, g: FuncInfo, st: ast.Assert) -> bool:
    try:
        if _discharged(model, g, st):
            return True
    except (Inconclusive, RecursionError, KeyError, AttributeError, TypeError, ValueError):
        pass
    # second tactic: every quantity the test reads ranges over a finite set (enum members, call-site constants): enumerate
    try:
        from .valueset import discharged_finite
        return discharged_finite(model, g, st, _find_block)
    except (RecursionError, KeyError, AttributeError, TypeError, ValueError):
        return False


def _discharged(model: Model, g: FuncInfo, st: ast.Assert) -> bool:
    loc = _find_block(g.node, st)
    if loc is None:
        return False
    block, i = loc
    fl = _Flatten()
    test = _SplitChains().visit(fl.visit(copy.deepcopy(st.test)))
    if not _calls_ok(test):
        return False
    need = _reads(test)
    sl: list = []
    for prev in reversed(block[max(0, i - 8):i]):
        p2 = fl.visit(copy.deepcopy(prev))
        if isinstance(prev, ast.Assert):
            continue
        hit = _stores(p2) & need
        if not hit:
            continue
        if isinstance(p2, (ast.Assign, ast.AnnAssign)) and not _calls_ok(p2) and _stores(p2) == hit and \
                all(isinstance(t, ast.Name) for t in (p2.targets if isinstance(p2, ast.Assign) else [p2.target])):
            # bound to something the domain knows nothing about: an arbitrary value from here on (a free variable of the slice);
            # nothing in front of this statement matters for it
            need -= hit
            continue
        if not _simple_stmt(p2) or not _calls_ok(p2):
            return False
        sl.insert(0, p2)
        need |= _reads(p2)
    # a statement at the head of the slice that the domain cannot follow (a subscript into a table, a string operation ..) makes
    # what it binds an arbitrary value: drop it and try again with its targets free (an over-approximation, hence sound)
    while True:
        try:
            return _attempt(model, g, st, sl, test)
        except Inconclusive:
            if not sl:
                raise
            sl = sl[1:]


def _attempt(model: Model, g: FuncInfo, st: ast.Assert, sl: list, test: ast.AST) -> bool:
    assigned: set = set()
    free: set = set()
    for s in sl + [ast.Expr(value=test)]:
        free |= (_reads(s) - assigned)
        assigned |= _stores(s)
    import builtins
    free = {v for v in free if not hasattr(builtins, v) and v not in _OK_CALLS}
    # named constants of the module are folded by the interpreter's folder: keep only what it cannot resolve
    free = {v for v in free if model.resolve_name(g.module, v) is None}
    mods = set()
    for n in [test] + sl:
        for x in ast.walk(n):
            if isinstance(x, ast.BinOp) and isinstance(x.op, (ast.Mod, ast.FloorDiv)):
                c = x.right
                if isinstance(c, ast.Constant) and isinstance(c.value, int) and 1 < c.value <= 16 and c.value & (c.value - 1) == 0:
                    mods.add(c.value)
                elif isinstance(c, ast.Name):
                    from .idioms import _module_scalar
                    r = model.resolve_name(g.module, c.id)
                    v = _module_scalar(model, r[1], r[2]) if isinstance(r, tuple) and r[0] == "assign" else None
                    if v is not None and isinstance(v[0], int) and 1 < v[0] <= 16 and v[0] & (v[0] - 1) == 0:
                        mods.add(v[0])
    C = max(mods) if mods else 1
    free_l = sorted(free)
    if C ** len(free_l) > 64:
        return False
    node = ast.FunctionDef(name="_assert_slice", args=ast.arguments(posonlyargs=[], args=[ast.arg(arg=v) for v in free_l], kwonlyargs=[], kw_defaults=[],
                                                                     defaults=[]), body=sl + [ast.Return(value=test)], decorator_list=[], lineno=getattr(st, "lineno", 1), col_offset=0)
    ast.fix_missing_locations(node)
    fi = FuncInfo("_assert_slice", g.qname + ".<assert>", node, g.module, None)
    for combo in itertools.product(range(C), repeat=len(free_l)):
        env = {v: (Form.var("q_" + v).scale(C) + Form.k(k)) if C > 1 else Form.var(v) for v, k in zip(free_l, combo)}
        run = AbsRun(model, fi, env, {})
        res = run.run()
        if run.raised is not None or res is None or not (res.is_const() and res.const == 1):
            return False
    return True
