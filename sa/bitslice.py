"""Bit-slice linear forms: an abstract domain for mask/shift/add expressions.

A form is  sum(coef * bit(var, k)) + sum(coef * tail(var, lo)) + const  where
bit(var,k) is bit k of the (infinite two's-complement) integer ``var`` and
tail(var, lo) = var >> lo (all bits from lo upwards, sign included).  The
domain is closed under  & const-mask, >> const, << const, + , - , * const,
% 2**k; anything else is ``Inconclusive`` (never a guess).
"""
from __future__ import annotations

import ast
from typing import Callable, Mapping, Optional, Union

from .consteval import Folder, Unknown


class Inconclusive(Exception):
    pass


class NotABit(Inconclusive):
    """A comparison that is decidedly not one bit of its operand (e.g. a threshold that is not a power-of-two boundary)."""


class Form:
    __slots__ = ("bits", "tails", "const")

    def __init__(self, bits: Optional[dict] = None, tails: Optional[dict] = None, const: int = 0) -> None:
        self.bits = {k: v for k, v in (bits or {}).items() if v != 0}
        self.tails = {k: v for k, v in (tails or {}).items() if v != 0}
        self.const = const

    @staticmethod
    def var(name: str) -> "Form":
        return Form(tails={(name, 0): 1})

    @staticmethod
    def field(name: str, lo: int, hi: int, signed: bool = False) -> "Form":
        """bits [lo,hi) of name, right-aligned; two's complement if signed."""
        bits = {(name, b): 1 << (b - lo) for b in range(lo, hi)}
        if signed and hi > lo:
            bits[(name, hi - 1)] = -(1 << (hi - 1 - lo))
        return Form(bits=bits)

    @staticmethod
    def k(c: int) -> "Form":
        return Form(const=c)

    def is_const(self) -> bool:
        return not self.bits and not self.tails

    def __eq__(self, o: object) -> bool:
        return isinstance(o, Form) and self.bits == o.bits and self.tails == o.tails and self.const == o.const

    def __add__(self, o: "Form") -> "Form":
        b = dict(self.bits)
        for k, v in o.bits.items():
            b[k] = b.get(k, 0) + v
        t = dict(self.tails)
        for k, v in o.tails.items():
            t[k] = t.get(k, 0) + v
        return Form(b, t, self.const + o.const)

    def scale(self, c: int) -> "Form":
        return Form({k: v * c for k, v in self.bits.items()}, {k: v * c for k, v in self.tails.items()}, self.const * c)

    def __sub__(self, o: "Form") -> "Form":
        return self + o.scale(-1)

    # ---- bit-level view: only for forms that are a disjoint placement of bits
    def _placement(self) -> dict:
        """position -> ('bit', var, k) | ('tail', var, lo) for forms whose terms have
        distinct power-of-two coefficients (a placement of input bits), const == 0."""
        if self.const != 0:
            raise Inconclusive("mask/shift of a form with a constant part")
        pos: dict = {}
        for (v, k), c in self.bits.items():
            if c <= 0 or c & (c - 1):
                raise Inconclusive("mask/shift of a non-placement form")
            p = c.bit_length() - 1
            if p in pos:
                raise Inconclusive("overlapping bit placement")
            pos[p] = ("bit", v, k)
        for (v, lo), c in self.tails.items():
            if c <= 0 or c & (c - 1):
                raise Inconclusive("mask/shift of a non-placement form")
            p = c.bit_length() - 1
            pos[("tail", p)] = ("tail", v, lo)
        # a tail occupies every position >= p: no placed bit may sit there
        for key in list(pos):
            if isinstance(key, tuple):
                p = key[1]
                if any(isinstance(q, int) and q >= p for q in pos):
                    raise Inconclusive("tail overlaps placed bits")
        if sum(1 for k in pos if isinstance(k, tuple)) > 1:
            raise Inconclusive("two tails")
        return pos

    def _low_free(self, s: int) -> bool:
        """No variable bit sits below position s (the variable part is a multiple of 2**s)."""
        return all(c % (1 << s) == 0 for c in list(self.bits.values()) + list(self.tails.values()))

    def and_mask(self, mask: int) -> "Form":
        if mask < 0 and ((~mask) & ((~mask) + 1)) == 0:
            # x & ~(2**s - 1) = x - (x & (2**s - 1)): clearing the low s bits
            low = (~mask)
            return self - self.and_mask(low)
        if self.const != 0 and mask >= 0 and (mask & (mask + 1)) == 0:
            k = mask.bit_length()  # mask = 2**k - 1
            x = Form(self.bits, self.tails, 0)
            if self.const % (1 << k) == 0:
                return x.and_mask(mask)
            if x._low_free(k):
                return Form.k(self.const & mask)
            if k == 1 and self.const % 2 == 1:
                return Form.k(1) - x.and_mask(1)  # bit0(x + odd) = 1 - bit0(x)
        pos = self._placement()
        if mask < 0:
            if any(isinstance(k, tuple) for k in pos):
                raise Inconclusive("negative mask on an unbounded value")
            return Form(bits={(src[1], src[2]): 1 << p for p, src in pos.items() if (mask >> p) & 1})
        bits: dict = {}
        top = mask.bit_length()
        tail = [(k[1], v) for k, v in pos.items() if isinstance(k, tuple)]
        for p in range(top):
            if not (mask >> p) & 1:
                continue
            if p in pos:
                _, v, k = pos[p]
                bits[(v, k)] = bits.get((v, k), 0) + (1 << p)
            elif tail and p >= tail[0][0]:
                tp, (_, v, lo) = tail[0]
                bits[(v, lo + p - tp)] = bits.get((v, lo + p - tp), 0) + (1 << p)
        return Form(bits=bits)

    def rshift(self, s: int) -> "Form":
        if self.const != 0:
            x = Form(self.bits, self.tails, 0)
            if self.const % (1 << s) == 0 or x._low_free(s):
                # floor((x + c) / 2**s) = floor(x / 2**s) + floor(c / 2**s) when one of them is a multiple of 2**s
                return x.rshift(s) + Form.k(self.const >> s)
            if s == 1 and self.const % 2 == 1:
                # (x + odd) >> 1 = (x >> 1) + (odd >> 1) + bit0(x): the carry out of bit 0 is bit0(x) itself
                return x.rshift(1) + Form.k(self.const >> 1) + x.and_mask(1)
        pos = self._placement()
        bits: dict = {}
        tails: dict = {}
        for key, src in pos.items():
            if isinstance(key, tuple):
                tp = key[1]
                _, v, lo = src
                if tp >= s:
                    tails[(v, lo)] = 1 << (tp - s)
                else:
                    tails[(v, lo + s - tp)] = 1
            else:
                if key >= s:
                    _, v, k = src
                    bits[(v, k)] = 1 << (key - s)
        return Form(bits, tails)

    def lshift(self, s: int) -> "Form":
        return self.scale(1 << s)

    def describe(self) -> str:
        parts = []
        by_var: dict = {}
        for (v, k), c in sorted(self.bits.items()):
            by_var.setdefault(v, []).append((k, c))
        for v, lst in by_var.items():
            parts.append(f"{v}[" + ",".join(f"{k}:{_c(c)}" for k, c in lst) + "]")
        for (v, lo), c in sorted(self.tails.items()):
            parts.append(f"{_c(c)}*({v}>>{lo})")
        if self.const or not parts:
            parts.append(str(self.const))
        return " + ".join(parts)


def _c(c: int) -> str:
    if c > 0 and c & (c - 1) == 0:
        return f"2^{c.bit_length() - 1}"
    if c < 0 and (-c) & (-c - 1) == 0:
        return f"-2^{(-c).bit_length() - 1}"
    return str(c)


WRAP32 = {"UInt32", "fixedint.UInt32"}


class Evaluator:
    """Evaluate an expression AST into a Form.

    env: name / dotted attribute text -> Form   (inputs and previously computed fields)
    folder: constant folder for everything that has no variable in it
    """

    def __init__(self, env: Mapping[str, Form], folder: Optional[Folder] = None) -> None:
        self.env = dict(env)
        self.folder = folder

    def cval(self, e: ast.AST) -> Optional[int]:
        """a constant by folding, or by evaluation in the current environment (`32 - self.num_tag_bits` after `self.num_tag_bits = 20`)"""
        c = self.const(e)
        if c is not None:
            return c
        if isinstance(e, ast.Constant):
            return None
        try:
            f = self.ev(e)
        except Inconclusive:
            return None
        return f.const if f.is_const() else None

    # (module-level helper below: arithmetic over integer literals only, e.g. `1 << 4`)
    def const(self, e: ast.AST) -> Optional[int]:
        if self.folder is None:
            return _literal_int(e)
        try:
            v = self.folder.fold(e)
        except Unknown:
            return None
        except Exception:
            return None
        return v if isinstance(v, int) and not isinstance(v, bool) else None

    def ev(self, e: ast.AST) -> Form:
        txt = ast.unparse(e)
        if txt in self.env:
            return self.env[txt]
        c = self.const(e)
        if c is not None:
            return Form.k(c)
        if isinstance(e, ast.Constant) and isinstance(e.value, bool):
            return Form.k(int(e.value))  # True / False as a stored bit
        if isinstance(e, ast.BinOp):
            op = e.op
            if isinstance(op, (ast.Add, ast.Sub)):
                l, r = self.ev(e.left), self.ev(e.right)
                return l + r if isinstance(op, ast.Add) else l - r
            if isinstance(op, ast.BitAnd):
                cl, cr = self.const(e.left), self.const(e.right)
                if cr is not None:
                    return self.ev(e.left).and_mask(cr)
                if cl is not None:
                    return self.ev(e.right).and_mask(cl)
                raise Inconclusive("& of two non-constants")
            if isinstance(op, ast.RShift):
                cr = self.cval(e.right)
                if cr is None or cr < 0:
                    raise Inconclusive(">> by a non-constant")
                return self.ev(e.left).rshift(cr)
            if isinstance(op, ast.LShift):
                cr = self.cval(e.right)
                if cr is None or cr < 0:
                    raise Inconclusive("<< by a non-constant")
                return self.ev(e.left).lshift(cr)
            if isinstance(op, ast.Mult):
                cl, cr = self.const(e.left), self.const(e.right)
                if cr is not None:
                    return self.ev(e.left).scale(cr)
                if cl is not None:
                    return self.ev(e.right).scale(cl)
                raise Inconclusive("* of two non-constants")
            if isinstance(op, ast.FloorDiv):
                cr = self.cval(e.right)
                if cr is not None and cr > 0 and cr & (cr - 1) == 0:
                    return self.ev(e.left).rshift(cr.bit_length() - 1)
                raise Inconclusive("// by a non power of two")
            if isinstance(op, ast.Mod):
                cr = self.cval(e.right)
                if cr is not None and cr > 0 and cr & (cr - 1) == 0:
                    return self.ev(e.left).and_mask(cr - 1)
                raise Inconclusive("% by a non power of two")
            if isinstance(op, ast.BitOr):
                l, r = self.ev(e.left), self.ev(e.right)
                # x | c with the bits of c free in x (x a multiple of 2**k, c < 2**k): x + c
                for a, b in ((l, r), (r, l)):
                    if b.is_const() and b.const >= 0 and not a.is_const():
                        k = b.const.bit_length()
                        if a.const % (1 << k) == 0 and a._low_free(k):
                            return a + b
                # OR of disjoint placements is their sum
                pl, pr = l._placement(), r._placement()
                if set(pl) & set(pr):
                    raise Inconclusive("| of overlapping placements")
                return l + r
            raise Inconclusive(f"operator {type(op).__name__}")
        if isinstance(e, ast.Call):
            fn = ast.unparse(e.func)
            if fn == "int" and len(e.args) == 1:
                return self.ev(e.args[0])
            if fn in WRAP32 and len(e.args) == 1:
                return self.ev(e.args[0]).and_mask(0xFFFFFFFF)
            if fn == "pow" and len(e.args) == 2:
                c = self.const(e)
                if c is not None:
                    return Form.k(c)
            raise Inconclusive(f"call {fn}")
        if isinstance(e, ast.UnaryOp) and isinstance(e.op, ast.USub):
            return self.ev(e.operand).scale(-1)
        raise Inconclusive(f"expression {txt[:60]}")


def _literal_int(e: ast.AST, depth: int = 0) -> Optional[int]:
    """the value of an expression built from integer literals only (`1 << 4`, `2 ** 12 - 1`); None for anything else"""
    if depth > 8:
        return None
    if isinstance(e, ast.Constant):
        return e.value if isinstance(e.value, int) and not isinstance(e.value, bool) else None
    if isinstance(e, ast.UnaryOp) and isinstance(e.op, (ast.USub, ast.UAdd, ast.Invert)):
        v = _literal_int(e.operand, depth + 1)
        return None if v is None else (-v if isinstance(e.op, ast.USub) else v if isinstance(e.op, ast.UAdd) else ~v)
    if isinstance(e, ast.BinOp):
        a, b = _literal_int(e.left, depth + 1), _literal_int(e.right, depth + 1)
        if a is None or b is None:
            return None
        op = e.op
        try:
            if isinstance(op, ast.Add):
                return a + b
            if isinstance(op, ast.Sub):
                return a - b
            if isinstance(op, ast.Mult):
                return a * b
            if isinstance(op, ast.LShift) and 0 <= b <= 256:
                return a << b
            if isinstance(op, ast.RShift) and b >= 0:
                return a >> b
            if isinstance(op, ast.Pow) and 0 <= b <= 64:
                return a ** b
            if isinstance(op, ast.FloorDiv) and b != 0:
                return a // b
            if isinstance(op, ast.Mod) and b != 0:
                return a % b
            if isinstance(op, ast.BitAnd):
                return a & b
            if isinstance(op, ast.BitOr):
                return a | b
            if isinstance(op, ast.BitXor):
                return a ^ b
        except (OverflowError, ValueError):
            return None
    return None
