"""Path classification for the cache memory systems (shared by C03/C07/C09/C11/C12)."""
from __future__ import annotations

import ast
from dataclasses import dataclass, field
from typing import Optional

from .guards import facts_of
from .inline import inline_view, not_named
from .model import AnalysisError, FuncInfo, Model
from .paths import Event, Path, calls_in, event_exprs, function_paths

READS = ("read_byte", "read_halfword", "read_word")
WRITES = ("write_byte", "write_halfword", "write_word")
STAT_FIELDS = ("hits", "accesses", "last_was_hit")


# Today's methods of the cache memory systems: the rules know these by name.  Any *other* method of
# the same object called from a counted method is a helper somebody extracted; it is inlined before
# the paths are enumerated (sa.inline), so moving statements into a helper changes nothing.
ANCHORS = frozenset({
    "__init__", "_decode_address", "_read_block", "_read_block_from_memory", "_write_block_to_memory", "cache_repr",
    "get_address_range", "get_cache_stats", "read_byte", "read_halfword", "read_word", "reset", "wordwise_repr",
    "write_byte", "write_halfword", "write_word", "get_representation", "has_instructions", "instruction_at_address",
    "read_instruction", "write_instruction", "write_instructions",
})


def counted_methods(model: Model) -> list[tuple[FuncInfo, str]]:
    """(method, flag-kind) for the ten counted access methods, extracted helpers inlined."""
    cache = model.__dict__.get("_counted_methods")
    if cache is None:
        want = not_named(ANCHORS, "cache-anchors")
        cache = model.__dict__["_counted_methods"] = [(inline_view(model, f, want), k) for f, k in _counted_methods(model)]
    return cache


def sanctioned_helpers(model: Model) -> set[str]:
    """qnames of helpers that were inlined into counted methods and are called from nowhere else:
    their statistic / cycle writes are judged on the inlined paths."""
    counted = counted_methods(model)
    cand: set[str] = set()
    for f, _ in counted:
        cand |= set(f.__dict__.get("inlined_helpers", ()))
    if not cand:
        return set()
    ok_callers = {f.qname for f, _ in counted} | cand
    names = {q.rsplit(".", 1)[1]: q for q in cand}
    bad: set[str] = set()
    for mod in model.modules.values():
        fns = list(mod.functions.values()) + [fn for c in mod.classes.values() for fn in c.methods.values()]
        for fn in fns:
            for n in ast.walk(fn.node):
                if isinstance(n, ast.Call) and isinstance(n.func, ast.Attribute) and n.func.attr in names and fn.qname not in ok_callers:
                    bad.add(names[n.func.attr])
    return cand - bad


def _counted_methods(model: Model) -> list[tuple[FuncInfo, str]]:
    """(method, flag-kind) for the ten counted access methods.
    flag-kind: 'read' (update_statistics), 'write' (directly_write_to_lower_memory), 'always'."""
    out: list[tuple[FuncInfo, str]] = []
    base = model.cls("BaseCacheMemorySystem")
    for n in READS:
        out.append((model.method(base, n, own=True), "read"))
    for cn in ("WriteBackMemorySystem", "WriteThroughMemorySystem"):
        c = model.cls(cn)
        for n in WRITES:
            out.append((model.method(c, n, own=True), "write"))
    out.append((model.method("InstructionMemoryCacheSystem", "read_instruction", own=True), "always"))
    # a subclass overriding one of them would dodge the rules: require none
    for k in model.subclasses(base, strict=True):
        for n in READS:
            if n in k.methods:
                out.append((k.methods[n], "read"))
    return out


def self_attr(e: ast.AST, selfname: str, *attrs: str) -> bool:
    """e is self.a1.a2..."""
    for a in reversed(attrs):
        if not (isinstance(e, ast.Attribute) and e.attr == a):
            return False
        e = e.value
    return isinstance(e, ast.Name) and e.id == selfname


def hit_names(f: FuncInfo) -> dict[str, str]:
    """Local names that hold the hit flag -> how they were bound.
    'cmp:<x>'   name = <x> is not None
    'unpack'    _, name = self._read_block(...)"""
    out: dict[str, str] = {}
    sn = f.params[0]
    for n in ast.walk(f.node):
        if isinstance(n, ast.Assign) and len(n.targets) == 1:
            t, v = n.targets[0], n.value
            if isinstance(t, ast.Name) and isinstance(v, ast.Compare) and len(v.ops) == 1 \
                    and isinstance(v.ops[0], ast.IsNot) and isinstance(v.comparators[0], ast.Constant) \
                    and v.comparators[0].value is None and isinstance(v.left, ast.Name):
                out[t.id] = "cmp:" + v.left.id
            if isinstance(t, ast.Tuple) and len(t.elts) == 2 and isinstance(t.elts[1], ast.Name) \
                    and isinstance(v, ast.Call) and isinstance(v.func, ast.Attribute) \
                    and v.func.attr == "_read_block" and self_attr(v.func.value, sn):
                out[t.elts[1].id] = "unpack"
    return out


@dataclass
class PathClass:
    path: Path
    counted: Optional[bool]  # None: flag not tested on this path
    acc: list = field(default_factory=list)  # nodes of accesses += 1
    acc_bad: list = field(default_factory=list)  # accesses stores that are not += 1
    hits_val: list = field(default_factory=list)  # hits += int(hit) / hit
    hits_lit: list = field(default_factory=list)  # hits += 1
    hits_bad: list = field(default_factory=list)
    last: list = field(default_factory=list)
    last_bad: list = field(default_factory=list)
    pen: list = field(default_factory=list)  # cycles += self.miss_penality with hit-polarity at that point
    pen_bad: list = field(default_factory=list)
    hit_pol: Optional[bool] = None  # polarity of the hit flag if tested on the path
    facts: set = field(default_factory=set)
    calls: list = field(default_factory=list)  # (index, call, short-name)


def classify(f: FuncInfo, kind: str) -> list[PathClass]:
    sn = f.params[0]
    hn = hit_names(f)
    flag = {"read": "update_statistics", "write": "directly_write_to_lower_memory"}.get(kind)
    if flag is not None and flag not in f.params:
        raise AnalysisError(f"{f.qname}: parameter {flag} vanished")
    out = []
    for p in function_paths(f.node):
        pc = PathClass(p, counted=True if kind == "always" else None)
        for i, e in enumerate(p.events):
            if e.kind == "test":
                fs = facts_of(e.node, bool(e.pol))
                pc.facts |= fs
                for a, v in fs:
                    if flag is not None and a == flag:
                        pc.counted = v if kind == "read" else (not v)
                    if a in hn:
                        pc.hit_pol = v
                    # `block_values is None` style tests on the variable hit was computed from
                    for h, how in hn.items():
                        if how.startswith("cmp:") and a == f"None is {how[4:]}":
                            pass
            for x in event_exprs(e):
                for c in calls_in(x):
                    nm = c.func.attr if isinstance(c.func, ast.Attribute) else (c.func.id if isinstance(c.func, ast.Name) else "")
                    pc.calls.append((i, c, nm))
            n = e.node
            if e.kind != "stmt":
                continue
            if isinstance(n, ast.AugAssign) and isinstance(n.op, ast.Add):
                if self_attr(n.target, sn, "accesses"):
                    (pc.acc if _is_const(n.value, 1) else pc.acc_bad).append(n)
                elif self_attr(n.target, sn, "hits"):
                    v = n.value
                    if isinstance(v, ast.Call) and isinstance(v.func, ast.Name) and v.func.id == "int" and len(v.args) == 1:
                        v = v.args[0]
                    if isinstance(v, ast.Name) and v.id in hn:
                        pc.hits_val.append(n)
                    elif _is_const(n.value, 1):
                        pc.hits_lit.append((n, pc.hit_pol))
                    else:
                        pc.hits_bad.append(n)
                elif isinstance(n.target, ast.Attribute) and n.target.attr == "cycles":
                    if self_attr(n.target, sn, "performance_metrics", "cycles") and self_attr(n.value, sn, "miss_penality"):
                        pc.pen.append((n, pc.hit_pol))
                    else:
                        pc.pen_bad.append(n)
            elif isinstance(n, (ast.Assign, ast.AugAssign, ast.AnnAssign)):
                tg = n.targets if isinstance(n, ast.Assign) else [n.target]
                for t in tg:
                    if self_attr(t, sn, "last_was_hit"):
                        v = n.value
                        if isinstance(n, ast.Assign) and isinstance(v, ast.Name) and v.id in hn:
                            pc.last.append(n)
                        else:
                            pc.last_bad.append(n)
                    elif self_attr(t, sn, "hits"):
                        pc.hits_bad.append(n)
                    elif self_attr(t, sn, "accesses"):
                        pc.acc_bad.append(n)
                    elif isinstance(t, ast.Attribute) and t.attr == "cycles":
                        pc.pen_bad.append(n)
        out.append(pc)
    return out


def _is_const(e: ast.AST, v: int) -> bool:
    return isinstance(e, ast.Constant) and e.value == v and not isinstance(e.value, bool)
