"""Reference formulations of CacheSet.read / CacheSet.write (shared by C10 and C12).

Compared through `sa.flowspec` (normal form of returns and effects), so the set may be
restructured freely as long as every path still does the same things to the same objects.
"""
from __future__ import annotations

from .flowspec import compare
from .inline import not_named
from .report import Ctx

READ_REF = '''
def read(self, address):
    block_index = self.get_block_index(address)
    if block_index is not None:
        self.replacement_strategy.access(block_index)
        return self.blocks[block_index].values
    return None
'''

WRITE_REF = '''
def write(self, address, block_values):
    block_index = self.get_block_index(address)
    if block_index is None:
        block_index = self.replacement_strategy.get_next_to_replace()
        block = self.blocks[block_index]
        replaced = None
        if block.dirty_bit:
            replaced = (block.decoded_address, block.values)
        block.dirty_bit = True
        block.write(block_values, address)
        self.replacement_strategy.access(block_index)
        return False, replaced
    else:
        self.blocks[block_index].write(block_values, address)
        self.blocks[block_index].dirty_bit = True
        self.replacement_strategy.access(block_index)
        return True, None
'''

SET_ANCHORS = not_named({"__init__", "get_block_index", "get_repr", "is_block_in_set", "read", "write"}, "cacheset-anchors")


def _policy(kind: str, s: str) -> bool:
    return ".replacement_strategy." in s or (kind == "call" and ".write(" in s and ".blocks[" in s)


def _dirty(kind: str, s: str) -> bool:
    return (kind == "store" and ".dirty_bit" in s) or (kind == "call" and ".write(" in s and ".blocks[" in s)


def notify_rule(ctx: Ctx, rid: str) -> None:
    m = ctx.model
    r = ctx.rule(rid, "policy notified of every access with the right index, in the right order (normal form vs reference)")
    compare(r, m, m.method("CacheSet", "read", own=True), READ_REF, "CacheSet.read", keep=_policy, want_inline=SET_ANCHORS,
            what="a read hit calls replacement_strategy.access(hit index) once and returns that block's values; a miss tells the policy nothing")
    compare(r, m, m.method("CacheSet", "write", own=True), WRITE_REF, "CacheSet.write", keep=_policy, returns=False, want_inline=SET_ANCHORS,
            what="fill = get_next_to_replace() first, write blocks[victim], access(victim); write hit = write blocks[hit], access(hit)")
    r.floor(3)


def dirty_rule(ctx: Ctx, rid: str) -> None:
    m = ctx.model
    r = ctx.rule(rid, "CacheSet.write: dirty victim captured before overwrite; written blocks dirty (normal form vs reference)")
    compare(r, m, m.method("CacheSet", "write", own=True), WRITE_REF, "CacheSet.write", keep=_dirty, want_inline=SET_ANCHORS,
            what="a miss returns (False, (victim address, victim values) if the victim was dirty else None), read before the "
                 "overwrite; a hit returns (True, None); every written block is marked dirty")
