"""Shapes of the cache plumbing recovered through loop normalisation + symflow (shared by C03/C11/C12/C18)."""
from __future__ import annotations

import ast
from typing import Optional

from .model import FuncInfo, Model
from .parsershape import normal_flow
from .symflow import Flow

BASE = "P1.block_alinged_address"
WORD_ADDRS = {f"Add(Mult(4, {{i}}), {BASE})", f"Add(LShift({{i}}, 2), {BASE})", f"BitOr(LShift({{i}}, 2), {BASE})"}


def call_args(model: Model, call: ast.Call, cls_name: str) -> Optional[dict]:
    """Constructor arguments of `cls_name(...)` by parameter name."""
    c = model.cls(cls_name)
    init = model.lookup(c, "__init__")
    if init is None:
        return None
    params = init.params[1:]
    out = {}
    if len(call.args) > len(params):
        return None
    for p, a in zip(params, call.args):
        out[p] = a
    for k in call.keywords:
        if k.arg is None:
            return None
        out[k.arg] = k.value
    return out


def data_memory_constructions(model: Model) -> tuple[FuncInfo, Flow, list[ast.Call]]:
    """Every distinct `Memory(...)` that can end up as (the back end of) `self.memory` of the RISC-V state,
    with locals substituted (so a shared local and two written-out copies are the same thing)."""
    f = model.method("RiscvArchitecturalState", "__init__")
    fl = normal_flow(model, f)
    mem = model.cls("Memory")
    out: list[ast.Call] = []
    seen: set = set()
    for e in fl.effects:
        if e.kind == "store" and fl.canon(e.expr.targets[0]) == "P0.memory":  # type: ignore[attr-defined]
            for n in ast.walk(e.expr.value):  # type: ignore[attr-defined]
                if isinstance(n, ast.Call) and model.resolve_class(f.module, n.func) is mem:
                    k = fl.canon(n)
                    if k not in seen:
                        seen.add(k)
                        out.append(n)
    return f, fl, out


def fill_form(model: Model, f: FuncInfo) -> Optional[dict]:
    """`_read_block_from_memory` as  [ELT(a) for i in ITER]  ->  {'iter', 'elt', 'addrs': canonical address args, 'var'}"""
    fl = normal_flow(model, f)
    if len(fl.returns) != 1 or fl.canon_cond(fl.returns[0].cond) != "TRUE":
        return None
    v = fl.returns[0].value
    if not (isinstance(v, ast.ListComp) and len(v.generators) == 1 and isinstance(v.generators[0].target, ast.Name) and not v.generators[0].ifs):
        return None
    g = v.generators[0]
    from .symflow import Printer
    pr = Printer(model, f.params, {g.target.id: "_c0"}, canonical=True)
    addrs = []
    for n in ast.walk(v.elt):
        if isinstance(n, ast.Call) and isinstance(n.func, ast.Attribute) and n.args:
            a = n.args[0]
            if isinstance(a, ast.NamedExpr):
                a = a.value
            addrs.append((n.func.attr, pr.show(a), pr.show(n.func.value)))
    return {"iter": pr.show(g.iter), "elt": pr.show(v.elt), "addrs": addrs, "elt_node": v.elt, "var": g.target.id, "printer": pr}


def writeback_form(model: Model, f: FuncInfo) -> Optional[dict]:
    """`_write_block_to_memory(self, decoded_address, block)`: the write_word effect inside its loop."""
    fl = normal_flow(model, f)
    ws = [e for e in fl.effects if e.kind == "call" and isinstance(e.expr, ast.Call) and isinstance(e.expr.func, ast.Attribute)
          and e.expr.func.attr == "write_word"]
    if len(ws) != 1:
        return None
    e = ws[0]
    args = list(e.expr.args) + [k.value for k in e.expr.keywords]  # type: ignore[attr-defined]
    if len(args) != 2:
        return None
    return {"recv": fl.canon(e.expr.func.value), "address": fl.canon(args[0]), "value": fl.canon(args[1]), "cond": fl.canon_cond(e.cond)}  # type: ignore[attr-defined]
