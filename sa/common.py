"""Helpers shared by the rule modules."""
from __future__ import annotations

import ast
import os
import re
from typing import Iterable, Iterator, Optional

from .effects import Effects
from .model import AnalysisError, ClassInfo, FuncInfo, Model, ModuleInfo, walk_no_nested
from .report import Ctx
from .typesys import TypeSys

SIM_MUTATORS = {
    "step", "run", "load_program", "first_cycle_step", "second_cycle_step", "single_step",
}


def effects(ctx: Ctx) -> Effects:
    if "effects" not in ctx.__dict__:
        ctx.__dict__["effects"] = Effects(ctx.model, typesys(ctx))
    return ctx.__dict__["effects"]


def typesys(ctx: Ctx) -> TypeSys:
    if "typesys" not in ctx.__dict__:
        ctx.__dict__["typesys"] = TypeSys(ctx.model)
    return ctx.__dict__["typesys"]


def short(qname: str) -> str:
    """architecture_simulator.a.b.Class.method -> Class.method"""
    parts = qname.split(".")
    return ".".join(parts[-2:]) if len(parts) >= 2 else qname


def all_functions(model: Model, skip_cli: bool = True) -> Iterator[FuncInfo]:
    for f in model.functions.values():
        if skip_cli and ".cli." in f.qname:
            continue
        yield f


def attr_stores(model: Model, attr: str, skip_cli: bool = True) -> list[tuple[FuncInfo, ast.AST, ast.AST]]:
    """All statements anywhere in the package that store to ``<expr>.attr``
    (Assign / AugAssign / AnnAssign / Delete / tuple targets). Returns
    (function, statement, target)."""
    out = []
    for f in all_functions(model, skip_cli):
        for n in walk_no_nested(f.node):
            for t in store_targets(n):
                if isinstance(t, ast.Attribute) and t.attr == attr:
                    out.append((f, n, t))
    return out


def store_targets(n: ast.AST) -> list[ast.AST]:
    tg: list[ast.AST] = []
    if isinstance(n, ast.Assign):
        tg = list(n.targets)
    elif isinstance(n, (ast.AugAssign, ast.AnnAssign)):
        tg = [n.target] if not (isinstance(n, ast.AnnAssign) and n.value is None) else []
    elif isinstance(n, ast.Delete):
        tg = list(n.targets)
    elif isinstance(n, (ast.For, ast.AsyncFor)):
        tg = [n.target]
    elif isinstance(n, ast.NamedExpr):
        tg = [n.target]
    out = []
    stack = tg
    while stack:
        t = stack.pop()
        if isinstance(t, (ast.Tuple, ast.List)):
            stack.extend(t.elts)
        elif isinstance(t, ast.Starred):
            stack.append(t.value)
        else:
            out.append(t)
    return out


def is_attr_chain(e: ast.AST, *names: str) -> bool:
    """e is ``<anything>.n1.n2...`` ending with the given attribute names."""
    for n in reversed(names):
        if not (isinstance(e, ast.Attribute) and e.attr == n):
            return False
        e = e.value
    return True


def ends_with_attrs(e: ast.AST, names: Iterable[str]) -> bool:
    return is_attr_chain(e, *names)


def read_text(ctx: Ctx, relpath: str) -> str:
    if relpath in ctx.model.overlay:
        return ctx.model.overlay[relpath]
    p = os.path.join(ctx.model.repo, relpath)
    if not os.path.exists(p):
        raise AnalysisError(f"anchor vanished: file {relpath}")
    with open(p, encoding="utf-8") as fh:
        return fh.read()


def frontend_calls(ctx: Ctx) -> set[str]:
    """Python methods the web front end calls on a simulation object."""
    root = os.path.join(ctx.model.repo, "webgui", "src")
    if not os.path.isdir(root):
        raise AnalysisError("anchor vanished: webgui/src")
    out: set[str] = set()
    for dp, _dn, fns in os.walk(root):
        for fn in fns:
            if fn.endswith((".js", ".vue", ".ts")):
                with open(os.path.join(dp, fn), encoding="utf-8", errors="replace") as fh:
                    out |= set(re.findall(r"simulation\.(\w+)\(", fh.read()))
    return out


def const_int(e: ast.AST) -> Optional[int]:
    if isinstance(e, ast.Constant) and isinstance(e.value, int) and not isinstance(e.value, bool):
        return e.value
    if isinstance(e, ast.UnaryOp) and isinstance(e.op, ast.USub):
        v = const_int(e.operand)
        return None if v is None else -v
    return None


def name_of_call(c: ast.Call) -> str:
    f = c.func
    if isinstance(f, ast.Attribute):
        return f.attr
    if isinstance(f, ast.Name):
        return f.id
    return ""


def seg(f: FuncInfo, n: ast.AST) -> str:
    s = f.module.seg(n) or ast.unparse(n)
    s = " ".join(s.split())
    return s if len(s) <= 100 else s[:97] + "..."
