"""Constant folding over the closed expression subset the repo's tables use.

``fold(expr, env)`` returns a Python value or raises ``Unknown``.  ``env`` maps
names to AST expressions (folded lazily) or to already-folded Python values
wrapped in ``Val``.
"""
from __future__ import annotations

import ast
import operator
from typing import Any, Callable, Mapping, Optional

from .model import AnalysisError, ClassInfo, Model, ModuleInfo


class Unknown(Exception):
    pass


class Val:
    def __init__(self, v: Any) -> None:
        self.v = v


_BIN = {
    ast.Add: operator.add,
    ast.Sub: operator.sub,
    ast.Mult: operator.mul,
    ast.FloorDiv: operator.floordiv,
    ast.Div: operator.truediv,
    ast.Mod: operator.mod,
    ast.Pow: operator.pow,
    ast.LShift: operator.lshift,
    ast.RShift: operator.rshift,
    ast.BitAnd: operator.and_,
    ast.BitOr: operator.or_,
    ast.BitXor: operator.xor,
}
_UN = {ast.USub: operator.neg, ast.Invert: operator.invert, ast.UAdd: operator.pos, ast.Not: operator.not_}
_CMP = {
    ast.Eq: operator.eq,
    ast.NotEq: operator.ne,
    ast.Lt: operator.lt,
    ast.LtE: operator.le,
    ast.Gt: operator.gt,
    ast.GtE: operator.ge,
}


class Folder:
    def __init__(self, model: Model, module: ModuleInfo, cls: Optional[ClassInfo] = None,
                 extra: Optional[Mapping[str, Any]] = None) -> None:
        self.model = model
        self.module = module
        self.cls = cls
        self.extra = dict(extra or {})
        self._busy: set[str] = set()

    # -- names -------------------------------------------------------------
    def name(self, ident: str) -> Any:
        if ident in self.extra:
            v = self.extra[ident]
            if isinstance(v, Val):
                return v.v
            if isinstance(v, ast.AST):
                return self.fold(v)
            return v
        if ident in self._busy:
            raise Unknown(f"recursive name {ident}")
        self._busy.add(ident)
        try:
            if self.cls is not None:
                hit = self.model.lookup_assign(self.cls, ident)
                if hit is not None:
                    k, e = hit
                    return Folder(self.model, k.module, k, self.extra).fold(e)
            r = self.model.resolve_name(self.module, ident)
            if isinstance(r, tuple) and r[0] == "assign":
                m2 = r[1]
                return Folder(self.model, m2, None, None).fold(m2.assigns[r[2]])
            if isinstance(r, ClassInfo):
                return r
            if isinstance(r, tuple) and r[0] == "ext":
                if r[1] in ("pyparsing.alphas",):
                    pass
            if ident in ("True", "False", "None"):
                return {"True": True, "False": False, "None": None}[ident]
            raise Unknown(f"unbound name {ident}")
        finally:
            self._busy.discard(ident)

    # -- expressions ---------------------------------------------------------
    def fold(self, e: ast.AST) -> Any:
        if isinstance(e, ast.Constant):
            return e.value
        if isinstance(e, ast.Name):
            return self.name(e.id)
        if isinstance(e, ast.BinOp):
            op = _BIN.get(type(e.op))
            if op is None:
                raise Unknown(ast.dump(e.op))
            a, b = self.fold(e.left), self.fold(e.right)
            try:
                return op(a, b)
            except Exception as exc:
                raise Unknown(str(exc))
        if isinstance(e, ast.UnaryOp):
            return _UN[type(e.op)](self.fold(e.operand))
        if isinstance(e, ast.BoolOp):
            vals = [self.fold(v) for v in e.values]
            if isinstance(e.op, ast.And):
                r = True
                for v in vals:
                    r = r and v
                return r
            r = False
            for v in vals:
                r = r or v
            return r
        if isinstance(e, ast.Compare) and all(type(o) in _CMP for o in e.ops):
            left = self.fold(e.left)
            for o, c in zip(e.ops, e.comparators):
                right = self.fold(c)
                if not _CMP[type(o)](left, right):
                    return False
                left = right
            return True
        if isinstance(e, ast.IfExp):
            return self.fold(e.body) if self.fold(e.test) else self.fold(e.orelse)
        if isinstance(e, (ast.List, ast.Tuple, ast.Set)):
            vals = [self.fold(x) for x in e.elts]
            if isinstance(e, ast.List):
                return vals
            if isinstance(e, ast.Tuple):
                return tuple(vals)
            try:
                return set(vals)
            except TypeError:
                return _IdSet(vals)
        if isinstance(e, ast.Dict):
            out = {}
            for k, v in zip(e.keys, e.values):
                if k is None:
                    raise Unknown("dict unpacking")
                kk = self.fold(k)
                try:
                    out[kk] = self.fold(v)
                except Unknown:
                    out[kk] = UNFOLDED(v)
            return out
        if isinstance(e, ast.Subscript):
            base = self.fold(e.value)
            if isinstance(e.slice, ast.Slice):
                lo = None if e.slice.lower is None else self.fold(e.slice.lower)
                hi = None if e.slice.upper is None else self.fold(e.slice.upper)
                st = None if e.slice.step is None else self.fold(e.slice.step)
                return base[lo:hi:st]
            idx = self.fold(e.slice)
            try:
                r = base[idx]
            except Exception as exc:
                raise Unknown(str(exc))
            if isinstance(r, UNFOLDED):
                raise Unknown("unfoldable dict value")
            return r
        if isinstance(e, ast.ListComp) and len(e.generators) == 1:
            g = e.generators[0]
            it = self.fold(g.iter)
            out = []
            for item in it:
                sub = Folder(self.model, self.module, self.cls, dict(self.extra))
                _bind(sub.extra, g.target, item)
                if all(sub.fold(c) for c in g.ifs):
                    out.append(sub.fold(e.elt))
            return out
        if isinstance(e, ast.Call):
            return self.call(e)
        if isinstance(e, ast.Attribute):
            # UInt32.width / fixedint.UInt8.width / UInt12.width (the package's own 12-bit type): the bit width is in the type's name
            if e.attr == "width":
                import re as _re
                base = e.value.id if isinstance(e.value, ast.Name) else e.value.attr if isinstance(e.value, ast.Attribute) else ""
                mm = _re.fullmatch(r"U?Int(\d+)", base)
                if mm:
                    origin = self.module.imports.get(base, "") if isinstance(e.value, ast.Name) else ast.unparse(e.value)
                    if origin.startswith("fixedint") or "fixedint" in origin:
                        return int(mm.group(1))
            # module.attr of package modules, Enum-ish access is not folded
            r = self.model.resolve_expr(self.module, e)
            if isinstance(r, tuple) and r[0] == "assign":
                m2 = r[1]
                return Folder(self.model, m2).fold(m2.assigns[r[2]])
            if isinstance(r, ClassInfo):
                return r
            if isinstance(r, tuple) and r[0] == "ext":
                if r[1] in _EXT_CONST:
                    return _EXT_CONST[r[1]]
                # fixedint.UInt32.width / UInt12.width: the bit width is in the class name
                import re as _re
                mm = _re.fullmatch(r"fixedint(?:\.[A-Za-z_]+)*\.U?Int(\d+)\.width", r[1])
                if mm:
                    return int(mm.group(1))
            raise Unknown("attribute " + ast.unparse(e))
        if isinstance(e, ast.JoinedStr):
            parts = []
            for v in e.values:
                if isinstance(v, ast.Constant):
                    parts.append(str(v.value))
                elif isinstance(v, ast.FormattedValue) and v.format_spec is None and v.conversion == -1:
                    parts.append(str(self.fold(v.value)))
                else:
                    raise Unknown("format spec")
            return "".join(parts)
        raise Unknown(type(e).__name__)

    def call(self, e: ast.Call) -> Any:
        fn = e.func
        if e.keywords and not (isinstance(fn, ast.Name) and fn.id in ("dict",)):
            raise Unknown("keywords in call")
        if isinstance(fn, ast.Name):
            args = lambda: [self.fold(a) for a in e.args]  # noqa: E731
            if fn.id == "pow":
                a = args()
                return pow(*a)
            if fn.id in ("range", "len", "list", "tuple", "set", "sorted", "str", "int", "bool",
                         "min", "max", "abs", "sum", "dict", "reversed", "enumerate", "zip"):
                a = args()
                f: Callable = {"range": range, "len": len, "list": list, "tuple": tuple,
                               "set": set, "sorted": sorted, "str": str, "int": int,
                               "bool": bool, "min": min, "max": max, "abs": abs, "sum": sum,
                               "dict": dict, "reversed": lambda x: list(reversed(x)),
                               "enumerate": lambda x: list(enumerate(x)),
                               "zip": lambda *x: list(zip(*x))}[fn.id]
                try:
                    return f(*a)
                except Exception as exc:
                    raise Unknown(str(exc))
        if isinstance(fn, ast.Attribute) and isinstance(fn.value, ast.Name) and fn.value.id == "math" \
                and fn.attr in ("ceil", "floor", "log2") and len(e.args) == 1:
            import math
            try:
                return getattr(math, fn.attr)(self.fold(e.args[0]))
            except Unknown:
                raise
            except Exception as exc:
                raise Unknown(str(exc))
        if isinstance(fn, ast.Attribute):
            # Settings().get()
            if fn.attr == "get" and isinstance(fn.value, ast.Call) and not e.args:
                c = self.model.resolve_class(self.module, fn.value.func)
                if c is not None and c.name == "Settings" and "_settings" in c.assigns:
                    return Folder(self.model, c.module, c).fold(c.assigns["_settings"])
            if fn.attr in ("keys", "values", "items") and not e.args:
                base = self.fold(fn.value)
                if isinstance(base, dict):
                    return list(getattr(base, fn.attr)())
            if fn.attr in ("lower", "upper") and not e.args:
                base = self.fold(fn.value)
                if isinstance(base, str):
                    return getattr(base, fn.attr)()
        raise Unknown("call " + ast.unparse(e)[:60])


class UNFOLDED:
    def __init__(self, node: ast.AST) -> None:
        self.node = node


class _IdSet(list):
    pass


_EXT_CONST: dict[str, Any] = {}


def _bind(env: dict, target: ast.AST, value: Any) -> None:
    if isinstance(target, ast.Name):
        env[target.id] = Val(value)
    elif isinstance(target, (ast.Tuple, ast.List)):
        vals = list(value)
        if len(vals) != len(target.elts):
            raise Unknown("unpack arity")
        for t, v in zip(target.elts, vals):
            _bind(env, t, v)
    else:
        raise Unknown("bind target")


def fold_in(model: Model, module: ModuleInfo, e: ast.AST, cls: Optional[ClassInfo] = None,
            extra: Optional[Mapping[str, Any]] = None) -> Any:
    return Folder(model, module, cls, extra).fold(e)


def must_fold(model: Model, module: ModuleInfo, e: ast.AST, what: str,
              cls: Optional[ClassInfo] = None, extra: Optional[Mapping[str, Any]] = None) -> Any:
    try:
        return fold_in(model, module, e, cls, extra)
    except Unknown as exc:
        raise AnalysisError(
            f"{module.relpath}:{getattr(e, 'lineno', 0)}: cannot fold {what}: "
            f"{ast.unparse(e)[:80]} ({exc})"
        )
