"""Interprocedural write-effect summaries with a small may-alias abstraction.

A *ref* is (root, path, contained):
  root       a formal parameter name of the analysed function, or 'GLOBAL:<what>'
  path       tuple of field names / '[]' below the root (truncated)
  contained  the expression is a *fresh* container/object whose elements or
             fields may alias root.path (writing the container itself is no
             effect; writing through it is)
An expression with no refs is fresh (or immutable).

A *write* is (root, path) plus diagnostics (origin statement, call chain).
Summaries are computed per (function, boolean-literal specialisation) and
iterated to a fixpoint over the call graph.
"""
from __future__ import annotations

import ast
from dataclasses import dataclass, field
from typing import Iterable, Optional

from .model import AnalysisError, ClassInfo, FuncInfo, Model, walk_no_nested
from .typesys import CallRes, TypeSys, classes_of, is_immutable

Ref = tuple  # (root, path, contained)
Spec = frozenset  # of (param, bool)
MAXPATH = 6

# ---------------------------------------------------------------- externals
PURE_FUNCS = {
    "int", "str", "bool", "float", "len", "range", "isinstance", "issubclass", "hex", "bin",
    "chr", "ord", "abs", "min", "max", "sum", "pow", "round", "hash", "id", "repr", "format",
    "type", "callable", "hasattr", "all", "any", "divmod", "bytes", "print", "super", "object",
    "NotImplementedError", "ValueError", "KeyError", "TypeError", "RuntimeError", "Exception",
    "AssertionError", "IndexError", "AttributeError", "StopIteration",
}
ALIAS_FUNCS = {
    "list", "tuple", "set", "frozenset", "sorted", "reversed", "enumerate", "zip", "dict",
    "iter", "filter", "map", "vars", "getattr", "copy.copy", "collections.defaultdict",
    "defaultdict",
}
MUTATE_ARG0_FUNCS = {"setattr", "delattr", "random.shuffle", "heapq.heappush", "heapq.heappop", "next"}
PURE_PREFIXES = (
    "fixedint.", "math.", "time.", "json.", "struct.", "pyparsing.", "dataclasses.", "typing.",
    "abc.", "enum.", "sys.", "os.path.", "re.", "string.", "itertools.", "functools.",
    "collections.", "copy.deepcopy", "operator.",
)
PURE_METHODS = {
    "format", "join", "split", "splitlines", "strip", "lstrip", "rstrip", "lower", "upper",
    "startswith", "endswith", "replace", "encode", "decode", "isdigit", "zfill", "to_bytes",
    "from_bytes", "bit_length", "index", "count", "find", "rfind", "keys", "values", "items",
    "get", "copy", "__repr__", "__str__", "__eq__", "__int__", "title", "capitalize", "ljust",
    "rjust", "center", "isalpha", "isalnum", "partition", "rpartition", "casefold",
    # pyparsing ParseResults / ParserElement
    "parse_string", "parseString", "get_name", "getName", "as_list", "asList", "as_dict",
    "suppress", "set_results_name", "setResultsName", "set_name", "__getitem__", "__contains__",
    "__len__", "__iter__", "__hash__", "__ne__", "__lt__", "__le__", "__gt__", "__ge__",
    "__init__", "__init_subclass__", "__new__", "hex", "is_integer",
}
ALIAS_METHODS = {"get", "items", "values", "keys", "copy", "__getitem__", "pop", "setdefault",
                 "popitem", "__iter__"}
MUTATING_METHODS = {
    "append", "extend", "insert", "pop", "remove", "clear", "sort", "reverse", "update",
    "setdefault", "add", "discard", "popitem", "__setitem__", "__delitem__", "__iadd__",
    "appendleft", "popleft", "write", "writelines", "close", "flush", "seek", "truncate",
    "__setattr__", "__delattr__", "difference_update", "intersection_update",
    "symmetric_difference_update", "rotate", "send",
}


@dataclass(frozen=True)
class Write:
    root: str
    path: tuple
    origin: str  # file:line
    text: str  # the writing statement, normalised
    where: str  # qualified name of the function containing the store
    chain: tuple = ()  # call chain from the summarised function down to `where`

    @property
    def key(self) -> tuple:
        return (self.root, self.path, self.where, self.text)

    def describe(self) -> str:
        tgt = self.root + "".join("." + p if p != "[]" else "[]" for p in self.path)
        return f"{tgt}  <=  {self.where}: `{self.text}` ({self.origin})"


@dataclass
class Summary:
    writes: dict = field(default_factory=dict)  # key -> Write
    rets: set = field(default_factory=set)  # refs relative to formals
    self_fields: set = field(default_factory=set)  # for __init__: refs stored into self.*
    unresolved: dict = field(default_factory=dict)  # (origin,text) -> chain
    callees: set = field(default_factory=set)  # (FuncInfo, Spec)

    def size(self) -> tuple:
        return (len(self.writes), len(self.rets), len(self.self_fields), len(self.unresolved), len(self.callees))


def _trunc(p: tuple) -> tuple:
    return p if len(p) <= MAXPATH else p[:MAXPATH] + ("*",)


def _norm(text: str) -> str:
    t = " ".join(text.split())
    return t if len(t) <= 90 else t[:87] + "..."


class Effects:
    def __init__(self, model: Model, ts: Optional[TypeSys] = None) -> None:
        self.model = model
        self.ts = ts or TypeSys(model)
        self.table: dict[tuple, Summary] = {}
        self._refbusy: set = set()
        self._solved = False
        self._dirty: set = set()
        self._users: dict = {}  # key -> set of keys whose summary consulted it
        self._current = None
        self._rescache: dict = {}

    # -------------------------------------------------------------- driver
    def summary(self, f: FuncInfo, spec: Spec = frozenset()) -> Summary:
        spec = self._clean_spec(f, spec)
        key = (f, spec)
        if key not in self.table:
            self.table[key] = Summary()
            self._dirty.add(key)
            self._solved = False
        if self._current is not None:
            self._users.setdefault(key, set()).add(self._current)
        return self.table[key]

    def solve(self) -> None:
        steps = 0
        while self._dirty:
            steps += 1
            if steps > 200000:
                raise AnalysisError("effect fixpoint did not converge")
            key = self._dirty.pop()
            self._current = key
            try:
                new = self._compute(*key)
            finally:
                self._current = None
            old = self.table[key]
            if (set(new.writes) != set(old.writes) or new.rets != old.rets
                    or new.self_fields != old.self_fields
                    or set(new.unresolved) != set(old.unresolved)
                    or new.callees != old.callees):
                for k, w in old.writes.items():  # keep the shortest chain seen
                    if k in new.writes and len(new.writes[k].chain) > len(w.chain):
                        new.writes[k] = w
                self.table[key] = new
                self._dirty |= self._users.get(key, set())
        self._solved = True

    def solved(self, f: FuncInfo, spec: Spec = frozenset()) -> Summary:
        self.summary(f, spec)
        if not self._solved:
            self.solve()
        return self.table[(f, self._clean_spec(f, spec))]

    def closure(self, f: FuncInfo, spec: Spec = frozenset()) -> set:
        """All (function, spec) reachable from (f, spec) in the solved call graph."""
        self.solved(f, spec)
        seen = set()
        stack = [(f, self._clean_spec(f, spec))]
        while stack:
            k = stack.pop()
            if k in seen:
                continue
            seen.add(k)
            stack.extend(self.table[k].callees)
        return seen

    def _clean_spec(self, f: FuncInfo, spec: Spec) -> Spec:
        env = self.ts.env(f)
        return frozenset((p, v) for p, v in spec if p in env.params and p not in env.assigned_params)

    # ------------------------------------------------------ constant tests
    def const_of(self, e: ast.AST, spec: Spec) -> Optional[bool]:
        if isinstance(e, ast.Constant) and isinstance(e.value, bool):
            return e.value
        if isinstance(e, ast.Name):
            for p, v in spec:
                if p == e.id:
                    return v
            return None
        if isinstance(e, ast.UnaryOp) and isinstance(e.op, ast.Not):
            c = self.const_of(e.operand, spec)
            return None if c is None else (not c)
        if isinstance(e, ast.BoolOp):
            vals = [self.const_of(v, spec) for v in e.values]
            if isinstance(e.op, ast.And):
                if any(v is False for v in vals):
                    return False
                if all(v is True for v in vals):
                    return True
            else:
                if any(v is True for v in vals):
                    return True
                if all(v is False for v in vals):
                    return False
        return None

    # ---------------------------------------------------------- live code
    def live_stmts(self, stmts: Iterable[ast.stmt], spec: Spec) -> Iterable[ast.stmt]:
        """Simple statements reachable under ``spec`` plus the header expressions of
        compound statements (yielded as the compound node itself)."""
        for st in stmts:
            if isinstance(st, ast.If):
                c = self.const_of(st.test, spec)
                yield st  # header (test expression)
                if c is not False:
                    yield from self.live_stmts(st.body, spec)
                if c is not True:
                    yield from self.live_stmts(st.orelse, spec)
                # a branch that is certainly taken and certainly leaves the block makes the rest dead
                taken = st.body if c is True else st.orelse if c is False else None
                if taken and isinstance(taken[-1], (ast.Return, ast.Raise, ast.Continue, ast.Break)):
                    return
            elif isinstance(st, (ast.For, ast.AsyncFor, ast.While)):
                yield st
                yield from self.live_stmts(st.body, spec)
                yield from self.live_stmts(st.orelse, spec)
            elif isinstance(st, ast.Try) or type(st).__name__ == "TryStar":
                yield from self.live_stmts(st.body, spec)
                for h in st.handlers:
                    yield from self.live_stmts(h.body, spec)
                yield from self.live_stmts(st.orelse, spec)
                yield from self.live_stmts(st.finalbody, spec)
            elif isinstance(st, (ast.With, ast.AsyncWith)):
                yield st
                yield from self.live_stmts(st.body, spec)
            elif isinstance(st, ast.Match):
                yield st
                for c in st.cases:
                    yield from self.live_stmts(c.body, spec)
            elif isinstance(st, (ast.FunctionDef, ast.AsyncFunctionDef, ast.ClassDef)):
                continue
            else:
                yield st
                if isinstance(st, (ast.Return, ast.Raise, ast.Continue, ast.Break)):
                    return

    def header_exprs(self, st: ast.stmt) -> list[ast.AST]:
        if isinstance(st, ast.If):
            return [st.test]
        if isinstance(st, ast.While):
            return [st.test]
        if isinstance(st, (ast.For, ast.AsyncFor)):
            return [st.iter]
        if isinstance(st, (ast.With, ast.AsyncWith)):
            return [it.context_expr for it in st.items]
        if isinstance(st, ast.Match):
            return [st.subject] + [c.guard for c in st.cases if c.guard is not None]
        return [st]

    def live_calls(self, node: ast.AST, spec: Spec) -> list[ast.Call]:
        """Call nodes evaluated by ``node`` (IfExp branches pruned under spec)."""
        out: list[ast.Call] = []

        def rec(n: ast.AST) -> None:
            if isinstance(n, (ast.Lambda, ast.FunctionDef, ast.AsyncFunctionDef, ast.ClassDef)):
                return
            if isinstance(n, ast.IfExp):
                c = self.const_of(n.test, spec)
                rec(n.test)
                if c is not False:
                    rec(n.body)
                if c is not True:
                    rec(n.orelse)
                return
            for ch in ast.iter_child_nodes(n):
                rec(ch)
            if isinstance(n, ast.Call):
                out.append(n)

        rec(node)
        return out

    # ----------------------------------------------------------------- refs
    def refs(self, e: ast.AST, f: FuncInfo, spec: Spec) -> set:
        key = (id(e), f, spec)
        if key in self._refbusy:
            return set()
        self._refbusy.add(key)
        try:
            return {(r, _trunc(p), c) for r, p, c in self._refs(e, f, spec)}
        finally:
            self._refbusy.discard(key)

    def _elem(self, rs: set) -> set:
        return {(r, p, False) if c else (r, p + ("[]",), False) for r, p, c in rs}

    def _contained(self, rs: set) -> set:
        return {(r, p, True) for r, p, c in rs}

    def _refs(self, e: ast.AST, f: FuncInfo, spec: Spec) -> set:
        ts = self.ts
        if isinstance(e, (ast.Constant, ast.JoinedStr, ast.Compare, ast.Lambda)):
            return set()
        if isinstance(e, ast.UnaryOp):
            return set()
        if isinstance(e, (ast.Name, ast.Attribute, ast.Call, ast.Subscript)):
            if is_immutable(ts.type_of(e, f)):
                return set()
        if isinstance(e, ast.Name):
            env = ts.env(f)
            out: set = set()
            if e.id in env.params:
                if not (e.id == env.params[0] and False):
                    out.add((e.id, (), False))
            if e.id == env.vararg or e.id == env.kwarg:
                out.add((e.id, (), True))
            if e.id in env.bindings and e.id not in env.globals_declared:
                for b in env.bindings[e.id]:
                    out |= self._binding_refs(b, f, spec)
                return out
            if out:
                return out
            r = self.model.resolve_name(f.module, e.id)
            if isinstance(r, tuple) and r[0] == "assign":
                return {(f"GLOBAL:{r[1].name}.{r[2]}", (), False)}
            if isinstance(r, ClassInfo):
                return {(f"GLOBAL:{r.qname}", (), False)}
            if e.id in env.globals_declared:
                return {(f"GLOBAL:{f.module.name}.{e.id}", (), False)}
            return set()
        if isinstance(e, ast.NamedExpr):
            return self.refs(e.value, f, spec)
        if isinstance(e, ast.Starred):
            return self.refs(e.value, f, spec)
        if isinstance(e, ast.Attribute):
            r = self.model.resolve_expr(f.module, e)
            if not (isinstance(e.value, ast.Name) and ts.env(f).is_local(e.value.id)):
                if isinstance(r, tuple) and r[0] == "assign":
                    return {(f"GLOBAL:{r[1].name}.{r[2]}", (), False)}
                if isinstance(r, ClassInfo):
                    return {(f"GLOBAL:{r.qname}", (), False)}
                if isinstance(r, tuple) and r[0] == "ext":
                    return set()
            base = self.refs(e.value, f, spec)
            out = {(r0, p + (e.attr,), False) for r0, p, c in base}
            # class-level (shared) attribute read through an instance or the class
            bt = ts.type_of(e.value, f)
            for a in bt:
                if a[0] in ("cls", "type"):
                    ca = self.model.lookup_assign(a[1], e.attr)
                    if ca is not None and not self._instance_assigned(a[1], e.attr) \
                            and not isinstance(ca[1], ast.Constant):
                        out.add((f"GLOBAL:{ca[0].qname}.{e.attr}", (), False))
            return out
        if isinstance(e, ast.Subscript):
            base = self.refs(e.value, f, spec)
            if isinstance(e.slice, ast.Slice):
                return {(r0, p + ("[]",), True) if not c else (r0, p, True) for r0, p, c in base}
            return self._elem(base)
        if isinstance(e, ast.IfExp):
            c = self.const_of(e.test, spec)
            out = set()
            if c is not False:
                out |= self.refs(e.body, f, spec)
            if c is not True:
                out |= self.refs(e.orelse, f, spec)
            return out
        if isinstance(e, ast.BoolOp):
            out = set()
            for v in e.values:
                out |= self.refs(v, f, spec)
            return out
        if isinstance(e, ast.BinOp):
            lt = ts.type_of(e.left, f)
            rt = ts.type_of(e.right, f)
            if is_immutable(lt) or is_immutable(rt):
                return set()
            return self._contained(self._flat(self.refs(e.left, f, spec)) | self._flat(self.refs(e.right, f, spec)))
        if isinstance(e, (ast.List, ast.Tuple, ast.Set)):
            out = set()
            for x in e.elts:
                out |= self._wrap(self.refs(x, f, spec))
            return out
        if isinstance(e, ast.Dict):
            out = set()
            for v in list(e.values) + [k for k in e.keys if k is not None]:
                out |= self._wrap(self.refs(v, f, spec))
            return out
        if isinstance(e, (ast.ListComp, ast.SetComp, ast.GeneratorExp)):
            return self._wrap(self.refs(e.elt, f, spec))
        if isinstance(e, ast.DictComp):
            return self._wrap(self.refs(e.value, f, spec) | self.refs(e.key, f, spec))
        if isinstance(e, ast.Call):
            return self._call_refs(e, f, spec)
        if isinstance(e, (ast.Await, ast.Yield, ast.YieldFrom)):
            return set()
        return set()

    def _wrap(self, rs: set) -> set:
        """Refs of a fresh container holding an object with refs ``rs``."""
        # a direct ref becomes 'contained'; an already-contained ref (a fresh container
        # nested in a fresh container) stays contained -- one level of precision is lost,
        # conservatively: later element access yields the direct ref again.
        return {(r, p, True) for r, p, c in rs}

    def _flat(self, rs: set) -> set:
        return {(r, p if c else p + ("[]",), True) for r, p, c in rs}

    def _instance_assigned(self, c: ClassInfo, attr: str) -> bool:
        for k in self.model.mro(c):
            for meth in k.methods.values():
                if not meth.params:
                    continue
                sn = meth.params[0]
                for n in walk_no_nested(meth.node):
                    tg = []
                    if isinstance(n, ast.Assign):
                        tg = n.targets
                    elif isinstance(n, (ast.AnnAssign, ast.AugAssign)):
                        tg = [n.target]
                    for t in tg:
                        if isinstance(t, ast.Attribute) and t.attr == attr and isinstance(t.value, ast.Name) and t.value.id == sn:
                            return True
            if k.is_dataclass and attr in k.anns:
                return True
        return False

    def _binding_refs(self, b, f: FuncInfo, spec: Spec) -> set:
        if b.kind == "expr" and b.expr is not None:
            return self.refs(b.expr, f, spec)
        if b.kind == "iter" and b.expr is not None:
            return self._elem(self.refs(b.expr, f, spec))
        if b.kind == "with" and b.expr is not None:
            return self.refs(b.expr, f, spec)
        if b.kind == "unpack" and b.inner is not None:
            return self._elem(self._binding_refs(b.inner, f, spec))
        return set()

    # ---------------------------------------------------------------- calls
    def bind_args(self, call: ast.Call, callee: FuncInfo, res: CallRes) -> dict:
        """formal -> list of actual expressions ('FRESH' for a constructed self)."""
        params = callee.params
        out: dict = {p: [] for p in params}
        a = callee.node.args
        positional = [x.arg for x in a.posonlyargs + a.args]
        start = 0
        if callee.cls is not None and not callee.is_staticmethod:
            if res.kind == "ctor":
                out[positional[0]] = ["FRESH"]
                start = 1
            elif res.kind in ("method", "super", "indirect"):
                out[positional[0]] = [res.recv] if res.recv is not None else ["UNKNOWN"]
                start = 1
            elif res.kind == "classcall" or callee.is_classmethod:
                out[positional[0]] = []
                start = 1
            # unboundcall: explicit self is the first positional actual
        i = start
        extra: list = []
        for arg in call.args:
            if isinstance(arg, ast.Starred):
                for p in positional[i:]:
                    out[p].append(arg.value)
                extra.append(arg.value)
                continue
            if i < len(positional):
                out[positional[i]].append(arg)
                i += 1
            else:
                extra.append(arg)
        for kw in call.keywords:
            if kw.arg is None:
                for p in params:
                    out[p].append(kw.value)
                extra.append(kw.value)
            elif kw.arg in out:
                out[kw.arg].append(kw.value)
            else:
                extra.append(kw.value)
        if a.vararg:
            out[a.vararg.arg] = extra
        if a.kwarg:
            out.setdefault(a.kwarg.arg, []).extend(extra)
        return out

    def call_spec(self, call: ast.Call, callee: FuncInfo, res: CallRes, spec: Spec) -> Spec:
        binding = self.bind_args(call, callee, res)
        env = self.ts.env(callee)
        out = set()
        for p, actuals in binding.items():
            if p in env.assigned_params:
                continue
            if len(actuals) == 1 and isinstance(actuals[0], ast.AST):
                c = self.const_of(actuals[0], spec)
                if c is not None:
                    out.add((p, c))
            elif not actuals and p in env.param_default:
                d = env.param_default[p]
                if isinstance(d, ast.Constant) and isinstance(d.value, bool):
                    out.add((p, d.value))
        return frozenset(out)

    def _actual_refs(self, actuals: list, f: FuncInfo, spec: Spec) -> Optional[set]:
        out: set = set()
        for a in actuals:
            if isinstance(a, str):
                if a == "FRESH":
                    continue
                return None  # UNKNOWN
            out |= self.refs(a, f, spec)
        return out

    def _subst(self, ref: Ref, binding: dict, callee: FuncInfo, f: FuncInfo, spec: Spec,
               for_write: bool) -> set:
        root, path, cont = ref
        if root.startswith("GLOBAL:") or root == "?":
            return {ref}
        if root not in binding:
            return set()
        actuals = binding[root]
        env = self.ts.env(callee)
        if not actuals:
            d = env.param_default.get(root)
            if d is None or isinstance(d, ast.Constant):
                return set()
            return {(f"GLOBAL:default:{callee.qname}.{root}", path, cont)}
        ar = self._actual_refs(actuals, f, spec)
        if ar is None:
            return {("?", path, cont)}
        out = set()
        for r2, p2, c2 in ar:
            if not c2:
                out.add((r2, p2 + path, cont))
            else:
                if for_write:
                    if len(path) <= 1:
                        continue  # the fresh container itself is written
                    out.add((r2, p2 + path[1:], cont))
                else:
                    if not path:
                        out.add((r2, p2, True))
                    else:
                        out.add((r2, p2 + path[1:], cont))
        return out

    def _ext_kind(self, res: CallRes) -> str:
        n = res.ext_name or ""
        if res.ext_recv is None:
            if n in MUTATE_ARG0_FUNCS:
                return "mutate0"
            if n in ALIAS_FUNCS:
                return "alias"
            if n in PURE_FUNCS or n.startswith(PURE_PREFIXES) or n in ("UInt12",):
                return "pure"
            return "unknown"
        # method on an external / unknown receiver
        if n in MUTATING_METHODS:
            return "mutate_recv"
        if n in ALIAS_METHODS:
            return "alias_recv"
        if n in PURE_METHODS:
            return "pure"
        if res.by_name:
            return "pure"  # package methods of that name are analysed; no external semantics known
        if res.ext_recv.startswith("super:"):
            return "pure" if n.startswith("__") and n not in MUTATING_METHODS else "unknown"
        if res.ext_recv in ("str", "int", "bool", "float", "NoneType", "bytes") or \
                res.ext_recv.startswith("fixedint") or res.ext_recv in ("UInt12", "num"):
            return "pure"
        return "unknown"

    def _call_refs(self, call: ast.Call, f: FuncInfo, spec: Spec) -> set:
        res = self.ts.resolve_call(call, f)
        out: set = set()
        if res.kind == "ctor":
            arg_refs: set = set()
            for a in list(call.args) + [k.value for k in call.keywords]:
                arg_refs |= self.refs(a.value if isinstance(a, ast.Starred) else a, f, spec)
            for c in res.classes:
                init = self.model.lookup(c, "__init__")
                if init is None:
                    out |= self._wrap(arg_refs)  # dataclass / external base: fields alias args
                    continue
                cs = self.call_spec(call, init, res, spec)
                s = self.summary(init, cs)
                binding = self.bind_args(call, init, res)
                for ref in s.self_fields:
                    out |= self._wrap(self._subst(ref, binding, init, f, spec, False))
                if self.model.external_bases(c) - {"abc.ABC", "ABC", "typing.Generic", "Generic", "object"}:
                    out |= self._wrap(arg_refs)
            return out
        if res.kind in ("func", "method", "classcall", "unboundcall", "super", "indirect"):
            for t in res.targets:
                cs = self.call_spec(call, t, res, spec)
                s = self.summary(t, cs)
                binding = self.bind_args(call, t, res)
                for ref in s.rets:
                    out |= self._subst(ref, binding, t, f, spec, False)
            if not res.mixed:
                return out
        if res.kind == "ext" or res.mixed:
            k = self._ext_kind(res)
            if k == "alias":
                for a in list(call.args) + [kw.value for kw in call.keywords]:
                    rs = self.refs(a.value if isinstance(a, ast.Starred) else a, f, spec)
                    if (res.ext_name or "") in ("vars", "getattr"):
                        out |= {(r, p + ("*",), False) for r, p, c in rs}
                    else:
                        out |= self._flat(rs)
            elif k == "alias_recv" and res.recv is not None:
                out |= self._elem(self.refs(res.recv, f, spec))
            elif k == "unknown":
                if res.recv is not None:
                    out |= self._flat(self.refs(res.recv, f, spec))
                for a in call.args:
                    out |= self._flat(self.refs(a, f, spec))
            return out
        return out

    # -------------------------------------------------------- node effects
    def node_effects(self, node: ast.AST, f: FuncInfo, spec: Spec, summ: Optional[Summary] = None) -> Summary:
        """Effects of evaluating one simple statement / header expression."""
        s = summ if summ is not None else Summary()
        here = f.qname
        m = f.module

        def add_write(root: str, path: tuple, n: ast.AST, chain: tuple = (), where: str = here,
                      origin: Optional[str] = None, text: Optional[str] = None) -> None:
            w = Write(root, _trunc(path), origin or f.loc(n), text or _norm(m.seg(n) or ast.unparse(n)),
                      where, chain)
            old = s.writes.get(w.key)
            if old is None or len(old.chain) > len(chain):
                s.writes[w.key] = w

        def store(target: ast.AST, st: ast.AST, value: Optional[ast.AST]) -> None:
            if isinstance(target, (ast.Tuple, ast.List)):
                for t in target.elts:
                    store(t.value if isinstance(t, ast.Starred) else t, st, None)
                return
            if isinstance(target, ast.Name):
                env = self.ts.env(f)
                if target.id in env.globals_declared:
                    add_write(f"GLOBAL:{m.name}.{target.id}", (), st)
                elif isinstance(st, ast.AugAssign):
                    t = self.ts.type_of(target, f)
                    if not is_immutable(t) and any(a[0] in ("list", "dict", "cls") for a in t):
                        for r, p, c in self.refs(target, f, spec):
                            if not c:
                                add_write(r, p + ("<iadd>",), st)
                return
            if isinstance(target, (ast.Attribute, ast.Subscript)):
                leaf = target.attr if isinstance(target, ast.Attribute) else "[]"
                for r, p, c in self.refs(target.value, f, spec):
                    if c:
                        continue
                    add_write(r, p + (leaf,), st)
                # self-field bookkeeping for constructors
                if f.name in ("__init__", "__post_init__") and f.params and value is not None:
                    base = target
                    while isinstance(base, (ast.Attribute, ast.Subscript)):
                        base = base.value
                    if isinstance(base, ast.Name) and base.id == f.params[0]:
                        s.self_fields |= self.refs(value, f, spec)

        if isinstance(node, ast.Assign):
            for t in node.targets:
                store(t, node, node.value)
        elif isinstance(node, ast.AnnAssign):
            if node.value is not None:
                store(node.target, node, node.value)
        elif isinstance(node, ast.AugAssign):
            store(node.target, node, node.value)
        elif isinstance(node, ast.Delete):
            for t in node.targets:
                store(t, node, None)
        elif isinstance(node, (ast.For, ast.AsyncFor)):
            store(node.target, node, None)
        elif isinstance(node, ast.Return) and node.value is not None:
            s.rets |= self.refs(node.value, f, spec)

        roots = self.header_exprs(node) if isinstance(node, ast.stmt) else [node]
        for root in roots:
            for call in self.live_calls(root, spec):
                self._call_effects(call, f, spec, s, add_write)
            for n in ast.walk(root):
                if isinstance(n, ast.NamedExpr):
                    pass
        return s

    def _call_effects(self, call: ast.Call, f: FuncInfo, spec: Spec, s: Summary, add_write) -> None:
        res = self.ts.resolve_call(call, f)
        loc = f.loc(call)
        text = _norm(f.module.seg(call) or ast.unparse(call))
        if res.kind == "unresolved":
            s.unresolved[(loc, text)] = ()
            return
        if res.kind in ("ctor", "func", "method", "classcall", "unboundcall", "super", "indirect"):
            for t in sorted(res.targets, key=lambda x: x.qname):
                cs = self.call_spec(call, t, res, spec)
                cs = self._clean_spec(t, cs)
                cal = self.summary(t, cs)
                s.callees.add((t, cs))
                binding = self.bind_args(call, t, res)
                hop = f"{f.qname} -> {t.qname} @ {loc}"
                for w in cal.writes.values():
                    for r, p, c in self._subst((w.root, w.path, False), binding, t, f, spec, True):
                        add_write(r, p, call, (hop,) + w.chain, w.where, w.origin, w.text)
                for (o, tx), ch in cal.unresolved.items():
                    s.unresolved.setdefault((o, tx), (hop,) + ch)
            if not res.mixed:
                return
        if res.kind == "ext" or res.mixed:
            k = self._ext_kind(res)
            if k == "mutate_recv" and res.recv is not None:
                for r, p, c in self.refs(res.recv, f, spec):
                    if not c:
                        add_write(r, p + (f"<{res.ext_name}>",), call)
            elif k == "mutate0" and call.args:
                for r, p, c in self.refs(call.args[0], f, spec):
                    if not c:
                        add_write(r, p + (f"<{res.ext_name}>",), call)
            elif k == "unknown":
                # an external callee we have no entry for: fail closed, but only when some
                # argument or the receiver can reach pre-existing state
                reach: set = set()
                if res.recv is not None:
                    reach |= self.refs(res.recv, f, spec)
                for a in list(call.args) + [kw.value for kw in call.keywords]:
                    reach |= self.refs(a.value if isinstance(a, ast.Starred) else a, f, spec)
                if reach:
                    s.unresolved[(loc, text)] = ()

    def _compute(self, f: FuncInfo, spec: Spec) -> Summary:
        s = Summary()
        for st in self.live_stmts(f.node.body, spec):
            self.node_effects(st, f, spec, s)
        # dunder dispatch through str()/repr()/int()/f-strings on package-typed values
        self._dunder_effects(f, spec, s)
        return s

    def _dunder_effects(self, f: FuncInfo, spec: Spec, s: Summary) -> None:
        for st in self.live_stmts(f.node.body, spec):
            for root in self.header_exprs(st):
                for n in ast.walk(root):
                    targets: set = set()
                    recv = None
                    if isinstance(n, ast.Call) and isinstance(n.func, ast.Name) and n.func.id in ("str", "repr", "int", "format", "bool", "len") and len(n.args) >= 1 \
                            and not self.ts.env(f).is_local(n.func.id):
                        recv = n.args[0]
                        names = {"str": ("__str__", "__repr__"), "repr": ("__repr__",), "int": ("__int__",),
                                 "format": ("__format__", "__str__", "__repr__"), "bool": ("__bool__", "__len__"),
                                 "len": ("__len__",)}[n.func.id]
                    elif isinstance(n, ast.FormattedValue):
                        recv = n.value
                        names = ("__format__", "__str__", "__repr__")
                    else:
                        continue
                    for c in classes_of(self.ts.type_of(recv, f)):
                        for nm in names:
                            d = self.model.dispatch(c, nm)
                            if d:
                                targets |= d
                                break
                    for t in sorted(targets, key=lambda x: x.qname):
                        cal = self.summary(t, frozenset())
                        s.callees.add((t, frozenset()))
                        hop = f"{f.qname} -> {t.qname} @ {f.loc(n)}"
                        binding = {t.params[0]: [recv]} if t.params else {}
                        for w in cal.writes.values():
                            for r, p, c in self._subst((w.root, w.path, False), binding, t, f, spec, True):
                                ww = Write(r, _trunc(p), w.origin, w.text, w.where, (hop,) + w.chain)
                                if ww.key not in s.writes:
                                    s.writes[ww.key] = ww
                        for (o, tx), ch in cal.unresolved.items():
                            s.unresolved.setdefault((o, tx), (hop,) + ch)
