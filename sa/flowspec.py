"""Compare a function with a reference formulation, modulo `sa.symflow`'s normal form.

The reference is a few lines of Python kept in the rule (the confirmed reading of today's code,
written in the plainest form).  Both sides are reduced to

    returns : {(path condition, value)}                      -- a set
    effects : [(kind, effect, path condition)] in order      -- compared as a multiset, plus
              explicit "A before B" constraints where the order matters

and printed canonically, so renaming locals, introducing temporaries, early returns versus
if/else, conditional expressions versus if statements, flipped tests, keyword versus positional
arguments and extracted same-object helpers (`sa.inline`) do not change the outcome.
"""
from __future__ import annotations

import ast
import re
from collections import Counter
from typing import Callable, Iterable, Optional

from .inline import inline_view
from .model import FuncInfo, Model
from .report import Rule
from .symflow import Flow, flow_of


def _ref_func(model: Model, src: str, like: FuncInfo) -> FuncInfo:
    tree = ast.parse(src)
    node = tree.body[0]
    assert isinstance(node, ast.FunctionDef)
    ref = FuncInfo(node.name, like.qname + "<reference>", node, like.module, like.cls)
    from .idioms import canonicalise  # the same idiom canonicalisation the model applies to the tree
    canonicalise(model, ref)
    return ref


def _tiny_own_method(f: FuncInfo) -> Callable[[FuncInfo], bool]:
    """Methods of f's own class that are one or two plain assignments (`reset(): self.x = {}`): calling one and writing its
    body out are the same thing, so both sides of a comparison see the body."""
    def want(h: FuncInfo) -> bool:
        if h.cls is None or f.cls is None or h.cls is not f.cls or h is f or h.name.startswith("__"):
            return False
        body = [s for s in h.node.body if not (isinstance(s, ast.Expr) and isinstance(s.value, ast.Constant))]
        return 1 <= len(body) <= 2 and all(isinstance(s, ast.Assign) and not any(isinstance(x, ast.Call) for x in ast.walk(s)) for s in body) \
            and len(h.params) == 1
    want.cache_key = "tiny-own"  # type: ignore[attr-defined]
    return want


def _loops(f: FuncInfo) -> FuncInfo:
    """f with its loop idioms rewritten (sa.loopnorm): appending loops are comprehensions, search loops quantifiers, ..."""
    from .loopnorm import normalise_loops
    return FuncInfo(f.name, f.qname, normalise_loops(f.node), f.module, f.cls)


def _cond_ast(c) -> ast.AST:
    parts = [e if pol else ast.UnaryOp(op=ast.Not(), operand=e) for e, pol in c]
    if not parts:
        return ast.Constant(value=True)
    return parts[0] if len(parts) == 1 else ast.BoolOp(op=ast.And(), values=parts)


def merged_result(fl: Flow) -> list[ast.AST]:
    """All returns folded into one conditional expression (per tuple element when every return is a
    tuple of the same arity): `if c: return a` / `return b`  ==  `return a if c else b`."""
    rets = [r for r in fl.returns]
    if not rets:
        return []
    vals = [r.value if r.value is not None else ast.Constant(value=None) for r in rets]
    arity = {len(v.elts) if isinstance(v, ast.Tuple) else -1 for v in vals}
    if len(arity) == 1 and -1 not in arity:
        cols = [[v.elts[i] for v in vals] for i in range(arity.pop())]  # type: ignore[attr-defined]
    else:
        cols = [vals]
    out = []
    for col in cols:
        e: ast.AST = col[-1]
        for r, v in zip(reversed(rets[:-1]), reversed(col[:-1])):
            e = ast.IfExp(test=_cond_ast(r.cond), body=v, orelse=e)
        out.append(e)
    return out


def table(fl: Flow, keep: Optional[Callable[[str, str], bool]] = None):
    # the returns partition the paths, so the nesting order of the merged conditional does not matter
    # once it is printed as a decision table
    total = fl.cprinter.show_cond(()) if not fl.returns else None
    # what is returned is printed under "something is returned at all": where every path raises instead, the folded conditional has
    # no meaning (which arm was written last decides it), so those combinations are don't-cares
    pr0 = fl.cprinter
    if fl.returns and all(r.cond for r in fl.returns):
        pr0.assume = pr0._mk("or", [pr0._bool(_cond_ast(r.cond)) for r in fl.returns])
        if pr0.assume == ("const", True):
            pr0.assume = None
    try:
        rets = [fl.canon(e) for e in merged_result(fl)]
    finally:
        pr0.assume = None
    effs = []
    merged = _merge_exclusive_stores(fl)
    for e, expr, cond in merged:
        if not getattr(expr, "_merged_arms", False):
            expr = _propagate_equalities(expr, cond)
        if cond:
            # later conjuncts of a path condition are evaluated under the earlier ones
            if any(isinstance(n, ast.IfExp) for t, _p in cond for n in ast.walk(t)):
                nc: list = []
                for t, pol in cond:
                    nc.append((resolve_under(fl, t, _cond_ast(nc)) if nc else t, pol))
                cond = tuple(nc)
            expr = resolve_under(fl, expr, _cond_ast(cond))
        # a value is printed under the condition of its effect: what it would be on paths where the effect does not happen is nobody's business
        pr_ = fl.cprinter
        pr_.assume = pr_._bool(_cond_ast(cond)) if cond else None
        try:
            s = fl.canon(expr)
        finally:
            pr_.assume = None
        if keep is not None and not keep(e.kind, s):
            continue
        cc = fl.canon_cond(cond)
        if cc == "FALSE":
            continue  # dead: the path condition is contradictory (a helper's `if arg is None` arm inlined with a constructor call)
        fl.__dict__.setdefault("_cbools", {})[id(e)] = pr_._bool(_cond_ast(cond)) if cond else ("const", True)
        effs.append((e.kind, s, cc, e))
    return rets, effs


def signature(model: Model, f: FuncInfo, ref_src: Optional[str] = None, want_inline=None) -> tuple:
    """(returns, effects in program order) of f -- or of the reference source `ref_src` read in f's place -- as canonical text."""
    if ref_src is not None:
        fl = flow_of(_loops(_ref_func(model, ref_src, f)), model)
    else:
        fl = flow_of(_loops(inline_view(model, f, want_inline) if want_inline is not None else f), model)
    rets, effs = table(fl)
    return tuple(rets), tuple((k, s_, c) for k, s_, c, _ in effs)


def _is_elem(x: ast.AST) -> bool:
    while isinstance(x, ast.Subscript) and isinstance(x.slice, ast.Constant):
        x = x.value
    return isinstance(x, ast.Call) and isinstance(x.func, ast.Name) and x.func.id.startswith("ELEM")


def _propagate_equalities(expr: ast.AST, cond) -> ast.AST:
    """Under a path condition `elem == X` (elem: the element a loop is looking at) the element *is* X:
    `regs[index - 1]` under `index == stalled + 1` is `regs[stalled]`.  Substituted before printing, the printer's
    linear simplification does the rest."""
    import copy
    subs = []
    def terms(x: ast.AST, sign: int, out: list) -> None:
        if isinstance(x, ast.BinOp) and isinstance(x.op, ast.Add):
            terms(x.left, sign, out)
            terms(x.right, sign, out)
        elif isinstance(x, ast.BinOp) and isinstance(x.op, ast.Sub):
            terms(x.left, sign, out)
            terms(x.right, -sign, out)
        elif isinstance(x, ast.UnaryOp) and isinstance(x.op, ast.USub):
            terms(x.operand, -sign, out)
        else:
            out.append((sign, x))

    flat: list = []

    def flatten(t: ast.AST, pol: bool) -> None:
        while isinstance(t, ast.UnaryOp) and isinstance(t.op, ast.Not):
            t, pol = t.operand, not pol
        if isinstance(t, ast.BoolOp) and isinstance(t.op, ast.And) and pol:
            for v in t.values:
                flatten(v, True)
        elif isinstance(t, ast.BoolOp) and isinstance(t.op, ast.Or) and not pol:
            for v in t.values:
                flatten(v, False)
        elif isinstance(t, ast.Compare) and len(t.ops) == 1 and isinstance(t.ops[0], ast.NotEq) and not pol:
            flat.append((ast.Compare(left=t.left, ops=[ast.Eq()], comparators=t.comparators), True))
        else:
            flat.append((t, pol))

    for test, pol in cond:
        flatten(test, pol)
    for test, pol in flat:
        if pol and isinstance(test, ast.Compare) and len(test.ops) == 1 and isinstance(test.ops[0], ast.Eq):
            l, r = test.left, test.comparators[0]
            if _is_elem(l) and not any(_is_elem(x) and ast.dump(x) == ast.dump(l) for x in ast.walk(r)):
                subs.append((ast.dump(l), r))
            elif _is_elem(r) and not any(_is_elem(x) and ast.dump(x) == ast.dump(r) for x in ast.walk(l)):
                subs.append((ast.dump(r), l))
            else:
                # a linear equation with the element as one additive term:  elem - 1 == X   ->   elem = X + 1
                ts: list = []
                terms(l, 1, ts)
                terms(r, -1, ts)
                el = [(sg, x) for sg, x in ts if _is_elem(x)]
                if len(el) == 1 and len(ts) > 1:
                    sg0, e0 = el[0]
                    rest = [(sg, x) for sg, x in ts if x is not e0]
                    if not any(_is_elem(y) and ast.dump(y) == ast.dump(e0) for _sg, x in rest for y in ast.walk(x)):
                        # sg0*e0 + sum(rest) = 0   ->   e0 = -sg0 * sum(rest)
                        val: Optional[ast.AST] = None
                        for sg, x in sorted(rest, key=lambda t: -t[0] * -sg0):
                            eff = -sg0 * sg
                            if val is None:
                                val = x if eff > 0 else ast.UnaryOp(op=ast.USub(), operand=x)
                            else:
                                val = ast.BinOp(left=val, op=ast.Add() if eff > 0 else ast.Sub(), right=x)
                        if val is not None:
                            subs.append((ast.dump(e0), val))
    if not subs:
        return expr

    class T(ast.NodeTransformer):
        def visit_Call(self, n: ast.Call):
            d = ast.dump(n)
            for k, v in subs:
                if d == k:
                    return copy.deepcopy(v)
            return self.generic_visit(n)

        def visit_Subscript(self, n: ast.Subscript):
            d = ast.dump(n)
            for k, v in subs:
                if d == k:
                    return copy.deepcopy(v)
            return self.generic_visit(n)

    return T().visit(copy.deepcopy(expr))


def resolve_under(fl: Flow, expr: ast.AST, cond_ast: Optional[ast.AST]) -> ast.AST:
    """A conditional value inside an effect whose test the effect's own path condition decides is the arm that condition selects:
    `write(b if miss else c)` under `miss` is `write(b)`.  (Decided on truth tables, so the test may be spelled differently.)"""
    if cond_ast is None or not any(isinstance(n, ast.IfExp) for n in ast.walk(expr)):
        return expr
    return fl.cprinter.resolve_under(expr, fl.cprinter._bool(cond_ast))


def _merge_exclusive_stores(fl: Flow):
    """`if c: x.a = A else: x.a = B`  ==  `x.a = A if c else B`: stores to one target under pairwise exclusive
    conditions are one store of a conditional value under the disjunction of the conditions.
    -> [(Eff, expression, condition)] in program order (a merged store sits where its first part was)."""
    pr = fl.cprinter
    out: list = []
    by_target: dict = {}
    for e in fl.effects:
        if e.kind == "store" and isinstance(e.expr, ast.Assign):
            by_target.setdefault(pr.show(e.expr.targets[0]), []).append(e)
    done: set = set()
    for e in fl.effects:
        if id(e) in done:
            continue
        if not (e.kind == "store" and isinstance(e.expr, ast.Assign)):
            out.append((e, e.expr, e.cond))
            continue
        group = [x for x in by_target[pr.show(e.expr.targets[0])] if id(x) not in done]
        if len(group) > 1:
            bs = [pr._mk("and", [pr._bool(t, pol) for t, pol in x.cond]) if x.cond else ("const", True) for x in group]
            excl = True
            for i in range(len(bs)):
                for j in range(i + 1, len(bs)):
                    t = pr._tables([pr._mk("and", [bs[i], bs[j]])])
                    if t is None or t[1][0] != 0:
                        excl = False
            if excl:
                # one store of a conditional value under the disjunction of the conditions.  Every arm is selected by its *full*
                # path condition (so the print does not depend on how the tests were nested), equalities of a path are
                # propagated into its own arm, and the default arm is chosen by the print of its value, not by position.
                common = []
                for parts in zip(*[x.cond for x in group]):
                    if all(ast.dump(p[0]) == ast.dump(parts[0][0]) and p[1] == parts[0][1] for p in parts):
                        common.append(parts[0])
                    else:
                        break
                arms = []
                for x in group:
                    v = _propagate_equalities(x.expr.value, x.cond)
                    if x.cond:
                        v = resolve_under(fl, v, _cond_ast(x.cond))
                    arms.append((pr.show(v), v, x))
                arms.sort(key=lambda t: t[0])
                val: ast.AST = arms[-1][1]
                for _txt, v, x in reversed(arms[:-1]):
                    val = ast.IfExp(test=_cond_ast(x.cond), body=v, orelse=val)
                disj_all = pr._mk("or", bs)
                cm = pr._mk("and", [pr._bool(t, pol) for t, pol in common]) if common else ("const", True)
                t = pr._tables([disj_all, cm])
                if t is not None and t[1][0] == t[1][1]:
                    cond_m = tuple(common)
                else:
                    rest = [_cond_ast(x.cond[len(common):]) for x in group]
                    cond_m = tuple(common) + ((ast.BoolOp(op=ast.Or(), values=rest), True),)
                # the default arm must not be described outside the condition under which the store happens at all
                d_ast = ast.BoolOp(op=ast.Or(), values=[_cond_ast(x.cond) for x in group]) if len(group) > 1 else _cond_ast(group[0].cond)
                val = ast.IfExp(test=d_ast, body=val, orelse=ast.Name(id="NO_STORE", ctx=ast.Load()))
                new_e = ast.Assign(targets=e.expr.targets, value=val)
                new_e._merged_arms = True  # type: ignore[attr-defined]
                out.append((e, new_e, cond_m))
                for x in group:
                    done.add(id(x))
                continue
        out.append((e, e.expr, e.cond))
        done.add(id(e))
    return out


def compare(rule: Rule, model: Model, f: FuncInfo, ref_src: str, key: str, *,
            keep: Optional[Callable[[str, str], bool]] = None,
            before: Iterable[tuple[str, str]] = (),
            returns: bool = True,
            want_inline: Optional[Callable[[FuncInfo], bool]] = None,
            what: str = "") -> bool:
    """One rule instance per aspect: `<key>|returns`, `<key>|effects`, `<key>|order`."""
    if want_inline is None:
        want_inline = _tiny_own_method(f)
    g = inline_view(model, f, want_inline)
    fl = flow_of(_loops(g), model)
    rf = flow_of(_loops(inline_view(model, _ref_func(model, ref_src, f), want_inline)), model)
    got_r, got_e = table(fl, keep)
    ref_r, ref_e = table(rf, keep)
    ok_all = True
    if returns:
        ok = got_r == ref_r
        ok_all &= ok
        msg = ""
        if not ok:
            msg = f"{key}: {what + ': ' if what else ''}what is returned differs from the reference -- returns " + \
                ", ".join(f"`{_clip(fl.show(e))}`" for e in merged_result(fl)) + "; the reference returns " + \
                ", ".join(f"`{_clip(rf.show(e))}`" for e in merged_result(rf))
        rule.check(ok, f"{key}|returns", f.loc(), msg)
    gm = Counter((k, s, c) for k, s, c, _ in got_e)
    rm = Counter((k, s, c) for k, s, c, _ in ref_e)
    if gm != rm:
        # the same effect under conditions that print differently may still happen under the same condition: decide the leftovers by
        # a joint truth table of the two conditions (atom theory and linear arithmetic of sa.symflow / sa.ranges included)
        extra_c, missing_c = gm - rm, rm - gm
        gb, rb = fl.__dict__.get("_cbools", {}), rf.__dict__.get("_cbools", {})
        pr = fl.cprinter
        for (k, s, c), n_ in list(extra_c.items()):
            for _ in range(n_):
                cand = [(k2, s2, c2) for (k2, s2, c2), n2 in missing_c.items() if n2 > 0 and k2 == k and s2 == s]
                bg = next((gb.get(id(e)) for k3, s3, c3, e in got_e if (k3, s3, c3) == (k, s, c)), None)
                hit = None
                for (k2, s2, c2) in cand:
                    br = next((rb.get(id(e)) for k3, s3, c3, e in ref_e if (k3, s3, c3) == (k2, s2, c2)), None)
                    if bg is None or br is None:
                        continue
                    t = pr._tables([bg, br])
                    if t is not None and t[1][0] == t[1][1]:
                        hit = (k2, s2, c2)
                        break
                if hit is not None:
                    missing_c[hit] -= 1
                    gm[(k, s, c)] -= 1
                    rm[hit] -= 1
        gm, rm = +gm, +rm
        if gm != rm:
            # the same effect split over several branches on one side and written once on the other (`if a: f() elif b: .. else: f()`
            # vs. `if not a and b: .. ; f()`): per effect text, the leftover conditions of either side must be pairwise exclusive
            # (the effect happens at most once per run) and cover the same cases -- decided on one joint truth table
            extra_c, missing_c = gm - rm, rm - gm
            for (k, s) in sorted({(k, s) for (k, s, c) in extra_c} & {(k, s) for (k, s, c) in missing_c}):
                gk = [(k2, s2, c2) for (k2, s2, c2) in extra_c.elements() if (k2, s2) == (k, s)]
                rk = [(k2, s2, c2) for (k2, s2, c2) in missing_c.elements() if (k2, s2) == (k, s)]

                def bools(keys, effs_, memo):
                    out, used = [], set()
                    for key3 in keys:
                        e_ = next((e for k3, s3, c3, e in effs_ if (k3, s3, c3) == key3 and id(e) not in used), None)
                        if e_ is None or memo.get(id(e_)) is None:
                            return None
                        used.add(id(e_))
                        out.append(memo[id(e_)])
                    return out
                bg_, br_ = bools(gk, got_e, gb), bools(rk, ref_e, rb)
                if not bg_ or not br_:
                    continue
                t = pr._tables(bg_ + br_)
                if t is None:
                    continue
                tg, tr = t[1][:len(bg_)], t[1][len(bg_):]
                excl = all(a & b == 0 for grp in (tg, tr) for i_, a in enumerate(grp) for b in grp[i_ + 1:])
                ug = ur = 0
                for a in tg:
                    ug |= a
                for a in tr:
                    ur |= a
                if excl and ug == ur:
                    for key3 in gk:
                        gm[key3] -= 1
                    for key3 in rk:
                        rm[key3] -= 1
            gm, rm = +gm, +rm
    ok = gm == rm
    ok_all &= ok
    msg = ""
    loc = f.loc()
    if not ok:
        extra = list((gm - rm).elements())
        missing = list((rm - gm).elements())
        for k, s, c, e in got_e:
            if (k, s, c) in extra:
                loc = g.loc(e.node)
                break
        msg = f"{key}: {what + ': ' if what else ''}effects differ from the reference -- " + \
            "; ".join([f"unexpected `{_clip(s)}` when `{_clip(c)}`" for k, s, c in extra[:2]] +
                      [f"missing `{_clip(s)}` when `{_clip(c)}`" for k, s, c in missing[:2]])
    rule.check(ok, f"{key}|effects", loc, msg)
    for a, b in before:
        ra, rb = re.compile(a), re.compile(b)
        ia = [i for i, (k, s, c, _) in enumerate(got_e) if ra.search(s)]
        ib = [i for i, (k, s, c, _) in enumerate(got_e) if rb.search(s)]
        bad = [(i, j) for i in ia for j in ib if j < i and _compatible(got_e[i][2], got_e[j][2])]
        ok = bool(ia) and bool(ib) and not bad
        ok_all &= ok
        rule.check(ok, f"{key}|order:{a}<{b}", g.loc(got_e[bad[0][1]][3].node) if bad else f.loc(),
                   f"{key}: `{a}` must come before `{b}` on every path" + ("" if ia and ib else " (one of them is missing)"))
    return ok_all


def _compatible(c1: str, c2: str) -> bool:
    """Two path conditions can hold together unless one is literally the negation of the other."""
    return not (c1 == f"not({c2})" or c2 == f"not({c1})")


def _clip(s: str, n: int = 200) -> str:
    return s if len(s) <= n else s[:n - 3] + "..."


# ---------------------------------------------------------------------------------------------
# boolean functions


def truth_function(model: Model, f: FuncInfo, normalise: bool = True):
    """The truth value a function returns, as a boolean formula over its atoms:
    OR over its returns of (path condition AND returned value).  -> (Flow, formula)"""
    from .loopnorm import normalise_loops
    g = FuncInfo(f.name, f.qname, normalise_loops(f.node), f.module, f.cls) if normalise else f
    fl = flow_of(g, model)
    pr = fl.cprinter
    parts = []
    for r in fl.returns:
        cs = [pr._bool(e, pol) for e, pol in r.cond]
        v = pr._bool(r.value, True) if r.value is not None else ("const", False)
        parts.append(pr._mk("and", cs + [v]))
    return fl, pr._mk("or", parts) if parts else ("const", False)


def same_truth_function(model: Model, f: FuncInfo, spec_src: str, self_name: str = "self") -> tuple[bool, str]:
    """Does `f` return the truth value of `spec_src` (an expression over `self`)?  -> (ok, readable form of f)"""
    from .symflow import Printer, parse_expr
    fl, got = truth_function(model, f)
    sp = Printer(model, [self_name], {}, canonical=True)
    want = sp._bool(parse_expr(spec_src))
    t = sp._tables([got, want])
    shown = fl.printer._show_bool(got)
    return (t is not None and t[1][0] == t[1][1]), shown
