"""Dominance of effects by guards, composed through guard summaries.

For a method F and a required fact set (e.g. "self.is_done() is False"), every
path of F must establish the facts by tests *before its first effectful event*.
A call ``self.m()`` to a method that is itself guarded for the same facts (a
*self-guarded* callee, decided recursively) does not count as an effect of the
caller: that is what keeps the rule silent when a caller's redundant test is
removed and loud when a callee loses its own.
"""
from __future__ import annotations

import ast
from dataclasses import dataclass, field
from typing import Callable, Iterable, Optional

from .effects import Effects, Spec, Summary
from .model import FuncInfo
from .paths import Event, Path, event_exprs, function_paths


def norm_atom(e: ast.AST) -> tuple[str, bool]:
    """Normalise a boolean atom to (text, polarity): strips ``not``, turns != into ==,
    orders the operands of == so that ``1 == x`` and ``x == 1`` coincide."""
    pol = True
    while isinstance(e, ast.UnaryOp) and isinstance(e.op, ast.Not):
        e = e.operand
        pol = not pol
    if isinstance(e, ast.Compare) and len(e.ops) == 1:
        op = e.ops[0]
        l, r = ast.unparse(e.left), ast.unparse(e.comparators[0])
        if isinstance(op, (ast.Eq, ast.NotEq)):
            a, b = sorted([l, r])
            return f"{a} == {b}", pol if isinstance(op, ast.Eq) else not pol
        if isinstance(op, (ast.Is, ast.IsNot)):
            a, b = sorted([l, r])
            return f"{a} is {b}", pol if isinstance(op, ast.Is) else not pol
    return ast.unparse(e), pol


def facts_of(test: ast.AST, pol: bool) -> set[tuple[str, bool]]:
    """Facts implied by ``test`` evaluating to ``pol``."""
    while isinstance(test, ast.UnaryOp) and isinstance(test.op, ast.Not):
        test, pol = test.operand, not pol
    if isinstance(test, ast.BoolOp):
        if (isinstance(test.op, ast.And) and pol) or (isinstance(test.op, ast.Or) and not pol):
            out: set = set()
            for v in test.values:
                out |= facts_of(v, pol)
            return out
        return set()
    a, p = norm_atom(test)
    return {(a, p == pol)}


@dataclass
class GuardReport:
    ok: bool = True
    problems: list = field(default_factory=list)  # (node, msg, path-labels)
    paths: int = 0
    effect_events: int = 0
    guarded_callees: set = field(default_factory=set)


class GuardAnalysis:
    def __init__(self, eff: Effects, required: Callable[[FuncInfo, set], bool],
                 exempt_field: Callable[[tuple], bool] = lambda p: False,
                 describe: str = "guard") -> None:
        self.eff = eff
        self.required = required
        self.exempt = exempt_field
        self.describe = describe
        self._memo: dict[FuncInfo, GuardReport] = {}
        self._busy: set = set()

    def event_writes(self, e: Event, f: FuncInfo, spec: Spec) -> tuple[list, list]:
        """(writes, self-calls) of one event; self-calls = [(call, targets)] for
        calls ``self.m(...)`` on the function's own receiver."""
        s = Summary()
        selfcalls = []
        for x in event_exprs(e):
            self.eff.node_effects(x, f, spec, s)
            roots = self.eff.header_exprs(x) if isinstance(x, ast.stmt) else [x]
            for c in [c for h in roots for c in self.eff.live_calls(h, spec)]:
                if isinstance(c.func, ast.Attribute) and isinstance(c.func.value, ast.Name) and f.params \
                        and c.func.value.id == f.params[0]:
                    res = self.eff.ts.resolve_call(c, f)
                    if res.kind == "method" and res.targets:
                        selfcalls.append((c, res.targets))
        if e.kind == "loop" and e.pol and isinstance(e.node, (ast.For, ast.AsyncFor)):
            self.eff.node_effects(e.node, f, spec, s)
        ws = [w for w in s.writes.values() if not self.exempt(w.path)]
        return ws, selfcalls

    def analyse(self, f: FuncInfo, spec: Spec = frozenset()) -> GuardReport:
        if f in self._memo:
            return self._memo[f]
        if f in self._busy:
            return GuardReport(ok=False, problems=[(f.node, "recursive guard dependency", [])])
        self._busy.add(f)
        try:
            self.eff.solved(f, spec)
            rep = GuardReport()
            for p in function_paths(f.node):
                rep.paths += 1
                facts: set = set()
                loop_facts: list = []
                for i, e in enumerate(p.events):
                    if e.kind == "test":
                        facts |= facts_of(e.node, bool(e.pol))
                    elif e.kind == "loop" and isinstance(e.node, ast.While):
                        if e.pol:
                            fs = facts_of(e.node.test, True)
                            loop_facts.append(fs)
                            facts |= fs
                    elif e.kind == "loopend" and isinstance(e.node, ast.While):
                        if loop_facts:
                            facts -= loop_facts.pop()
                    ws, selfcalls = self.event_writes(e, f, spec)
                    if not ws:
                        continue
                    # writes that come only through self-guarded callees are not ours
                    guarded_targets: set = set()
                    for c, targets in selfcalls:
                        if all(self.analyse(t).ok for t in targets):
                            guarded_targets |= {t.qname for t in targets}
                    rep.guarded_callees |= guarded_targets
                    own = [w for w in ws if not (w.chain and any(
                        w.chain[0].startswith(f"{f.qname} -> {t} @") for t in guarded_targets))]
                    if not own:
                        continue
                    rep.effect_events += 1
                    if self.required(f, facts):
                        break  # first effect on this path is guarded; later ones need no guard
                    rep.ok = False
                    w = own[0]
                    rep.problems.append((e.node, f"effect not dominated by {self.describe}: {w.describe()}",
                                         p.labels()[: i + 1]))
                    break
            self._memo[f] = rep
            return rep
        finally:
            self._busy.discard(f)
