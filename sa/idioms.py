"""Model-level canonicalisation of idioms and small constant tables (applied to every function before any rule runs).

Idioms (each a textbook equivalence; the canonical side is the one the confirmed tree uses most):
  T = T op V                      ->  T op= V            (T a name / attribute / subscript chain, read once)
  not (a == b) / not (a in b) / not (a is b)   ->  a != b / a not in b / a is not b   (and the reverse spellings)
  dict()  list()  tuple()         ->  {}  []  ()
  getattr(x, "name")              ->  x.name
  sorted(d.items(), key=<first element>)       ->  sorted(d.items())     (dict keys are unique: ties cannot occur)
  x.__repr__() / x.__str__()      stay (the rules accept both)

Small constant tables (dict / tuple / list literals with constant keys and at most 16 entries, defined at module or
class level, or written inline):
  TABLE[k]  /  TABLE.get(k, d)    ->  (v1 if k == k1 else v2 if k == k2 else ... <d | KEY_ERROR>)
  k in TABLE                      ->  (k == k1 or k == k2 ...)
  a, b = TABLE[k]; REST           ->  if k == k1: REST[a:=.., b:=..] elif k == k2: ... else: raise KeyError(k)
                                      (statement level "de-tabulation": a table-driven block becomes the if/elif chain it
                                       abbreviates; with an enclosing `if k in TABLE: ... else: E` the chain ends in E)
  for x, y in TABLE: BODY         ->  BODY[x:=.., y:=..] for each row in order   (loops over a small constant sequence of
                                      tuples are unrolled; a `return`/`break` inside keeps first-match-wins semantics
                                      because the copies stay in order; `break`/`continue` disable the unrolling)

Tables of the confirmed tree that rules read as tables (instruction maps, micro-program, register names) are larger
than the bound or are not accessed through these shapes, so today's tree is left as it is.
"""
from __future__ import annotations

import ast
import copy
from typing import Optional

MAX_ROWS = 16


def _const_key(e: ast.AST) -> bool:
    return isinstance(e, ast.Constant) and isinstance(e.value, (int, str, bool)) or \
        (isinstance(e, ast.UnaryOp) and isinstance(e.op, ast.USub) and isinstance(e.operand, ast.Constant))


def _row_ok(v: ast.AST) -> bool:
    """Table values: constants, names, attribute chains, tuples of those (no calls: nothing is evaluated lazily)."""
    if isinstance(v, ast.Constant):
        return True
    if isinstance(v, ast.Name):
        return True
    if isinstance(v, ast.Attribute):
        return _row_ok(v.value)
    if isinstance(v, (ast.Tuple, ast.List)):
        return all(_row_ok(x) for x in v.elts)
    if isinstance(v, ast.UnaryOp) and isinstance(v.op, ast.USub):
        return _row_ok(v.operand)
    if isinstance(v, ast.Lambda):
        a = v.args
        return not (a.vararg or a.kwarg or a.kwonlyargs or a.defaults or a.posonlyargs) and len(ast.unparse(v)) < 200
    return False


def _load(e: ast.AST) -> ast.AST:
    e = copy.deepcopy(e)
    for n in ast.walk(e):
        if hasattr(n, "ctx"):
            n.ctx = ast.Load()  # type: ignore[attr-defined]
    return e


class Tables:
    """Resolution of table expressions to [(key node | None, value node)]."""

    def __init__(self, model, f) -> None:
        self.model, self.f = model, f

    def _nt_row(self, v: ast.AST) -> ast.AST:
        """`Row(ECALL, 0)` for a typing.NamedTuple class Row (positional constants only) is the tuple `(ECALL, 0)`; components that are
        arithmetic over named constants (`WORD_BYTES // 2`) are folded to their value."""
        if isinstance(v, ast.Call) and isinstance(v.func, ast.Name) and not v.keywords and not any(isinstance(a, ast.Starred) for a in v.args):
            c_ = self.model.resolve_name(self.f.module, v.func.id)
            spec = _namedtuple_fields(self.model)[0].get(getattr(c_, "qname", None)) if c_ is not None else None
            if spec is not None and len(v.args) == len(spec[0]):
                v = ast.copy_location(ast.Tuple(elts=list(v.args), ctx=ast.Load()), v)
                v._nt_fields = list(spec[0])  # type: ignore[attr-defined]
        def _is_named_scalar(x: ast.AST) -> bool:
            if isinstance(x, ast.Name):
                r_ = self.model.resolve_name(self.f.module, x.id)
                return isinstance(r_, tuple) and r_[0] == "assign" and _module_scalar(self.model, r_[1], r_[2]) is not None
            return False
        if isinstance(v, ast.Tuple) and (not all(_row_ok(x) for x in v.elts) or any(_is_named_scalar(x) for x in v.elts)):
            from .consteval import Folder
            elts = []
            for x in v.elts:
                if not _row_ok(x) or _is_named_scalar(x):
                    try:
                        val = Folder(self.model, self.f.module, None, None).fold(x)
                    except Exception:
                        val = None
                    if type(val) in (int, bool, str):
                        x = ast.copy_location(ast.Constant(value=val), x)
                elts.append(x)
            v2 = ast.copy_location(ast.Tuple(elts=elts, ctx=ast.Load()), v)
            if hasattr(v, "_nt_fields"):
                v2._nt_fields = v._nt_fields  # type: ignore[attr-defined]
            v = v2
        elif not _row_ok(v) and isinstance(v, (ast.BinOp, ast.UnaryOp)):
            from .consteval import Folder
            try:
                val = Folder(self.model, self.f.module, None, None).fold(v)
            except Exception:
                val = None
            if type(val) in (int, bool, str):
                v = ast.copy_location(ast.Constant(value=val), v)
        return v

    def rows(self, e: ast.AST, allow_dynamic_values: bool = False) -> Optional[list]:
        e0 = e
        if isinstance(e, ast.Attribute) and isinstance(e.value, ast.Name) and self.f.cls is not None:
            recv = e.value.id
            owner = None
            if self.f.params and recv == self.f.params[0] and not self.f.is_staticmethod:
                owner = self.f.cls
            else:
                k = self.model.resolve_name(self.f.module, recv)
                if hasattr(k, "methods"):
                    owner = k
            if owner is not None:
                got = self.model.lookup_assign(owner, e.attr)
                if got is None:
                    return None
                # an instance attribute of the same name assigned in a method would shadow the class table
                for c in self.model.mro(owner):
                    for m in c.methods.values():
                        for n in ast.walk(m.node):
                            if isinstance(n, ast.Attribute) and n.attr == e.attr and isinstance(n.ctx, ast.Store):
                                return None
                e = got[1]
        elif isinstance(e, ast.Name) and self._is_local(e.id):
            v = self._local_table(e.id)
            if v is None:
                return None
            e = v
            e0 = None  # values are evaluated where the table is built; reading them at the lookup instead is the accepted approximation
        elif isinstance(e, ast.Name):
            v = self.f.module.assigns.get(e.id)
            if v is None:
                return None
            # rebinding / mutation elsewhere in the module would make the literal unreliable: require a single binding
            n_bind = sum(1 for st in self.f.module.tree.body if isinstance(st, (ast.Assign, ast.AnnAssign))
                         for t in (st.targets if isinstance(st, ast.Assign) else [st.target]) if isinstance(t, ast.Name) and t.id == e.id)
            if n_bind != 1:
                return None
            e = v
        if isinstance(e, ast.Dict):
            if not e.keys or len(e.keys) > MAX_ROWS or any(k is None or not _const_key(k) for k in e.keys):
                return None
            vals = [self._nt_row(v) for v in e.values]
            if not allow_dynamic_values and not all(_row_ok(v) for v in vals):
                return None
            return list(zip(e.keys, vals))
        if isinstance(e, (ast.Tuple, ast.List)) and e is not e0:
            if not e.elts or len(e.elts) > MAX_ROWS or not all(_row_ok(v) for v in e.elts):
                return None
            return [(ast.Constant(value=i), v) for i, v in enumerate(e.elts)]
        return None

    def iter_rows(self, e: ast.AST) -> Optional[list]:
        """Rows a `for` loop over the expression visits, in order: a constant sequence, or .items()/.values()/.keys() of a
        module/class-level dict literal (keys may be class names here: they are only bound, not compared)."""
        which = None
        if isinstance(e, ast.Call) and isinstance(e.func, ast.Attribute) and e.func.attr in ("items", "values", "keys") and not e.args and not e.keywords:
            which, e = e.func.attr, e.func.value
        lit = None
        if isinstance(e, ast.Name) and not self._is_local(e.id):
            lit = self.f.module.assigns.get(e.id)
        elif isinstance(e, ast.Attribute) and isinstance(e.value, ast.Name) and self.f.cls is not None and self.f.params and e.value.id == self.f.params[0]:
            got = self.model.lookup_assign(self.f.cls, e.attr)
            lit = got[1] if got is not None else None
        if isinstance(lit, ast.Dict):
            if not lit.keys or len(lit.keys) > MAX_ROWS or any(k is None or not _row_ok(k) for k in lit.keys) or not all(_row_ok(v) for v in lit.values):
                return None
            if which == "items":
                return [(None, ast.Tuple(elts=[k, v], ctx=ast.Load())) for k, v in zip(lit.keys, lit.values)]
            if which == "values":
                return [(None, v) for v in lit.values]
            return [(None, k) for k in lit.keys]
        if which is None:
            rows = self.rows(e)
            return rows if isinstance(rows, list) else None
        return None

    def is_dict_table(self, e: ast.AST) -> bool:
        """A module- or class-level *dict* literal (a dispatch table), as opposed to a list of names used as a set."""
        if isinstance(e, ast.Name) and not self._is_local(e.id):
            return isinstance(self.f.module.assigns.get(e.id), ast.Dict)
        if isinstance(e, ast.Attribute) and isinstance(e.value, ast.Name) and self.f.cls is not None and self.f.params and e.value.id == self.f.params[0]:
            got = self.model.lookup_assign(self.f.cls, e.attr)
            return got is not None and isinstance(got[1], ast.Dict)
        return False

    def _local_table(self, name: str) -> Optional[ast.AST]:
        """The dict literal a local is bound to, when that is its only binding and the local is only read through
        `t[k]`, `t.get(k..)`, `k in t`."""
        node = self.f.node  # (after helper inlining: the table may be a helper's local)
        binds = [n for n in ast.walk(node) if isinstance(n, (ast.Assign, ast.AnnAssign))
                 and any(isinstance(t, ast.Name) and t.id == name for t in (n.targets if isinstance(n, ast.Assign) else [n.target]))]
        stores = [n for n in ast.walk(node) if isinstance(n, ast.Name) and n.id == name and isinstance(n.ctx, (ast.Store, ast.Del))]
        if len(binds) != 1 or len(stores) != 1 or not isinstance(binds[0].value, ast.Dict):
            return None
        parents = {}
        for n in ast.walk(node):
            for c in ast.iter_child_nodes(n):
                parents[id(c)] = n
        for n in ast.walk(node):
            if isinstance(n, ast.Name) and n.id == name and isinstance(n.ctx, ast.Load):
                p = parents.get(id(n))
                ok = (isinstance(p, ast.Subscript) and p.value is n and isinstance(p.ctx, ast.Load)) or \
                     (isinstance(p, ast.Attribute) and p.attr == "get") or \
                     (isinstance(p, ast.Compare) and n in p.comparators)
                if not ok:
                    return None
        return binds[0].value

    def _is_local(self, name: str) -> bool:
        if name in self.f.params:
            return True
        for n in ast.walk(self.f.node):
            if isinstance(n, ast.Name) and n.id == name and isinstance(n.ctx, (ast.Store, ast.Del)):
                return True
        return False


def _eq(k: ast.AST, key: ast.AST) -> ast.AST:
    return ast.Compare(left=copy.deepcopy(k), ops=[ast.Eq()], comparators=[copy.deepcopy(key)])


def _chain(k: ast.AST, rows: list, default: ast.AST) -> ast.AST:
    out = default
    for key, v in reversed(rows):
        out = ast.IfExp(test=_eq(k, key), body=copy.deepcopy(v), orelse=out)
    return out


def _simple_key(k: ast.AST) -> bool:
    """The key expression is evaluated once per comparison in the expansion: require it to be effect-free."""
    for n in ast.walk(k):
        if isinstance(n, ast.Call):
            if isinstance(n.func, ast.Attribute) and n.func.attr in ("get", "get_name", "lower", "upper", "strip") and not any(
                    isinstance(a, ast.Call) for a in n.args):
                continue
            if isinstance(n.func, ast.Name) and n.func.id in ("int", "str", "type", "len", "bool"):
                continue
            return False
        if isinstance(n, (ast.NamedExpr, ast.Await, ast.Yield, ast.YieldFrom, ast.Lambda)):
            return False
    return True


_BUILTIN_ATTRS = frozenset(a for t in (str, bytes, list, tuple, dict, set, frozenset, int) for a in dir(t) if not a.startswith("_"))


def _namedtuple_fields(model):
    """({class qname: ([field names], {field: default})}, {field name: index}) -- the second map only holds fields whose name is used
    for nothing else in the package (no other class attribute / annotation / method / stored attribute of that name) and that sit at
    the same index in every NamedTuple that has them."""
    memo = model.__dict__.get("_idioms_namedtuples")
    if memo is not None:
        return memo
    classes: dict = {}
    for c in model.classes.values():
        if not any(ast.unparse(b).split("[")[0].split(".")[-1] == "NamedTuple" for b in c.base_exprs):
            continue
        fields: list = []
        defaults: dict = {}
        for st in c.node.body:
            if isinstance(st, ast.AnnAssign) and isinstance(st.target, ast.Name):
                fields.append(st.target.id)
                if st.value is not None:
                    defaults[st.target.id] = st.value
        if fields:
            classes[c.qname] = (fields, defaults)
    by_name: dict = {}
    if classes:
        positions: dict = {}
        for q, (fields, _d) in classes.items():
            for i, nm in enumerate(fields):
                positions.setdefault(nm, set()).add(i)
        stored: set = set()
        for mod in model.modules.values():
            for n in ast.walk(mod.tree):
                if isinstance(n, ast.Attribute) and isinstance(n.ctx, (ast.Store, ast.Del)):
                    stored.add(n.attr)
        for nm, pos in positions.items():
            if len(pos) != 1 or nm in stored:
                continue
            clash = False
            for c in model.classes.values():
                if c.qname in classes:
                    continue
                if nm in c.methods or nm in c.assigns or nm in c.anns:
                    clash = True
                    break
            if not clash:
                by_name[nm] = next(iter(pos))
    memo = model.__dict__["_idioms_namedtuples"] = (classes, by_name)
    return memo


class _Expr(ast.NodeTransformer):
    """Expression-level idioms and table lookups."""

    def __init__(self, tables: Tables) -> None:
        self.t = tables
        self.changed = False

    def visit_UnaryOp(self, n: ast.UnaryOp):
        self.generic_visit(n)
        if isinstance(n.op, ast.Not) and isinstance(n.operand, ast.Compare) and len(n.operand.ops) == 1:
            flip = {ast.Eq: ast.NotEq, ast.NotEq: ast.Eq, ast.In: ast.NotIn, ast.NotIn: ast.In, ast.Is: ast.IsNot, ast.IsNot: ast.Is}.get(type(n.operand.ops[0]))
            if flip is not None:
                self.changed = True
                return ast.copy_location(ast.Compare(left=n.operand.left, ops=[flip()], comparators=n.operand.comparators), n)
        return n

    def visit_Compare(self, n: ast.Compare):
        self.generic_visit(n)
        if len(n.ops) == 1 and isinstance(n.ops[0], (ast.Is, ast.IsNot)) and isinstance(n.comparators[0], ast.Constant) and n.comparators[0].value is None \
                and isinstance(n.left, (ast.Lambda, ast.Constant, ast.Name)):
            nn = self._never_none_value(n.left)
            if nn is not None:
                self.changed = True
                return ast.copy_location(ast.Constant(value=(not nn) if isinstance(n.ops[0], ast.Is) else nn), n)
        ci = self._class_identity(n)
        if ci is not None:
            self.changed = True
            return ast.copy_location(ci, n)
        if len(n.ops) == 1 and isinstance(n.ops[0], (ast.In, ast.NotIn)) and _simple_key(n.left):
            # x in (a, b)  ->  x == a or x == b     (a literal tuple / list / set of plain operands, also through a local bound once)
            cont = n.comparators[0]
            if isinstance(cont, ast.Name) and self.t._is_local(cont.id):
                binds = [x for x in ast.walk(self.t.f.node) if isinstance(x, ast.Name) and x.id == cont.id and isinstance(x.ctx, ast.Store)]
                asg = [x for x in ast.walk(self.t.f.node) if isinstance(x, ast.Assign) and len(x.targets) == 1 and isinstance(x.targets[0], ast.Name)
                       and x.targets[0].id == cont.id]
                if len(binds) == 1 and len(asg) == 1 and isinstance(asg[0].value, (ast.Tuple, ast.List, ast.Set)):
                    elts_names = {y.id for e_ in asg[0].value.elts for y in ast.walk(e_) if isinstance(y, ast.Name)}
                    restored = [x for x in ast.walk(self.t.f.node) if isinstance(x, ast.Name) and x.id in elts_names and isinstance(x.ctx, ast.Store)]
                    # the operands must not be rebound after the tuple was built (single assignment of each is enough here)
                    if all(sum(1 for x in restored if x.id == nm) <= 1 for nm in elts_names):
                        cont = asg[0].value
            if isinstance(cont, (ast.Tuple, ast.List, ast.Set)) and 1 <= len(cont.elts) <= 6 \
                    and all(_simple_key(x) and not isinstance(x, ast.Starred) for x in cont.elts) \
                    and not all(isinstance(x, ast.Constant) for x in cont.elts):
                self.changed = True
                tests = [ast.Compare(left=copy.deepcopy(n.left), ops=[ast.Eq()], comparators=[copy.deepcopy(x)]) for x in cont.elts]
                e2: ast.AST = tests[0] if len(tests) == 1 else ast.BoolOp(op=ast.Or(), values=tests)
                if isinstance(n.ops[0], ast.NotIn):
                    e2 = ast.UnaryOp(op=ast.Not(), operand=e2)
                return ast.copy_location(e2, n)
            rows = self.t.rows(n.comparators[0], allow_dynamic_values=True)
            # only a table that the function also *indexes* is a dispatch table; a list used as a set of names is left alone
            tdump = ast.dump(n.comparators[0])
            indexed = any(isinstance(x, ast.Subscript) and ast.dump(_load(x.value)) == tdump for x in ast.walk(self.t.f.__dict__.get("raw_node", self.t.f.node))) or \
                any(isinstance(x, ast.Call) and isinstance(x.func, ast.Attribute) and x.func.attr == "get" and ast.dump(_load(x.func.value)) == tdump
                    for x in ast.walk(self.t.f.__dict__.get("raw_node", self.t.f.node)))
            is_dict = self.t.is_dict_table(n.comparators[0])
            if isinstance(rows, list) and isinstance(n.comparators[0], (ast.Name, ast.Attribute)) and (indexed or is_dict):
                self.changed = True
                tests = [_eq(n.left, k) for k, _ in rows]
                e: ast.AST = tests[0] if len(tests) == 1 else ast.BoolOp(op=ast.Or(), values=tests)
                if isinstance(n.ops[0], ast.NotIn):
                    e = ast.UnaryOp(op=ast.Not(), operand=e)
                return ast.copy_location(e, n)
        return n

    def visit_BinOp(self, n: ast.BinOp):
        self.generic_visit(n)
        # "0x" + f"{a:X}"  ->  f"0x{a:X}"      (string pieces written next to each other are one formatted string)
        if isinstance(n.op, ast.Add):
            def parts(x):
                if isinstance(x, ast.Constant) and isinstance(x.value, str):
                    return [x]
                if isinstance(x, ast.JoinedStr):
                    return list(x.values)
                return None
            a, b = parts(n.left), parts(n.right)
            if a is not None and b is not None and (isinstance(n.left, ast.JoinedStr) or isinstance(n.right, ast.JoinedStr)):
                vals: list = []
                for v in a + b:
                    if isinstance(v, ast.Constant) and vals and isinstance(vals[-1], ast.Constant):
                        vals[-1] = ast.Constant(value=vals[-1].value + v.value)
                    else:
                        vals.append(v)
                self.changed = True
                return ast.copy_location(ast.JoinedStr(values=vals), n)
            if a is not None and b is not None:
                self.changed = True
                return ast.copy_location(ast.Constant(value=n.left.value + n.right.value), n)
        return n

    def visit_ListComp(self, n: ast.ListComp):
        self.generic_visit(n)
        # [E(x) for x in (a, b, c)]  ->  [E(a), E(b), E(c)]
        if len(n.generators) == 1 and not n.generators[0].ifs and not n.generators[0].is_async \
                and isinstance(n.generators[0].iter, (ast.Tuple, ast.List)) and 0 < len(n.generators[0].iter.elts) <= MAX_ROWS \
                and all(_row_ok(v) for v in n.generators[0].iter.elts):
            binds = [_bind_row(n.generators[0].target, v) for v in n.generators[0].iter.elts]
            if all(b is not None for b in binds):
                self.changed = True
                elts = [self.visit(_SubNames(b).visit(copy.deepcopy(n.elt))) for b in binds]
                return ast.copy_location(ast.List(elts=elts, ctx=ast.Load()), n)
        return n

    def _never_none_value(self, e: ast.AST) -> Optional[bool]:
        """True: the expression is certainly not None (a lambda, a builtin / class / function name, a non-None constant);
        False: it is None; None: unknown."""
        if isinstance(e, ast.Lambda):
            return True
        if isinstance(e, ast.Constant):
            return e.value is not None
        if isinstance(e, ast.Name) and not self.t._is_local(e.id):
            import builtins
            if hasattr(builtins, e.id) and e.id not in ("None",):
                return True
            if self.t.model.resolve_class(self.t.f.module, e) is not None:
                return True
        return None

    def visit_IfExp(self, n: ast.IfExp):
        self.generic_visit(n)
        if isinstance(n.test, ast.Constant) and isinstance(n.test.value, bool):
            self.changed = True
            return n.body if n.test.value else n.orelse
        # D[K] if K in D else V   ->  D.get(K, V)
        t = n.test
        if isinstance(t, ast.Compare) and len(t.ops) == 1 and isinstance(t.ops[0], (ast.In, ast.NotIn)):
            hit, miss = (n.body, n.orelse) if isinstance(t.ops[0], ast.In) else (n.orelse, n.body)
            if isinstance(hit, ast.Subscript) and ast.dump(hit.value) == ast.dump(t.comparators[0]) and ast.dump(hit.slice) == ast.dump(t.left):
                self.changed = True
                return ast.copy_location(ast.Call(func=ast.Attribute(value=hit.value, attr="get", ctx=ast.Load()), args=[hit.slice, miss], keywords=[]), n)
        return n

    def _class_identity(self, n: ast.Compare):
        """A is B / A is not B / A == B for two names that denote classes of the package: a constant."""
        if len(n.ops) == 1 and isinstance(n.ops[0], (ast.Is, ast.IsNot, ast.Eq, ast.NotEq)) and isinstance(n.left, ast.Name) \
                and isinstance(n.comparators[0], ast.Name):
            a = self.t.model.resolve_class(self.t.f.module, n.left) if not self.t._is_local(n.left.id) else None
            b = self.t.model.resolve_class(self.t.f.module, n.comparators[0]) if not self.t._is_local(n.comparators[0].id) else None
            if a is not None and b is not None:
                same = a is b
                return ast.Constant(value=same if isinstance(n.ops[0], (ast.Is, ast.Eq)) else not same)
        return None

    def visit_Subscript(self, n: ast.Subscript):
        self.generic_visit(n)
        # X.partition(S)[0]  ->  X.split(S, 1)[0]      (the text in front of the first S, or all of it)
        if isinstance(n.ctx, ast.Load) and isinstance(n.slice, ast.Constant) and n.slice.value == 0 and isinstance(n.value, ast.Call) \
                and isinstance(n.value.func, ast.Attribute) and n.value.func.attr == "partition" and len(n.value.args) == 1 and not n.value.keywords:
            self.changed = True
            call = ast.Call(func=ast.Attribute(value=n.value.func.value, attr="split", ctx=ast.Load()), args=[n.value.args[0], ast.Constant(value=1)], keywords=[])
            return ast.copy_location(ast.Subscript(value=call, slice=ast.Constant(value=0), ctx=ast.Load()), n)
        if isinstance(n.ctx, ast.Load) and not isinstance(n.slice, ast.Slice) and _simple_key(n.slice):
            rows = self.t.rows(n.value)
            if isinstance(rows, list):
                self.changed = True
                dflt = ast.Call(func=ast.Name(id="KEY_ERROR", ctx=ast.Load()), args=[copy.deepcopy(n.slice)], keywords=[])
                return ast.copy_location(_chain(n.slice, rows, dflt), n)
        return n

    def visit_JoinedStr(self, n: ast.JoinedStr):
        self.generic_visit(n)
        # f"{f'x{i}'} .."  ->  f"x{i} .."   (a nested f-string / string constant interpolated without conversion or format spec -- what
        # an inlined text helper leaves behind -- is its own pieces)
        if any(isinstance(v, ast.FormattedValue) and v.conversion == -1 and v.format_spec is None and
               (isinstance(v.value, ast.JoinedStr) or (isinstance(v.value, ast.Constant) and isinstance(v.value.value, str))) for v in n.values):
            vals: list = []
            for v in n.values:
                if isinstance(v, ast.FormattedValue) and v.conversion == -1 and v.format_spec is None and isinstance(v.value, ast.JoinedStr):
                    vals.extend(v.value.values)
                elif isinstance(v, ast.FormattedValue) and v.conversion == -1 and v.format_spec is None and isinstance(v.value, ast.Constant) \
                        and isinstance(v.value.value, str):
                    vals.append(v.value)
                else:
                    vals.append(v)
            merged: list = []
            for v in vals:
                if merged and isinstance(v, ast.Constant) and isinstance(merged[-1], ast.Constant):
                    merged[-1] = ast.Constant(value=merged[-1].value + v.value)
                else:
                    merged.append(v)
            self.changed = True
            return ast.copy_location(ast.JoinedStr(values=merged), n)
        return n

    def visit_Attribute(self, n: ast.Attribute):
        self.generic_visit(n)
        # result.hit  ->  result[0]   for a field of a typing.NamedTuple whose name means nothing else in the package
        if isinstance(n.ctx, ast.Load):
            ix = _namedtuple_fields(self.t.model)[1].get(n.attr)
            if ix is not None and getattr(n, "_called_builtin_method", False):
                # `mnemonic.lower()` next to a NamedTuple field called `lower`: a field holds data and is read, the method of a
                # builtin type is called -- the call form is left alone
                ix = None
            if ix is not None:
                self.changed = True
                return ast.copy_location(ast.Subscript(value=n.value, slice=ast.Constant(value=ix), ctx=ast.Load()), n)
        return n

    def visit_Call(self, n: ast.Call):
        if isinstance(n.func, ast.Attribute) and n.func.attr in _BUILTIN_ATTRS:
            n.func._called_builtin_method = True
        self.generic_visit(n)
        if any(isinstance(a, ast.Starred) and isinstance(a.value, (ast.Tuple, ast.List)) and not any(isinstance(x, ast.Starred) for x in a.value.elts)
               for a in n.args):
            # f(*(a, b))  ->  f(a, b)
            args: list = []
            for a in n.args:
                if isinstance(a, ast.Starred) and isinstance(a.value, (ast.Tuple, ast.List)) and not any(isinstance(x, ast.Starred) for x in a.value.elts):
                    args.extend(a.value.elts)
                else:
                    args.append(a)
            n.args = args
            self.changed = True
        f = n.func
        # Pair(a, b) for a typing.NamedTuple class  ->  (a, b)    (a named tuple *is* the tuple; only its repr differs)
        fn_ = f.value if isinstance(f, ast.Subscript) else f
        if isinstance(fn_, ast.Name) and not self.t._is_local(fn_.id) and not any(isinstance(a, ast.Starred) for a in n.args) \
                and not any(k.arg is None for k in n.keywords):
            c_ = self.t.model.resolve_name(self.t.f.module, fn_.id)
            spec = _namedtuple_fields(self.t.model)[0].get(getattr(c_, "qname", None)) if c_ is not None else None
            if spec is not None:
                fields, defaults = spec
                vals: list = list(n.args)
                kw = {k.arg: k.value for k in n.keywords}
                ok = len(vals) <= len(fields) and all(k in fields[len(vals):] for k in kw)
                if ok:
                    for name in fields[len(vals):]:
                        if name in kw:
                            vals.append(kw[name])
                        elif name in defaults:
                            vals.append(copy.deepcopy(defaults[name]))
                        else:
                            ok = False
                            break
                if ok:
                    self.changed = True
                    return ast.copy_location(ast.Tuple(elts=vals, ctx=ast.Load()), n)
        # getattr(o, A if c else B)  ->  getattr(o, A) if c else getattr(o, B)      (o a plain operand; a name picked from a small table)
        if isinstance(f, ast.Name) and f.id == "getattr" and len(n.args) == 2 and not n.keywords and isinstance(n.args[1], ast.IfExp) \
                and isinstance(n.args[0], (ast.Name, ast.Attribute)) and not self.t._is_local("getattr"):
            def dist(e_: ast.AST, depth_: int = 0) -> ast.AST:
                if isinstance(e_, ast.IfExp) and depth_ < 12:
                    return ast.IfExp(test=e_.test, body=dist(e_.body, depth_ + 1), orelse=dist(e_.orelse, depth_ + 1))
                if isinstance(e_, ast.Constant) and e_.value is None:
                    return ast.Constant(value=None)  # (reached only where the caller has already excluded "no name")
                if isinstance(e_, ast.Constant) and isinstance(e_.value, str) and e_.value.isidentifier():
                    return ast.Attribute(value=copy.deepcopy(n.args[0]), attr=e_.value, ctx=ast.Load())
                return ast.Call(func=ast.Name(id="getattr", ctx=ast.Load()), args=[copy.deepcopy(n.args[0]), e_], keywords=[])
            self.changed = True
            return ast.copy_location(dist(n.args[1]), n)
        # format(x, SPEC)  ->  f"{x:SPEC}"     (SPEC a string constant or an f-string)
        if isinstance(f, ast.Name) and f.id == "format" and len(n.args) == 2 and not n.keywords and not self.t._is_local("format") \
                and (isinstance(n.args[1], ast.JoinedStr) or (isinstance(n.args[1], ast.Constant) and isinstance(n.args[1].value, str))):
            spec = n.args[1] if isinstance(n.args[1], ast.JoinedStr) else ast.JoinedStr(values=[n.args[1]])
            self.changed = True
            return ast.copy_location(ast.JoinedStr(values=[ast.FormattedValue(value=n.args[0], conversion=-1, format_spec=spec)]), n)
        # map(f, xs)  ->  (f(x) for x in xs)     (one iterable, a plain callee)
        if isinstance(f, ast.Name) and f.id == "map" and len(n.args) == 2 and not n.keywords and not self.t._is_local("map") \
                and isinstance(n.args[0], (ast.Name, ast.Attribute)):
            self.changed = True
            self._mapk = getattr(self, "_mapk", 0) + 1
            v = f"_mp{self._mapk}"
            return ast.copy_location(ast.GeneratorExp(
                elt=ast.Call(func=n.args[0], args=[ast.Name(id=v, ctx=ast.Load())], keywords=[]),
                generators=[ast.comprehension(target=ast.Name(id=v, ctx=ast.Store()), iter=n.args[1], ifs=[], is_async=0)]), n)
        # list(<generator expression>)  ->  the list comprehension
        if isinstance(f, ast.Name) and f.id == "list" and len(n.args) == 1 and not n.keywords and isinstance(n.args[0], ast.GeneratorExp) \
                and not self.t._is_local("list"):
            self.changed = True
            return ast.copy_location(ast.ListComp(elt=n.args[0].elt, generators=n.args[0].generators), n)
        # x.m(*pair)  ->  x.m(pair[0], pair[1])   when every definition of m takes exactly that many more positional parameters
        if len(n.args) >= 1 and isinstance(n.args[-1], ast.Starred) and not any(isinstance(a, ast.Starred) for a in n.args[:-1]) and not n.keywords \
                and isinstance(f, ast.Attribute) and isinstance(n.args[-1].value, (ast.Name, ast.Attribute, ast.Subscript)):
            defs = self.t.model.methods_named(f.attr)
            ks = {len(d.params) - 1 - (len(n.args) - 1) for d in defs if not d.node.args.vararg and not d.node.args.defaults and not d.node.args.kwonlyargs}
            if defs and len(ks) == 1 and len(defs) == len([d for d in defs if not d.node.args.vararg and not d.node.args.defaults and not d.node.args.kwonlyargs]):
                k = ks.pop()
                if 1 <= k <= 4:
                    self.changed = True
                    star = n.args[-1].value
                    extra = [ast.Subscript(value=copy.deepcopy(star), slice=ast.Constant(value=i), ctx=ast.Load()) for i in range(k)]
                    return ast.copy_location(ast.Call(func=f, args=list(n.args[:-1]) + extra, keywords=[]), n)
        # (lambda a, b: E)(x, y)  ->  E[a := x, b := y]      (plain arguments only)
        if isinstance(f, ast.Lambda) and not n.keywords and len(n.args) == len(f.args.args) and not any(isinstance(a, ast.Starred) for a in n.args) \
                and all(isinstance(a, (ast.Name, ast.Constant, ast.Attribute)) for a in n.args) \
                and not (f.args.vararg or f.args.kwarg or f.args.kwonlyargs or f.args.defaults or f.args.posonlyargs):
            self.changed = True
            env = {p.arg: a for p, a in zip(f.args.args, n.args)}
            return ast.copy_location(self.visit(_SubNames(env).visit(copy.deepcopy(f.body))), n)
        # operator.add(a, b) -> a + b  (and the other functions of the operator module that are spellings of an operator)
        if isinstance(f, ast.Attribute) and isinstance(f.value, ast.Name) and f.value.id == "operator" and not n.keywords \
                and not self.t._is_local("operator"):
            BIN = {"add": ast.Add, "sub": ast.Sub, "mul": ast.Mult, "and_": ast.BitAnd, "or_": ast.BitOr, "xor": ast.BitXor, "lshift": ast.LShift,
                   "rshift": ast.RShift, "floordiv": ast.FloorDiv, "mod": ast.Mod, "truediv": ast.Div, "pow": ast.Pow}
            UN = {"neg": ast.USub, "invert": ast.Invert, "inv": ast.Invert, "not_": ast.Not, "pos": ast.UAdd}
            CMP = {"eq": ast.Eq, "ne": ast.NotEq, "lt": ast.Lt, "le": ast.LtE, "gt": ast.Gt, "ge": ast.GtE, "is_": ast.Is, "is_not": ast.IsNot}
            if f.attr in BIN and len(n.args) == 2:
                self.changed = True
                return ast.copy_location(ast.BinOp(left=n.args[0], op=BIN[f.attr](), right=n.args[1]), n)
            if f.attr in UN and len(n.args) == 1:
                self.changed = True
                return ast.copy_location(ast.UnaryOp(op=UN[f.attr](), operand=n.args[0]), n)
            if f.attr in CMP and len(n.args) == 2:
                self.changed = True
                return ast.copy_location(ast.Compare(left=n.args[0], ops=[CMP[f.attr]()], comparators=[n.args[1]]), n)
        if isinstance(f, ast.Name) and f.id == "int" and len(n.args) == 2 and not n.keywords and isinstance(n.args[1], ast.Constant) and n.args[1].value == 10 \
                and isinstance(n.args[0], (ast.Subscript, ast.Attribute, ast.Name)):
            # int(text, 10) -> int(text): the argument is a token of the parse result (a str); base 10 is the default
            if any(isinstance(x, ast.Subscript) for x in ast.walk(n.args[0])):
                self.changed = True
                return ast.copy_location(ast.Call(func=f, args=[n.args[0]], keywords=[]), n)
        if isinstance(f, ast.Name) and f.id in ("list", "tuple") and len(n.args) == 1 and not n.keywords and isinstance(n.args[0], (ast.Tuple, ast.List)) \
                and all(_row_ok(v) for v in n.args[0].elts):
            self.changed = True
            lit = ast.List(elts=n.args[0].elts, ctx=ast.Load()) if f.id == "list" else ast.Tuple(elts=n.args[0].elts, ctx=ast.Load())
            return ast.copy_location(lit, n)
        if isinstance(f, ast.Name) and f.id in ("dict", "list", "tuple") and not n.args and not n.keywords:
            self.changed = True
            return ast.copy_location({"dict": ast.Dict(keys=[], values=[]), "list": ast.List(elts=[], ctx=ast.Load()),
                                      "tuple": ast.Tuple(elts=[], ctx=ast.Load())}[f.id], n)
        if isinstance(f, ast.Name) and f.id == "getattr" and len(n.args) == 2 and not n.keywords:
            name = n.args[1]
            if isinstance(name, ast.Constant) and isinstance(name.value, str) and name.value.isidentifier():
                self.changed = True
                return ast.copy_location(ast.Attribute(value=n.args[0], attr=name.value, ctx=ast.Load()), n)
            if isinstance(name, ast.IfExp):
                def dist(e: ast.AST) -> Optional[ast.AST]:
                    if isinstance(e, ast.IfExp):
                        a, b = dist(e.body), dist(e.orelse)
                        return None if a is None or b is None else ast.IfExp(test=e.test, body=a, orelse=b)
                    if isinstance(e, ast.Constant) and isinstance(e.value, str) and e.value.isidentifier():
                        return ast.Attribute(value=copy.deepcopy(n.args[0]), attr=e.value, ctx=ast.Load())
                    if isinstance(e, ast.Call) and isinstance(e.func, ast.Name) and e.func.id == "KEY_ERROR":
                        return e
                    return None
                d = dist(name)
                if d is not None:
                    self.changed = True
                    return ast.copy_location(d, n)
        if isinstance(f, ast.Attribute) and f.attr == "format" and isinstance(f.value, ast.Constant) and isinstance(f.value.value, str) \
                and n.args and not n.keywords and not any(isinstance(a, ast.Starred) for a in n.args):
            import re as _re
            parts = _re.split(r"(\{[^{}]*\})", f.value.value)
            fields = [p_ for p_ in parts if p_.startswith("{") and p_.endswith("}")]
            if len(fields) == len(n.args) and all(_re.fullmatch(r"\{(:[^{}!]*)?\}", p_) for p_ in fields) and "{{" not in f.value.value and "}}" not in f.value.value:
                vals: list = []
                it = iter(n.args)
                for p_ in parts:
                    if p_ in fields and p_.startswith("{"):
                        spec = p_[2:-1] if p_.startswith("{:") else ""
                        vals.append(ast.FormattedValue(value=next(it), conversion=-1,
                                                       format_spec=ast.JoinedStr(values=[ast.Constant(value=spec)]) if spec else None))
                    elif p_:
                        vals.append(ast.Constant(value=p_))
                self.changed = True
                return ast.copy_location(ast.JoinedStr(values=vals), n)
        if isinstance(f, ast.Attribute) and f.attr == "get" and 1 <= len(n.args) <= 2 and not n.keywords and _simple_key(n.args[0]):
            rows = self.t.rows(f.value)
            if isinstance(rows, list):
                self.changed = True
                dflt = n.args[1] if len(n.args) == 2 else ast.Constant(value=None)
                return ast.copy_location(_chain(n.args[0], rows, dflt), n)
        if isinstance(f, ast.Name) and f.id == "sorted" and len(n.args) == 1 and len(n.keywords) == 1 and n.keywords[0].arg == "key" \
                and isinstance(n.args[0], ast.Call) and isinstance(n.args[0].func, ast.Attribute) and n.args[0].func.attr == "items":
            k = n.keywords[0].value
            first = (isinstance(k, ast.Lambda) and len(k.args.args) == 1 and isinstance(k.body, ast.Subscript)
                     and isinstance(k.body.value, ast.Name) and k.body.value.id == k.args.args[0].arg
                     and isinstance(k.body.slice, ast.Constant) and k.body.slice.value == 0) or \
                    (isinstance(k, ast.Call) and ast.unparse(k) in ("itemgetter(0)", "operator.itemgetter(0)"))
            if first:
                self.changed = True
                return ast.copy_location(ast.Call(func=f, args=n.args, keywords=[]), n)
        return n


class _SubNames(ast.NodeTransformer):
    def __init__(self, env: dict) -> None:
        self.env = env

    def visit_Name(self, n: ast.Name):
        if isinstance(n.ctx, ast.Load) and n.id in self.env:
            return copy.deepcopy(self.env[n.id])
        return n


def _stores(stmts, names: set) -> bool:
    for s in stmts:
        for n in ast.walk(s):
            if isinstance(n, ast.Name) and n.id in names and isinstance(n.ctx, (ast.Store, ast.Del)):
                return True
    return False


def _bind_row(targets: ast.AST, row: ast.AST) -> Optional[dict]:
    if isinstance(targets, ast.Name):
        return {targets.id: row}
    if isinstance(targets, (ast.Tuple, ast.List)) and isinstance(row, (ast.Tuple, ast.List)) and len(targets.elts) == len(row.elts):
        out: dict = {}
        for t, v in zip(targets.elts, row.elts):
            b = _bind_row(t, v)
            if b is None:
                return None
            out.update(b)
        return out
    return None


def _match_chain(s: ast.Match) -> Optional[ast.stmt]:
    """match NAME: case C1: A  case C2 | C3: B  case _: D     ->   if NAME == C1: A  elif NAME == C2 or NAME == C3: B  else: D
    (literal patterns only, no guards, no captures)"""
    if not isinstance(s.subject, ast.Name):
        return None
    arms = []
    default: list = []
    for i, c in enumerate(s.cases):
        if c.guard is not None:
            return None
        pats = c.pattern.patterns if isinstance(c.pattern, ast.MatchOr) else [c.pattern]
        if len(pats) == 1 and isinstance(pats[0], ast.MatchAs) and pats[0].pattern is None and pats[0].name is None:
            if i != len(s.cases) - 1:
                return None
            default = c.body
            continue
        if not all(isinstance(p, ast.MatchValue) and isinstance(p.value, ast.Constant) and not isinstance(p.value.value, float) for p in pats):
            return None
        tests = [ast.Compare(left=copy.deepcopy(s.subject), ops=[ast.Eq()], comparators=[p.value]) for p in pats]
        arms.append((tests[0] if len(tests) == 1 else ast.BoolOp(op=ast.Or(), values=tests), c.body))
    if not arms:
        return None
    node: list = default
    for test, body in reversed(arms):
        node = [ast.If(test=test, body=body, orelse=node)]
    return ast.fix_missing_locations(ast.copy_location(node[0], s))


_SCALAR_ANN = {"int", "str", "bool", "float", "bytes", "None", "Optional", "Union", "Any", "object", "typing"}


def _scalar_annotation(a: ast.AST) -> bool:
    """An annotation that names builtin scalars only (`int`, `Optional[int]`, `int | None`): it tells the receiver typing nothing, so
    `self.rd: int = rd` in a constructor is the plain assignment."""
    for n in ast.walk(a):
        if isinstance(n, ast.Name) and n.id not in _SCALAR_ANN:
            return False
        if isinstance(n, ast.Attribute) and not (isinstance(n.value, ast.Name) and n.value.id == "typing" and n.attr in _SCALAR_ANN):
            return False
        if isinstance(n, ast.Constant) and not (n.value is None or (isinstance(n.value, str) and n.value in _SCALAR_ANN)):
            return False
    return True


class _Stmt:
    def __init__(self, tables: Tables) -> None:
        self.t = tables
        self.changed = False

    def block(self, stmts: list) -> list:
        out: list = []
        i = 0
        while i < len(stmts):
            s = stmts[i]
            # x: T = v  ->  x = v   (annotations carry no behaviour) -- except in __init__, whose attribute annotations the
            # receiver typing reads
            if isinstance(s, ast.AnnAssign) and s.value is not None and (self.t.f.name != "__init__" or _scalar_annotation(s.annotation)):
                s = ast.copy_location(ast.Assign(targets=[s.target], value=s.value, lineno=s.lineno), s)
                self.changed = True
            # if K in D: return D[K]; return V   (or: if K not in D: return V; return D[K])   ->   return D.get(K, V)
            if isinstance(s, ast.If) and not s.orelse and len(s.body) == 1 and isinstance(s.body[0], ast.Return) and i + 1 < len(stmts) \
                    and isinstance(stmts[i + 1], ast.Return) and isinstance(s.test, ast.Compare) and len(s.test.ops) == 1 \
                    and isinstance(s.test.ops[0], (ast.In, ast.NotIn)) and s.body[0].value is not None and stmts[i + 1].value is not None:
                K_, D_ = s.test.left, s.test.comparators[0]
                hit_, miss_ = (s.body[0].value, stmts[i + 1].value) if isinstance(s.test.ops[0], ast.In) else (stmts[i + 1].value, s.body[0].value)
                if isinstance(hit_, ast.Subscript) and ast.dump(_load(hit_.value)) == ast.dump(_load(D_)) and not isinstance(hit_.slice, ast.Slice) \
                        and ast.dump(_load(hit_.slice)) == ast.dump(_load(K_)) and isinstance(D_, (ast.Name, ast.Attribute)) and _simple_key(K_) \
                        and len(ast.unparse(miss_)) < 120 and not any(isinstance(x, (ast.Await, ast.Yield, ast.NamedExpr)) for x in ast.walk(miss_)):
                    new_r = ast.copy_location(ast.Return(value=ast.Call(func=ast.Attribute(value=copy.deepcopy(D_), attr="get", ctx=ast.Load()),
                                                                        args=[copy.deepcopy(K_), miss_], keywords=[])), s)
                    ast.fix_missing_locations(new_r)
                    self.changed = True
                    stmts = stmts[:i] + [new_r] + stmts[i + 2:]
                    continue
            # x = T.get(k); if x is not None: S   ->   if k in T: S[x := T[k]]      (T a constant table, x used nowhere else)
            if isinstance(s, ast.Assign) and len(s.targets) == 1 and isinstance(s.targets[0], ast.Name) and isinstance(s.value, ast.Call) \
                    and isinstance(s.value.func, ast.Attribute) and s.value.func.attr == "get" and len(s.value.args) == 1 and not s.value.keywords \
                    and _simple_key(s.value.args[0]) and i + 1 < len(stmts) and isinstance(stmts[i + 1], ast.If) and not stmts[i + 1].orelse:
                xn = s.targets[0].id
                nxt = stmts[i + 1]
                t_ = nxt.test
                is_test = isinstance(t_, ast.Compare) and len(t_.ops) == 1 and isinstance(t_.ops[0], ast.IsNot) and isinstance(t_.left, ast.Name) \
                    and t_.left.id == xn and isinstance(t_.comparators[0], ast.Constant) and t_.comparators[0].value is None
                rows_ = self.t.rows(s.value.func.value) if is_test else None
                used_elsewhere = any(isinstance(n_, ast.Name) and n_.id == xn for st_ in stmts[:i] + stmts[i + 2:] for n_ in ast.walk(st_)) or \
                    sum(1 for n_ in ast.walk(self.t.f.node) if isinstance(n_, ast.Name) and n_.id == xn and isinstance(n_.ctx, ast.Store)) != 1
                stored_in_body = any(isinstance(n_, ast.Name) and n_.id == xn and isinstance(n_.ctx, ast.Store) for st_ in nxt.body for n_ in ast.walk(st_))
                if isinstance(rows_, list) and not used_elsewhere and not stored_in_body:
                    look_ = ast.Subscript(value=copy.deepcopy(s.value.func.value), slice=copy.deepcopy(s.value.args[0]), ctx=ast.Load())

                    class _RX(ast.NodeTransformer):
                        def visit_Name(self, n_):
                            if n_.id == xn and isinstance(n_.ctx, ast.Load):
                                return ast.copy_location(copy.deepcopy(look_), n_)
                            return n_
                    new_if = ast.copy_location(ast.If(test=ast.Compare(left=copy.deepcopy(s.value.args[0]), ops=[ast.In()],
                                                                      comparators=[copy.deepcopy(s.value.func.value)]),
                                                      body=[_RX().visit(copy.deepcopy(st_)) for st_ in nxt.body], orelse=[]), nxt)
                    ast.fix_missing_locations(new_if)
                    self.changed = True
                    stmts = stmts[:i] + [new_if] + stmts[i + 2:]
                    continue
            # q, r = divmod(a, b)  ->  q = a // b; r = a % b      (a, b plain operands)
            if isinstance(s, ast.Assign) and len(s.targets) == 1 and isinstance(s.targets[0], ast.Tuple) and len(s.targets[0].elts) == 2 \
                    and all(isinstance(t, ast.Name) for t in s.targets[0].elts) and isinstance(s.value, ast.Call) and isinstance(s.value.func, ast.Name) \
                    and s.value.func.id == "divmod" and len(s.value.args) == 2 and not s.value.keywords and not self.t._is_local("divmod") \
                    and not any(isinstance(x, ast.Call) for a_ in s.value.args for x in ast.walk(a_)) \
                    and not any(isinstance(x, ast.Name) and x.id in {t.id for t in s.targets[0].elts} for a_ in s.value.args for x in ast.walk(a_)):
                a_, b_ = s.value.args
                q_ = ast.copy_location(ast.Assign(targets=[ast.Name(id=s.targets[0].elts[0].id, ctx=ast.Store())],
                                                  value=ast.BinOp(left=copy.deepcopy(a_), op=ast.FloorDiv(), right=copy.deepcopy(b_)), lineno=s.lineno), s)
                r_ = ast.copy_location(ast.Assign(targets=[ast.Name(id=s.targets[0].elts[1].id, ctx=ast.Store())],
                                                  value=ast.BinOp(left=copy.deepcopy(a_), op=ast.Mod(), right=copy.deepcopy(b_)), lineno=s.lineno), s)
                ast.fix_missing_locations(q_)
                ast.fix_missing_locations(r_)
                self.changed = True
                stmts = stmts[:i] + [q_, r_] + stmts[i + 1:]
                continue
            # a, b = (X1, Y1) if c else (X2, Y2)  ->  a, b = (X1 if c else X2), (Y1 if c else Y2)     (c a plain name / constant test)
            if isinstance(s, ast.Assign) and len(s.targets) == 1 and isinstance(s.targets[0], ast.Tuple) and isinstance(s.value, ast.IfExp) \
                    and isinstance(s.value.body, ast.Tuple) and isinstance(s.value.orelse, ast.Tuple) \
                    and len(s.value.body.elts) == len(s.value.orelse.elts) == len(s.targets[0].elts) \
                    and not any(isinstance(x, ast.Call) for x in ast.walk(s.value.test)):
                s = ast.copy_location(ast.Assign(targets=s.targets, value=ast.Tuple(elts=[
                    ast.IfExp(test=copy.deepcopy(s.value.test), body=a_, orelse=b_) for a_, b_ in zip(s.value.body.elts, s.value.orelse.elts)], ctx=ast.Load()),
                    lineno=s.lineno), s)
                self.changed = True
            # a, b = X, Y  ->  a = X; b = Y     (plain names on the left that none of the values reads: nothing is swapped)
            if isinstance(s, ast.Assign) and len(s.targets) == 1 and isinstance(s.targets[0], ast.Tuple) and isinstance(s.value, ast.Tuple) \
                    and len(s.targets[0].elts) == len(s.value.elts) and all(isinstance(t, ast.Name) for t in s.targets[0].elts) \
                    and not any(isinstance(v, ast.Starred) for v in s.value.elts):
                tn = {t.id for t in s.targets[0].elts}
                if len(tn) == len(s.targets[0].elts) and not any(isinstance(x, ast.Name) and x.id in tn for v in s.value.elts for x in ast.walk(v)) \
                        and sum(1 for v in s.value.elts if any(isinstance(x, ast.Call) for x in ast.walk(v))) <= 1:
                    parts = [ast.copy_location(ast.Assign(targets=[ast.Name(id=t.id, ctx=ast.Store())], value=v, lineno=s.lineno), s)
                             for t, v in zip(s.targets[0].elts, s.value.elts)]
                    self.changed = True
                    stmts = stmts[:i] + parts + stmts[i + 1:]
                    continue
            # T = T op V  ->  T op= V
            if isinstance(s, ast.Assign) and len(s.targets) == 1 and isinstance(s.value, ast.BinOp) \
                    and isinstance(s.targets[0], (ast.Name, ast.Attribute, ast.Subscript)) \
                    and ast.dump(_load(s.targets[0])) == ast.dump(s.value.left) \
                    and not any(isinstance(x, ast.Call) for x in ast.walk(s.targets[0])):
                s = ast.copy_location(ast.AugAssign(target=s.targets[0], op=s.value.op, value=s.value.right), s)
                self.changed = True
            # rec = TABLE[k]; REST reading only rec.<field> / rec[i]   ->   f0, f1, .. = TABLE[k]; REST[rec.<field> := f_i]
            if isinstance(s, ast.Assign) and len(s.targets) == 1 and isinstance(s.targets[0], ast.Name) and isinstance(s.value, ast.Subscript) \
                    and not isinstance(s.value.slice, ast.Slice) and _simple_key(s.value.slice) and stmts[i + 1:]:
                rn = s.targets[0].id
                rows_ = self.t.rows(s.value.value)
                if isinstance(rows_, list) and rows_ and all(isinstance(v_, ast.Tuple) for _k, v_ in rows_) and len({len(v_.elts) for _k, v_ in rows_}) == 1:
                    arity = len(rows_[0][1].elts)
                    fields_ = getattr(rows_[0][1], "_nt_fields", None)
                    rest_ = stmts[i + 1:]
                    pmap_: dict = {}
                    for st_ in rest_:
                        for p_ in ast.walk(st_):
                            for ch_ in ast.iter_child_nodes(p_):
                                pmap_[id(ch_)] = p_
                    ok_ = sum(1 for n_ in ast.walk(self.t.f.node) if isinstance(n_, ast.Name) and n_.id == rn and isinstance(n_.ctx, ast.Store)) == 1
                    n_uses = 0
                    for st_ in rest_:
                        for n_ in ast.walk(st_):
                            if isinstance(n_, ast.Name) and n_.id == rn:
                                n_uses += 1
                                par_ = pmap_.get(id(n_))
                                if isinstance(par_, ast.Attribute) and par_.value is n_ and fields_ and par_.attr in fields_ and isinstance(par_.ctx, ast.Load):
                                    continue
                                if isinstance(par_, ast.Subscript) and par_.value is n_ and isinstance(par_.slice, ast.Constant) and isinstance(par_.slice.value, int) \
                                        and 0 <= par_.slice.value < arity and isinstance(par_.ctx, ast.Load):
                                    continue
                                ok_ = False
                    if ok_ and n_uses:
                        names_ = [f"_{rn}_{(fields_[j] if fields_ else j)}" for j in range(arity)]

                        class _RF(ast.NodeTransformer):
                            def visit_Attribute(self, n_):
                                if isinstance(n_.value, ast.Name) and n_.value.id == rn and fields_ and n_.attr in fields_:
                                    return ast.copy_location(ast.Name(id=names_[fields_.index(n_.attr)], ctx=ast.Load()), n_)
                                return self.generic_visit(n_)

                            def visit_Subscript(self, n_):
                                if isinstance(n_.value, ast.Name) and n_.value.id == rn and isinstance(n_.slice, ast.Constant):
                                    return ast.copy_location(ast.Name(id=names_[n_.slice.value], ctx=ast.Load()), n_)
                                return self.generic_visit(n_)
                        new_s = ast.copy_location(ast.Assign(targets=[ast.Tuple(elts=[ast.Name(id=x_, ctx=ast.Store()) for x_ in names_], ctx=ast.Store())],
                                                             value=s.value, lineno=s.lineno), s)
                        stmts = stmts[:i] + [new_s] + [_RF().visit(copy.deepcopy(st_)) for st_ in rest_]
                        self.changed = True
                        continue
            # a, b = TABLE[k]; REST   /   a, b = TABLE.get(k, DEFAULT); REST   ->  if/elif chain
            look = None
            if isinstance(s, ast.Assign) and len(s.targets) == 1 and isinstance(s.value, ast.Subscript) \
                    and not isinstance(s.value.slice, ast.Slice) and _simple_key(s.value.slice):
                look = (s.value.value, s.value.slice, None)
            elif isinstance(s, ast.Assign) and len(s.targets) == 1 and isinstance(s.value, ast.Call) and isinstance(s.value.func, ast.Attribute) \
                    and s.value.func.attr == "get" and len(s.value.args) == 2 and not s.value.keywords and _simple_key(s.value.args[0]):
                d = s.value.args[1]
                if isinstance(d, ast.Name) and not self.t._is_local(d.id):
                    d = self.t.f.module.assigns.get(d.id, d)
                if _row_ok(d) and not isinstance(d, ast.Name):
                    look = (s.value.func.value, s.value.args[0], d)
            elif isinstance(s, ast.Assign) and len(s.targets) == 1 and isinstance(s.value, ast.Call) and isinstance(s.value.func, ast.Attribute) \
                    and s.value.func.attr == "get" and len(s.value.args) == 1 and not s.value.keywords and _simple_key(s.value.args[0]):
                look = (s.value.func.value, s.value.args[0], ast.Constant(value=None))
            if look is not None and not isinstance(s.targets[0], (ast.Tuple, ast.List)):
                # a scalar lookup becomes a conditional expression (expression pass), not a duplicated block -- unless the value is
                # *called* afterwards (dict dispatch): then every row continues with its own callee
                nm = s.targets[0].id if isinstance(s.targets[0], ast.Name) else None
                called = nm is not None and any(isinstance(c, ast.Call) and isinstance(c.func, ast.Name) and c.func.id == nm
                                                for x in stmts[i + 1:] for c in ast.walk(x))
                if not called or len(stmts[i + 1:]) > 4 or any(isinstance(n, (ast.For, ast.While)) for x in stmts[i + 1:] for n in ast.walk(x)):
                    look = None  # (a callee used inside a loop stays one conditional callee: the call is distributed where it is made)
            if look is not None:
                rows = self.t.rows(look[0])
                rest = stmts[i + 1:]
                if isinstance(rows, list) and rest:
                    binds = [_bind_row(s.targets[0], v) for _, v in rows]
                    dbind = _bind_row(s.targets[0], look[2]) if look[2] is not None else None
                    if look[2] is not None and dbind is None:
                        binds = [None]
                    names = set(binds[0]) if binds and binds[0] is not None else set()
                    if all(b is not None for b in binds) and not _stores(rest, names):
                        self.changed = True
                        key = look[1]
                        chain: Optional[ast.stmt] = None
                        if dbind is not None:
                            dflt = self.block([_SubNames(dbind).visit(copy.deepcopy(x)) for x in rest])
                        else:
                            miss = ast.Raise(exc=ast.Call(func=ast.Name(id="KeyError", ctx=ast.Load()), args=[copy.deepcopy(key)], keywords=[]), cause=None)
                            miss._table_miss = True  # type: ignore[attr-defined]
                            dflt = [ast.copy_location(miss, s)]
                        orelse = dflt
                        for (k, _), b in reversed(list(zip(rows, binds))):
                            body = [_SubNames(b).visit(copy.deepcopy(x)) for x in rest]
                            body = self.block(body)
                            chain = ast.copy_location(ast.If(test=_eq(key, k), body=body, orelse=orelse), s)
                            orelse = [chain]
                        out.append(ast.fix_missing_locations(chain))  # type: ignore[arg-type]
                        return out
            # setattr(x, "name", v)  ->  x.name = v ;  with v = getattr(x, "name") op w  ->  x.name op= w
            if isinstance(s, ast.Expr) and isinstance(s.value, ast.Call) and isinstance(s.value.func, ast.Name) and s.value.func.id == "setattr" \
                    and len(s.value.args) == 3 and isinstance(s.value.args[1], ast.Constant) and isinstance(s.value.args[1].value, str) \
                    and s.value.args[1].value.isidentifier():
                tgt = ast.Attribute(value=s.value.args[0], attr=s.value.args[1].value, ctx=ast.Store())
                v = _Expr(self.t).visit(copy.deepcopy(s.value.args[2]))
                s = ast.copy_location(ast.Assign(targets=[tgt], value=v, lineno=s.lineno), s)
                ast.fix_missing_locations(s)
                self.changed = True
                stmts = stmts[:i] + [s] + stmts[i + 1:]
                continue  # re-examine as an assignment (T = T op V)
            # for x, y in TABLE: if c(x): A(y); break   ->  if c(x1): A(y1) elif c(x2): A(y2) ...   (first match wins)
            if isinstance(s, ast.For) and not s.orelse and isinstance(s.target, (ast.Name, ast.Tuple)) and len(s.body) == 1 \
                    and isinstance(s.body[0], ast.If) and not s.body[0].orelse and s.body[0].body and isinstance(s.body[0].body[-1], ast.Break) \
                    and not any(isinstance(n, (ast.Break, ast.Continue)) for x in s.body[0].body[:-1] for n in ast.walk(x)) \
                    and isinstance(s.iter, (ast.Name, ast.Attribute, ast.Call)):
                rows = self.t.iter_rows(s.iter)
                if isinstance(rows, list):
                    binds = [_bind_row(s.target, v) for _, v in rows]
                    names = {n.id for n in ast.walk(s.target) if isinstance(n, ast.Name)}
                    if all(b is not None for b in binds) and not _stores(s.body, names):
                        self.changed = True
                        chain = None
                        orelse: list = []
                        for b in reversed(binds):
                            inner = s.body[0]
                            body = self.block([_SubNames(b).visit(copy.deepcopy(x)) for x in inner.body[:-1]]) or [ast.Pass()]
                            chain = ast.copy_location(ast.If(test=_SubNames(b).visit(copy.deepcopy(inner.test)), body=body, orelse=orelse), s)
                            orelse = [chain]
                        out.append(ast.fix_missing_locations(chain))  # type: ignore[arg-type]
                        i += 1
                        continue
            # for x, y in TABLE: BODY  ->  unrolled
            if isinstance(s, ast.For) and not s.orelse and isinstance(s.target, (ast.Name, ast.Tuple)):
                rows = self.t.iter_rows(s.iter)
                if isinstance(rows, list) and not any(isinstance(n, (ast.Break, ast.Continue)) for n in ast.walk(s)) \
                        and isinstance(s.iter, (ast.Name, ast.Attribute, ast.Call)):
                    binds = [_bind_row(s.target, v) for _, v in rows]
                    names = {n.id for n in ast.walk(s.target) if isinstance(n, ast.Name)}
                    if all(b is not None for b in binds) and not _stores(s.body, names) and not _stores(stmts[i + 1:], set()):
                        self.changed = True
                        for b in binds:
                            out.extend(self.block([_SubNames(b).visit(copy.deepcopy(x)) for x in s.body]))
                        i += 1
                        continue
            # recurse into compound statements
            s = self.stmt(s)
            # if <constant>: A else: B   ->  A / B       (left behind by an expanded table row)
            if isinstance(s, ast.If) and isinstance(s.test, ast.Constant) and isinstance(s.test.value, bool):
                self.changed = True
                chosen = s.body if s.test.value else s.orelse
                out.extend(chosen)
                i += 1
                if chosen and isinstance(chosen[-1], (ast.Return, ast.Raise, ast.Continue, ast.Break)):
                    return out  # what follows is unreachable
                continue
            # if c: X = A else: X = B   ->  X = A if c else B      (one plain local on both sides, nothing else in the arms)
            if isinstance(s, ast.If) and len(s.body) == 1 and len(s.orelse) == 1 and isinstance(s.body[0], ast.Assign) \
                    and isinstance(s.orelse[0], ast.Assign) and len(s.body[0].targets) == 1 and len(s.orelse[0].targets) == 1 \
                    and isinstance(s.body[0].targets[0], ast.Name) and isinstance(s.orelse[0].targets[0], ast.Name) \
                    and s.body[0].targets[0].id == s.orelse[0].targets[0].id and getattr(s.body[0], "_from_inline_return", True):
                new = ast.Assign(targets=[s.body[0].targets[0]], value=ast.IfExp(test=s.test, body=s.body[0].value, orelse=s.orelse[0].value), lineno=s.lineno)
                s = ast.fix_missing_locations(ast.copy_location(new, s))
                self.changed = True
            out.append(s)
            i += 1
        return out

    def stmt(self, s: ast.stmt) -> ast.stmt:
        new = None
        for fld in ("body", "orelse", "finalbody"):
            v = getattr(s, fld, None)
            if isinstance(v, list) and v and isinstance(v[0], ast.stmt) and not isinstance(s, (ast.FunctionDef, ast.AsyncFunctionDef, ast.ClassDef)):
                if new is None:
                    new = copy.copy(s)
                setattr(new, fld, self.block(v))
        if isinstance(s, ast.Try):
            if new is None:
                new = copy.copy(s)
            hs = []
            for h in s.handlers:
                h2 = copy.copy(h)
                h2.body = self.block(h.body)
                hs.append(h2)
            new.handlers = hs
        if isinstance(s, ast.Match):
            if new is None:
                new = copy.copy(s)
            cs = []
            for c in s.cases:
                c2 = copy.copy(c)
                c2.body = self.block(c.body)
                cs.append(c2)
            new.cases = cs
            chain = _match_chain(new)
            if chain is not None:
                self.changed = True
                new = chain
        s2 = new if new is not None else s
        # `if k in TABLE: <chain ending in raise KeyError(k)> else: E`  ->  the chain ending in E
        if isinstance(s2, ast.If) and len(s2.body) == 1 and isinstance(s2.body[0], ast.If) and isinstance(s2.test, ast.BoolOp) \
                and isinstance(s2.test.op, ast.Or):
            inner = s2.body[0]
            keys = []
            node: Optional[ast.AST] = inner
            last = None
            while isinstance(node, ast.If) and isinstance(node.test, ast.Compare) and isinstance(node.test.ops[0], ast.Eq):
                keys.append(ast.dump(node.test))
                last = node
                node = node.orelse[0] if len(node.orelse) == 1 else None
            if last is not None and len(last.orelse) == 1 and isinstance(last.orelse[0], ast.Raise) and \
                    "KeyError" in ast.dump(last.orelse[0]) and keys == [ast.dump(t) for t in s2.test.values]:
                last.orelse = list(s2.orelse)
                self.changed = True
                return inner
        return s2


def _eq_keys(test: ast.AST) -> Optional[tuple[str, set]]:
    """(subject dump, {constant dumps}) of `k == c` / `k == c1 or k == c2 ..`"""
    parts = test.values if isinstance(test, ast.BoolOp) and isinstance(test.op, ast.Or) else [test]
    subj = None
    keys = set()
    for p in parts:
        if not (isinstance(p, ast.Compare) and len(p.ops) == 1 and isinstance(p.ops[0], ast.Eq) and isinstance(p.comparators[0], ast.Constant)):
            return None
        d = ast.dump(p.left)
        if subj is not None and d != subj:
            return None
        subj = d
        keys.add(ast.dump(p.comparators[0]))
    return (subj, keys) if subj is not None else None


def _prune_covered_misses(stmts: list, known: dict) -> bool:
    """Inside `if k == a or k == b:` a chain over the same `k` that handles a and b cannot reach its failed-lookup arm: drop it.
    (`known`: subject dump -> keys one of which the subject equals here.)"""
    changed = False
    known = dict(known)
    for s in stmts:
        if isinstance(s, ast.If):
            # a chain whose failed-lookup arm is unreachable
            ek = _eq_keys(s.test)
            if ek is not None and ek[0] in known:
                keys = set()
                node: Optional[ast.AST] = s
                last = None
                while isinstance(node, ast.If):
                    e2 = _eq_keys(node.test)
                    if e2 is None or e2[0] != ek[0]:
                        break
                    keys |= e2[1]
                    last = node
                    node = node.orelse[0] if len(node.orelse) == 1 else None
                if last is not None and len(last.orelse) == 1 and getattr(last.orelse[0], "_table_miss", False) and keys >= known[ek[0]]:
                    last.orelse = []
                    changed = True
            inner = dict(known)
            if ek is not None:
                inner[ek[0]] = ek[1]
            changed = _prune_covered_misses(s.body, inner) or changed
            changed = _prune_covered_misses(s.orelse, known) or changed
        else:
            for fld in ("body", "orelse", "finalbody"):
                v = getattr(s, fld, None)
                if isinstance(v, list) and v and isinstance(v[0], ast.stmt) and not isinstance(s, (ast.FunctionDef, ast.AsyncFunctionDef, ast.ClassDef)):
                    changed = _prune_covered_misses(v, known) or changed
            for h in getattr(s, "handlers", []) or []:
                changed = _prune_covered_misses(h.body, known) or changed
        # a store to a name of a subject ends what is known about it
        stored = {n.id for n in ast.walk(s) if isinstance(n, ast.Name) and isinstance(n.ctx, ast.Store)}
        if stored:
            for k in [k for k in known if any(f"id='{n}'" in k for n in stored)]:
                del known[k]
    return changed


def _densified_dict(node: ast.AST) -> bool:
    """D = {} ; ... D[k] = v ... ; L = [D.get(i) for i in range(N)]      (D used for nothing else)
         ->  L = [None] * N ; ... L[k] = v ...
    A dict that is only filled by key and then read out once in index order is the pre-sized list filled by index."""
    changed = False
    body = node.body
    for pos, st in enumerate(body):
        if not (isinstance(st, ast.Assign) and len(st.targets) == 1 and isinstance(st.targets[0], ast.Name) and isinstance(st.value, ast.ListComp)):
            continue
        lc = st.value
        if not (len(lc.generators) == 1 and not lc.generators[0].ifs and isinstance(lc.generators[0].target, ast.Name)
                and isinstance(lc.generators[0].iter, ast.Call) and isinstance(lc.generators[0].iter.func, ast.Name)
                and lc.generators[0].iter.func.id == "range" and len(lc.generators[0].iter.args) == 1 and not lc.generators[0].iter.keywords):
            continue
        i_name = lc.generators[0].target.id
        e = lc.elt
        if not (isinstance(e, ast.Call) and isinstance(e.func, ast.Attribute) and e.func.attr == "get" and isinstance(e.func.value, ast.Name)
                and len(e.args) == 1 and isinstance(e.args[0], ast.Name) and e.args[0].id == i_name and not e.keywords):
            continue
        d_name, l_name = e.func.value.id, st.targets[0].id
        uses = [n for n in ast.walk(node) if isinstance(n, ast.Name) and n.id == d_name]
        init = [x for x in body[:pos] if isinstance(x, ast.Assign) and len(x.targets) == 1 and isinstance(x.targets[0], ast.Name)
                and x.targets[0].id == d_name and isinstance(x.value, ast.Dict) and not x.value.keys]
        if len(init) != 1:
            continue
        stores = [n for n in ast.walk(node) if isinstance(n, ast.Subscript) and isinstance(n.ctx, ast.Store) and isinstance(n.value, ast.Name)
                  and n.value.id == d_name]
        if len(uses) != 2 + len(stores) or not stores:
            continue
        if any(isinstance(n, ast.Name) and n.id == l_name for x in body[:pos] for n in ast.walk(x)):
            continue
        n_expr = lc.generators[0].iter.args[0]
        if any(isinstance(n, ast.Name) and isinstance(n.ctx, ast.Store) and n.id in {y.id for y in ast.walk(n_expr) if isinstance(y, ast.Name)}
               for x in body for n in ast.walk(x)):
            continue
        init[0].targets[0].id = l_name
        init[0].value = ast.BinOp(left=ast.List(elts=[ast.Constant(value=None)], ctx=ast.Load()), op=ast.Mult(), right=n_expr)
        for sub in stores:
            sub.value.id = l_name
        body.pop(pos)
        ast.fix_missing_locations(node)
        changed = True
        break
    return changed

# ---------------------------------------------------------------------------------------------------------------------------
# named constants

def _module_scalar(model, mod, name: str):
    """The int / bool / str a module-level name is bound to -- when it is bound exactly once at module level, never declared
    `global`, never stored to as an attribute of the module, and its value folds.  Else None."""
    memo = model.__dict__.setdefault("_idioms_scalars", {})
    key = (mod.name, name)
    if key in memo:
        return memo[key]
    memo[key] = None
    binds = 0
    for st in mod.tree.body:
        for n in ast.walk(st) if not isinstance(st, (ast.FunctionDef, ast.AsyncFunctionDef, ast.ClassDef)) else []:
            if isinstance(n, ast.Name) and n.id == name and isinstance(n.ctx, (ast.Store, ast.Del)):
                binds += 1
    if binds == 0 and name in mod.assigns:
        # made visible here by the helper inliner: the constant of the module that really binds this very expression
        for m2 in model.modules.values():
            if m2 is not mod and m2.assigns.get(name) is mod.assigns[name]:
                memo.pop(key, None)
                memo[key] = _module_scalar(model, m2, name)
                return memo[key]
    if binds != 1:
        return None
    for n in ast.walk(mod.tree):
        if isinstance(n, (ast.Global, ast.Nonlocal)) and name in n.names:
            return None
    for m2 in model.modules.values():
        for n in ast.walk(m2.tree):
            if isinstance(n, ast.Attribute) and n.attr == name and isinstance(n.ctx, (ast.Store, ast.Del)):
                return None
            if isinstance(n, ast.Call) and isinstance(n.func, ast.Name) and n.func.id in ("setattr", "delattr"):
                if len(n.args) < 2 or not isinstance(n.args[1], ast.Constant) or n.args[1].value == name:
                    return None
    from .consteval import Folder
    try:
        v = Folder(model, mod, None, None).fold(mod.assigns[name])
    except Exception:
        return None
    if type(v) in (int, bool, str):
        memo[key] = (v,)
    return memo[key]


def _class_scalar(model, cls, name: str):
    """Likewise for a class-level constant reached as `self.NAME` / `Class.NAME`: bound once in the class body that defines it, no
    attribute store `x.NAME = ..` anywhere in the package, not an Enum member."""
    memo = model.__dict__.setdefault("_idioms_cscalars", {})
    key = (cls.qname, name)
    if key in memo:
        return memo[key]
    memo[key] = None
    hit = model.lookup_assign(cls, name)
    if hit is None:
        return None
    k, e = hit
    for b in model.mro(k):
        if not hasattr(b, "base_exprs"):
            continue
        if b.is_dataclass:
            return None  # a class-level default of a dataclass is an instance field
        for x in b.base_exprs:
            t = ast.unparse(x)
            if t.split("[")[0].split(".")[-1] not in ("object", "ABC", "Generic", "Protocol", "IntEnum") and model.resolve_class(b.module, x) is None:
                # (an IntEnum member compares, hashes and computes as its int; only its repr differs)
                return None  # Enum, NamedTuple, TypedDict, list, Exception, ...: class-level names are not plain constants there
    # overridden in a subclass, or also an instance attribute / method somewhere below or above: not a constant of the receiver
    for c2 in model.subclasses(cls):
        if c2 is not k and (name in c2.assigns or name in c2.methods) and c2 is not cls:
            return None
        if c2 is cls and c2 is not k and name in c2.assigns:
            return None
    body_binds = 0
    knode = getattr(k, "node", None)
    if knode is None:
        return None
    for st in knode.body:
        if isinstance(st, (ast.FunctionDef, ast.AsyncFunctionDef, ast.ClassDef)):
            continue
        for n in ast.walk(st):
            if isinstance(n, ast.Name) and n.id == name and isinstance(n.ctx, (ast.Store, ast.Del)):
                body_binds += 1
    if body_binds != 1:
        return None
    for m2 in model.modules.values():
        for n in ast.walk(m2.tree):
            if isinstance(n, ast.Attribute) and n.attr == name and isinstance(n.ctx, (ast.Store, ast.Del)):
                return None
            if isinstance(n, ast.Call) and isinstance(n.func, ast.Name) and n.func.id in ("setattr", "delattr"):
                if len(n.args) < 2 or not isinstance(n.args[1], ast.Constant) or n.args[1].value == name:
                    return None
    from .consteval import Folder
    try:
        v = Folder(model, k.module, k, None).fold(e)
    except Exception:
        return None
    if type(v) in (int, bool, str):
        memo[key] = (v,)
    return memo[key]


def _named_constants(model, f, node) -> bool:
    """`WORD_BYTES * i` with a module-level `WORD_BYTES = 4`, `self.MASK` / `Memory.MASK` with a class-level constant: the value.
    (Named constants are how magic numbers get cleaned up; every rule should see the number.)"""
    local: set = set(f.params)
    for n in ast.walk(node):
        if isinstance(n, ast.Name) and isinstance(n.ctx, (ast.Store, ast.Del)):
            local.add(n.id)
        elif isinstance(n, ast.arg):
            local.add(n.arg)
        elif isinstance(n, (ast.Global, ast.Nonlocal)):
            return False
        elif isinstance(n, ast.ExceptHandler) and n.name:
            local.add(n.name)
        elif isinstance(n, (ast.Import, ast.ImportFrom)):
            for a in n.names:
                local.add((a.asname or a.name).split(".")[0])
    changed = [False]
    s0 = f.params[0] if f.cls is not None and f.params and not getattr(f, "is_staticmethod", False) else None

    class T(ast.NodeTransformer):
        def visit_Name(self, n: ast.Name):
            if isinstance(n.ctx, ast.Load) and n.id not in local:
                r = model.resolve_name(f.module, n.id)
                if isinstance(r, tuple) and r[0] == "assign":
                    v = _module_scalar(model, r[1], r[2])
                    if v is not None:
                        changed[0] = True
                        return ast.copy_location(ast.Constant(value=v[0]), n)
            return n

        def visit_Attribute(self, n: ast.Attribute):
            if isinstance(n.ctx, ast.Load) and isinstance(n.value, ast.Name):
                cls = None
                if s0 is not None and n.value.id == s0 and s0 not in (local - set(f.params)):
                    cls = f.cls
                elif n.value.id not in local:
                    r = model.resolve_name(f.module, n.value.id)
                    from .model import ClassInfo, ModuleInfo
                    if isinstance(r, ClassInfo):
                        cls = r
                    elif isinstance(r, ModuleInfo) and n.attr in r.assigns:
                        v = _module_scalar(model, r, n.attr)
                        if v is not None:
                            changed[0] = True
                            return ast.copy_location(ast.Constant(value=v[0]), n)
                if cls is not None:
                    v = _class_scalar(model, cls, n.attr)
                    if v is not None:
                        changed[0] = True
                        return ast.copy_location(ast.Constant(value=v[0]), n)
            return self.generic_visit(n)

    T().visit(node)
    return changed[0]

# ---------------------------------------------------------------------------------------------------------------------------
# functools.reduce over a generator  ->  the accumulating loop

_REDUCE_OPS = {"or_": ast.BitOr, "and_": ast.BitAnd, "xor": ast.BitXor, "add": ast.Add, "mul": ast.Mult}


def _reduce_to_loop(node) -> bool:
    """`x = reduce(or_, (E for i in IT), INIT)`  (also `return reduce(..)`, also through a local bound once to the generator)
       ->  `_acc = INIT; for i in IT: _acc = _acc | E; x = _acc`"""
    changed = [False]
    counter = [0]
    binds: dict = {}
    uses: dict = {}
    for n in ast.walk(node):
        if isinstance(n, ast.Name):
            (binds if isinstance(n.ctx, (ast.Store, ast.Del)) else uses).setdefault(n.id, []).append(n)

    def op_of(f: ast.AST):
        nm = f.id if isinstance(f, ast.Name) else f.attr if isinstance(f, ast.Attribute) and isinstance(f.value, ast.Name) and f.value.id == "operator" else None
        if nm in _REDUCE_OPS:
            return _REDUCE_OPS[nm]
        if isinstance(f, ast.Lambda) and len(f.args.args) == 2 and isinstance(f.body, ast.BinOp) and isinstance(f.body.left, ast.Name) \
                and isinstance(f.body.right, ast.Name) and f.body.left.id == f.args.args[0].arg and f.body.right.id == f.args.args[1].arg:
            return type(f.body.op)
        return None

    def rewrite_block(stmts: list) -> list:
        out: list = []
        pending_gen: dict = {}
        for st in stmts:
            for fld in ("body", "orelse", "finalbody"):
                v = getattr(st, fld, None)
                if isinstance(v, list) and v and isinstance(v[0], ast.stmt) and not isinstance(st, (ast.FunctionDef, ast.ClassDef)):
                    setattr(st, fld, rewrite_block(v))
            if isinstance(st, ast.Try):
                for h in st.handlers:
                    h.body = rewrite_block(h.body)
            # g = (E for ..)  bound once, used once: remembered for the reduce that consumes it
            if isinstance(st, ast.Assign) and len(st.targets) == 1 and isinstance(st.targets[0], ast.Name) and isinstance(st.value, (ast.GeneratorExp, ast.ListComp)) \
                    and len(binds.get(st.targets[0].id, [])) == 1 and len(uses.get(st.targets[0].id, [])) == 1:
                pending_gen[st.targets[0].id] = (st, len(out))
                out.append(st)
                continue
            call = st.value if isinstance(st, (ast.Assign, ast.Return)) and isinstance(getattr(st, "value", None), ast.Call) else None
            if call is not None:
                f = call.func
                is_reduce = (isinstance(f, ast.Name) and f.id == "reduce") or (isinstance(f, ast.Attribute) and f.attr == "reduce" and isinstance(f.value, ast.Name)
                                                                                and f.value.id == "functools")
                if is_reduce and len(call.args) == 3 and not call.keywords:
                    op = op_of(call.args[0])
                    gen = call.args[1]
                    drop_at = None
                    if isinstance(gen, ast.Name) and gen.id in pending_gen:
                        gst, drop_at = pending_gen[gen.id]
                        gen = gst.value
                    # reduce(lambda acc, x: F(acc, x), GEN, INIT) / reduce(lambda acc, ix: F(acc, ix[0], ix[1]), enumerate(GEN), INIT) with GEN a
                    # generator over range(N): the step is F with x := the element (and ix[0] := the loop variable, which counts from 0)
                    lam_step = None
                    lam = call.args[0]
                    if op is None and isinstance(lam, ast.Lambda) and len(lam.args.args) == 2 and not lam.args.defaults and not lam.args.vararg \
                            and not lam.args.kwarg and not lam.args.kwonlyargs:
                        a_name, p_name = lam.args.args[0].arg, lam.args.args[1].arg
                        gen2, enum = gen, False
                        if isinstance(gen2, ast.Call) and isinstance(gen2.func, ast.Name) and gen2.func.id == "enumerate" and len(gen2.args) == 1 and not gen2.keywords:
                            gen2, enum = gen2.args[0], True
                        d2 = None
                        if isinstance(gen2, ast.Name) and gen2.id in pending_gen:
                            gst2, d2 = pending_gen[gen2.id]
                            gen2 = gst2.value
                        if isinstance(gen2, (ast.GeneratorExp, ast.ListComp)) and len(gen2.generators) == 1 and not gen2.generators[0].is_async:
                            g2 = gen2.generators[0]
                            ok2 = True
                            idx = None
                            if enum:
                                ok2 = (not g2.ifs and isinstance(g2.target, ast.Name) and isinstance(g2.iter, ast.Call) and isinstance(g2.iter.func, ast.Name)
                                       and g2.iter.func.id == "range" and len(g2.iter.args) == 1 and not g2.iter.keywords)
                                idx = g2.target.id if ok2 else None
                            par: dict = {}
                            for x in ast.walk(lam.body):
                                for ch in ast.iter_child_nodes(x):
                                    par[id(ch)] = x
                            for x in ast.walk(lam.body):
                                if isinstance(x, ast.Name) and x.id == p_name and enum:
                                    pp_ = par.get(id(x))
                                    if not (isinstance(pp_, ast.Subscript) and pp_.value is x and isinstance(pp_.slice, ast.Constant) and pp_.slice.value in (0, 1)):
                                        ok2 = False
                                if isinstance(x, (ast.Lambda, ast.NamedExpr)):
                                    ok2 = False
                            # the lambda's names must not capture the generator's variable differently: the element expression is moved
                            # into the lambda body, whose only bound names are its two parameters
                            if ok2 and not (isinstance(g2.target, ast.Name) and g2.target.id in (a_name, p_name)):
                                elt2 = gen2.elt

                                class L(ast.NodeTransformer):
                                    def visit_Subscript(self, n_):
                                        if enum and isinstance(n_.value, ast.Name) and n_.value.id == p_name and isinstance(n_.slice, ast.Constant):
                                            return ast.Name(id=idx, ctx=ast.Load()) if n_.slice.value == 0 else copy.deepcopy(elt2)
                                        return self.generic_visit(n_)

                                    def visit_Name(self, n_):
                                        if n_.id == p_name and not enum:
                                            return copy.deepcopy(elt2)
                                        return n_
                                lam_step = (L().visit(copy.deepcopy(lam.body)), a_name)
                                gen = gen2
                                if d2 is not None:
                                    drop_at = d2
                    if (op is not None or lam_step is not None) and isinstance(gen, (ast.GeneratorExp, ast.ListComp)) and len(gen.generators) == 1 \
                            and not gen.generators[0].is_async:
                        g0 = gen.generators[0]
                        counter[0] += 1
                        acc = f"_red{counter[0]}"
                        if lam_step is not None:
                            class A_(ast.NodeTransformer):
                                def visit_Name(self, n_):
                                    if n_.id == lam_step[1]:
                                        return ast.Name(id=acc, ctx=n_.ctx)
                                    return n_
                            step_val = A_().visit(lam_step[0])
                        else:
                            step_val = ast.BinOp(left=ast.Name(id=acc, ctx=ast.Load()), op=op(), right=gen.elt)
                        body: list = [ast.Assign(targets=[ast.Name(id=acc, ctx=ast.Store())], value=step_val, lineno=st.lineno)]
                        for c in reversed(g0.ifs):
                            body = [ast.If(test=c, body=body, orelse=[])]
                        loop = ast.For(target=g0.target, iter=g0.iter, body=body, orelse=[], lineno=st.lineno)
                        init = ast.Assign(targets=[ast.Name(id=acc, ctx=ast.Store())], value=call.args[2], lineno=st.lineno)
                        fin: ast.stmt
                        if isinstance(st, ast.Return):
                            fin = ast.Return(value=ast.Name(id=acc, ctx=ast.Load()))
                        else:
                            fin = ast.Assign(targets=st.targets, value=ast.Name(id=acc, ctx=ast.Load()), lineno=st.lineno)
                        if drop_at is not None:
                            out[drop_at] = None  # type: ignore[call-overload]
                        for x in (init, loop, fin):
                            ast.copy_location(x, st)
                            ast.fix_missing_locations(x)
                            out.append(x)
                        changed[0] = True
                        continue
            out.append(st)
        return [x for x in out if x is not None]

    node.body = rewrite_block(node.body)
    return changed[0]

def _locally_stable(model, node, after_stmt, attr: str) -> bool:
    from .symflow import _mod_set
    pos = (getattr(after_stmt, "lineno", 0), getattr(after_stmt, "col_offset", 0))
    # only what runs between the binding and the last use of the local matters (everything, when a use sits in a loop)
    local = after_stmt.targets[0].id
    uses = [n for n in ast.walk(node) if isinstance(n, ast.Name) and n.id == local and isinstance(n.ctx, ast.Load) and hasattr(n, "lineno")]
    last = max(((n.lineno, n.col_offset) for n in uses), default=pos)
    in_loop = any(isinstance(l_, (ast.For, ast.While)) and any(u is x for x in ast.walk(l_) for u in uses) for l_ in ast.walk(node))
    if in_loop:
        last = (10 ** 9, 0)
    for n in ast.walk(node):
        if isinstance(n, ast.Attribute) and n.attr == attr and isinstance(n.ctx, (ast.Store, ast.Del)):
            return False
        if isinstance(n, ast.Call) and hasattr(n, "lineno") and pos < (n.lineno, n.col_offset) <= last:
            nm = n.func.attr if isinstance(n.func, ast.Attribute) else n.func.id if isinstance(n.func, ast.Name) else None
            if nm is None:
                return False
            if isinstance(n.func, ast.Name) and not model.methods_named(nm) and not any(nm in m_.functions for m_ in model.modules.values()):
                continue  # a builtin / class constructor of another library: cannot re-bind our attribute
            ms = _mod_set(model, nm)
            if "*" in ms or attr in ms:
                return False
    return True


def _alias_locals(model, f, node) -> bool:
    """`regs = state.register_file.registers` bound once to a plain attribute chain whose attributes are never re-bound after
    construction anywhere in the package (so the chain denotes the same object wherever it is read): the local is written out and the
    assignment dropped.  `registers[self.rs1]` and `state.register_file.registers[self.rs1]` are then one spelling."""
    sites = model._attr_sites() if hasattr(model, "_attr_sites") else None
    if sites is None or sites.get("*"):
        return False
    binds: dict = {}
    for n in ast.walk(node):
        if isinstance(n, ast.Name) and isinstance(n.ctx, (ast.Store, ast.Del)):
            binds[n.id] = binds.get(n.id, 0) + 1
        elif isinstance(n, (ast.Global, ast.Nonlocal)):
            return False
    params = set(f.params)
    cands: dict = {}
    for st in node.body:
        if isinstance(st, ast.Assign) and len(st.targets) == 1 and isinstance(st.targets[0], ast.Name) and binds.get(st.targets[0].id) == 1 \
                and st.targets[0].id not in params and isinstance(st.value, ast.Attribute):
            chain = []
            t = st.value
            while isinstance(t, ast.Attribute):
                chain.append(t.attr)
                t = t.value
            if not (isinstance(t, ast.Name) and (t.id in params) and binds.get(t.id, 0) == 0) or len(chain) < 1:
                continue
            ok = True
            for a in chain:
                d = sites.get(a)
                if d is not None and (not d["init_only"]):
                    # re-bound somewhere in the package: still the same object within *this* function when nothing here stores an
                    # attribute of that name and no call made after the binding can (callee mod-sets, by name)
                    if not _locally_stable(model, node, st, a):
                        ok = False
                if len(chain) == 1 and (d is None or d["stores"] == 0):
                    ok = False  # a single attribute: only one that is demonstrably set somewhere
                if a in {nm for k in model.classes.values() for nm in k.methods}:
                    ok = False
            if ok:
                cands[st.targets[0].id] = (st, st.value)
    if not cands:
        return False

    class T(ast.NodeTransformer):
        def visit_Name(self, n: ast.Name):
            if isinstance(n.ctx, ast.Load) and n.id in cands:
                return ast.copy_location(copy.deepcopy(cands[n.id][1]), n)
            return n
    drop = {id(st) for st, _ in cands.values()}
    node.body = [T().visit(st) for st in node.body if id(st) not in drop]
    return True

def _namedtuple_locals(model, f, node) -> bool:
    """A local whose every binding in the function is a constructor call of one typing.NamedTuple class: `layout.stages` is
    `layout[0]` whatever else the field name means in the package (the receiver is known, so the name-based exclusion of
    `_namedtuple_fields` does not apply)."""
    classes = _namedtuple_fields(model)[0]
    if not classes:
        return False
    binds: dict = {}
    for n in ast.walk(node):
        if isinstance(n, ast.Name) and isinstance(n.ctx, (ast.Store, ast.Del)):
            binds.setdefault(n.id, []).append(n)
    params = set(f.params)
    ctor: dict = {}
    for n in ast.walk(node):
        tgt = n.targets[0] if isinstance(n, ast.Assign) and len(n.targets) == 1 else n.target if isinstance(n, ast.AnnAssign) and n.value is not None else None
        if isinstance(tgt, ast.Name) and tgt.id not in params:
            v = n.value
            fn_ = v.func if isinstance(v, ast.Call) else None
            fn_ = fn_.value if isinstance(fn_, ast.Subscript) else fn_
            k = model.resolve_name(f.module, fn_.id) if isinstance(fn_, ast.Name) else None
            q = getattr(k, "qname", None)
            ctor.setdefault(tgt.id, []).append(q if q in classes else None)
    local_cls = {nm: qs[0] for nm, qs in ctor.items() if qs and all(q is not None and q == qs[0] for q in qs) and len(qs) == len(binds.get(nm, []))}
    if not local_cls:
        return False
    changed = [False]

    class T(ast.NodeTransformer):
        def visit_Attribute(self, n: ast.Attribute):
            self.generic_visit(n)
            if isinstance(n.ctx, ast.Load) and isinstance(n.value, ast.Name) and n.value.id in local_cls:
                fields = classes[local_cls[n.value.id]][0]
                if n.attr in fields:
                    changed[0] = True
                    return ast.copy_location(ast.Subscript(value=n.value, slice=ast.Constant(value=fields.index(n.attr)), ctx=ast.Load()), n)
            return n
    node.body = [T().visit(st) for st in node.body]
    return changed[0]


def _nested_generators(node) -> bool:
    """A parameterless generator function defined inside a function and consumed once, by the very next statement:

        def parts():                     _gy1 = []
            for i in range(n):           for i in range(n):
                yield f(i)        ->         _gy1.append(f(i))
        return g(parts())                return g(_gy1)

    The closure reads the enclosing locals at the time it runs, which is the next statement -- nothing can have been rebound; the
    elements are produced in the same order (what the consumer does between two of them must not matter: it is required to be one of
    reduce / sum / list / tuple / sorted / min / max / any-free folds over pure operators, i.e. a call whose other arguments hold no
    call)."""
    changed = [False]
    counter = [0]

    def rewrite(block: list) -> list:
        out: list = []
        k = 0
        while k < len(block):
            st = block[k]
            for fld in ("body", "orelse", "finalbody"):
                v = getattr(st, fld, None)
                if isinstance(v, list) and v and isinstance(v[0], ast.stmt) and not isinstance(st, (ast.FunctionDef, ast.AsyncFunctionDef, ast.ClassDef)):
                    setattr(st, fld, rewrite(v))
            if isinstance(st, ast.FunctionDef) and not st.decorator_list and k + 1 < len(block) \
                    and not (st.args.args or st.args.posonlyargs or st.args.kwonlyargs or st.args.vararg or st.args.kwarg):
                inner = [n for b in st.body for n in ast.walk(b)]
                yields = [n for n in inner if isinstance(n, ast.Yield)]
                bad = any(isinstance(n, (ast.YieldFrom, ast.Return, ast.FunctionDef, ast.Lambda, ast.Nonlocal, ast.Global, ast.Await)) for n in inner)
                stmt_yields = [n for n in inner if isinstance(n, ast.Expr) and isinstance(n.value, ast.Yield) and n.value.value is not None]
                nxt = block[k + 1]
                uses = [n for n in ast.walk(node) if isinstance(n, ast.Name) and n.id == st.name and isinstance(n.ctx, ast.Load)]
                calls = [n for n in ast.walk(nxt) if isinstance(n, ast.Call) and isinstance(n.func, ast.Name) and n.func.id == st.name and not n.args and not n.keywords]
                consumer = None
                for n in ast.walk(nxt):
                    if isinstance(n, ast.Call) and calls and any(a is calls[0] for a in n.args):
                        consumer = n
                ok = yields and not bad and len(stmt_yields) == len(yields) and len(uses) == 1 and len(calls) == 1 and consumer is not None
                if ok:
                    fn_ = consumer.func
                    nm = fn_.id if isinstance(fn_, ast.Name) else fn_.attr if isinstance(fn_, ast.Attribute) else None
                    others = [a for a in consumer.args if a is not calls[0]] + [kw.value for kw in consumer.keywords]
                    ok = nm in ("reduce", "sum", "list", "tuple", "sorted", "min", "max") and not any(isinstance(x, (ast.Call, ast.Lambda)) for o in others for x in ast.walk(o))
                gbody = [b for b in st.body if not (isinstance(b, ast.Expr) and isinstance(b.value, ast.Constant))] if ok else []
                if ok and len(gbody) == 1 and isinstance(gbody[0], ast.For) and not gbody[0].orelse and len(gbody[0].body) == 1 \
                        and isinstance(gbody[0].body[0], ast.Expr) and isinstance(gbody[0].body[0].value, ast.Yield):
                    # `for T in IT: yield E` is the generator expression `(E for T in IT)`
                    ge = ast.GeneratorExp(elt=gbody[0].body[0].value.value,
                                          generators=[ast.comprehension(target=gbody[0].target, iter=gbody[0].iter, ifs=[], is_async=0)])

                    class C0(ast.NodeTransformer):
                        def visit_Call(self, n: ast.Call):
                            if n is calls[0]:
                                return ast.copy_location(ge, n)
                            return self.generic_visit(n)
                    out.append(C0().visit(nxt))
                    changed[0] = True
                    k += 2
                    continue
                if ok:
                    counter[0] += 1
                    acc = f"_gy{counter[0]}"

                    class Y(ast.NodeTransformer):
                        def visit_Expr(self, n: ast.Expr):
                            if isinstance(n.value, ast.Yield):
                                return ast.copy_location(ast.Expr(value=ast.Call(func=ast.Attribute(value=ast.Name(id=acc, ctx=ast.Load()), attr="append", ctx=ast.Load()),
                                                                                 args=[n.value.value], keywords=[])), n)
                            return n
                    body = [Y().visit(b) for b in st.body if not (isinstance(b, ast.Expr) and isinstance(b.value, ast.Constant))]
                    out.append(ast.copy_location(ast.Assign(targets=[ast.Name(id=acc, ctx=ast.Store())], value=ast.List(elts=[], ctx=ast.Load())), st))
                    out.extend(body)

                    class C(ast.NodeTransformer):
                        def visit_Call(self, n: ast.Call):
                            if n is calls[0]:
                                return ast.copy_location(ast.Name(id=acc, ctx=ast.Load()), n)
                            return self.generic_visit(n)
                    out.append(C().visit(nxt))
                    changed[0] = True
                    k += 2
                    continue
            out.append(st)
            k += 1
        return out

    node.body = rewrite(node.body)
    if changed[0]:
        ast.fix_missing_locations(node)
    return changed[0]


def _while_to_for(node) -> bool:
    """`i = A; while i < B: BODY; i += 1`  ->  `for i in range(A, B): BODY`   (also `i != B` / `B > i`; a count-down `i = A; while i > 0:
    BODY; i -= 1` that never reads i  ->  `for _ in range(A)`), when i is bound nowhere else in the loop, the bound is not changed by the
    body, there is no `continue` (it would skip the step), and i is not read after the loop."""
    changed = [False]

    def names(e: ast.AST) -> set:
        return {x.id for x in ast.walk(e) if isinstance(x, ast.Name)}

    def reads_after(block: list, k: int, var: str) -> bool:
        # conservative: any later read of var in the enclosing function after this statement (source order)
        st = block[k]
        end = (getattr(st, "end_lineno", None) or getattr(st, "lineno", 0), getattr(st, "end_col_offset", 0))
        for n in ast.walk(node):
            if isinstance(n, ast.Name) and n.id == var and isinstance(n.ctx, ast.Load) and hasattr(n, "lineno") and (n.lineno, n.col_offset) > end:
                return True
        # inside an enclosing loop a "later" read also happens in the next iteration: the init statement re-binds it first, fine
        return False

    def rewrite(block: list) -> list:
        out: list = []
        k = 0
        while k < len(block):
            st = block[k]
            for fld in ("body", "orelse", "finalbody"):
                v = getattr(st, fld, None)
                if isinstance(v, list) and v and isinstance(v[0], ast.stmt) and not isinstance(st, (ast.FunctionDef, ast.AsyncFunctionDef, ast.ClassDef)):
                    setattr(st, fld, rewrite(v))
            if isinstance(st, ast.Try):
                for h in st.handlers:
                    h.body = rewrite(h.body)
            done = False
            if isinstance(st, ast.While) and not st.orelse and out and isinstance(out[-1], ast.Assign) and len(out[-1].targets) == 1 \
                    and isinstance(out[-1].targets[0], ast.Name) and st.body:
                i = out[-1].targets[0].id
                init = out[-1].value
                t = st.test
                last = st.body[-1]
                body = st.body[:-1]
                step = None
                if isinstance(last, ast.AugAssign) and isinstance(last.target, ast.Name) and last.target.id == i and isinstance(last.value, ast.Constant) \
                        and last.value.value == 1 and isinstance(last.op, (ast.Add, ast.Sub)):
                    step = 1 if isinstance(last.op, ast.Add) else -1
                bound = None
                if step == 1 and isinstance(t, ast.Compare) and len(t.ops) == 1:
                    l_, r_ = t.left, t.comparators[0]
                    if isinstance(t.ops[0], (ast.Lt, ast.NotEq)) and isinstance(l_, ast.Name) and l_.id == i:
                        bound = r_
                    elif isinstance(t.ops[0], ast.Gt) and isinstance(r_, ast.Name) and r_.id == i:
                        bound = l_
                    if isinstance(t.ops[0], ast.NotEq) and not (isinstance(init, ast.Constant) and init.value == 0):
                        bound = None  # `!=` only equals `<` when the start cannot be beyond the bound
                countdown = False
                if step == -1 and isinstance(t, ast.Compare) and len(t.ops) == 1 and isinstance(t.left, ast.Name) and t.left.id == i \
                        and isinstance(t.comparators[0], ast.Constant) and ((isinstance(t.ops[0], ast.Gt) and t.comparators[0].value == 0)
                                                                             or (isinstance(t.ops[0], ast.GtE) and t.comparators[0].value == 1)
                                                                             or (isinstance(t.ops[0], ast.NotEq) and t.comparators[0].value == 0 and False)):
                    countdown = not any(isinstance(n, ast.Name) and n.id == i for b_ in body for n in ast.walk(b_))
                descending = False
                if step == -1 and not countdown and isinstance(t, ast.Compare) and len(t.ops) == 1 and isinstance(t.left, ast.Name) and t.left.id == i:
                    c_ = t.comparators[0]
                    cv = -c_.operand.value if isinstance(c_, ast.UnaryOp) and isinstance(c_.op, ast.USub) and isinstance(c_.operand, ast.Constant) \
                        and isinstance(c_.operand.value, int) else c_.value if isinstance(c_, ast.Constant) and isinstance(c_.value, int) else None
                    # `i = A; while i >= 0: BODY; i -= 1`  ->  `for i in range(A, -1, -1): BODY`
                    descending = (isinstance(t.ops[0], ast.GtE) and cv == 0) or (isinstance(t.ops[0], ast.Gt) and cv == -1)
                predec = False
                first = st.body[0]
                if step is None and len(st.body) >= 2 and isinstance(first, ast.AugAssign) and isinstance(first.target, ast.Name) and first.target.id == i \
                        and isinstance(first.op, ast.Sub) and isinstance(first.value, ast.Constant) and first.value.value == 1 \
                        and isinstance(t, ast.Compare) and len(t.ops) == 1 and isinstance(t.left, ast.Name) and t.left.id == i \
                        and isinstance(t.comparators[0], ast.Constant) and ((isinstance(t.ops[0], ast.Gt) and t.comparators[0].value == 0)
                                                                             or (isinstance(t.ops[0], ast.GtE) and t.comparators[0].value == 1)):
                    # `i = A; while i > 0: i -= 1; BODY`  ->  `for i in range(A - 1, -1, -1): BODY`   (the step comes first, so a
                    # `continue` in BODY is harmless)
                    predec = True
                    body = st.body[1:]
                ok = (bound is not None or countdown or descending or predec) and body
                if ok:
                    for b_ in body:
                        for n in ast.walk(b_):
                            if isinstance(n, ast.Name) and n.id == i and isinstance(n.ctx, (ast.Store, ast.Del)):
                                ok = False
                            if isinstance(n, ast.Continue) and not predec:
                                ok = False
                            if bound is not None and isinstance(n, ast.Name) and isinstance(n.ctx, (ast.Store, ast.Del)) and n.id in names(bound):
                                ok = False
                    if bound is not None and (i in names(bound) or any(isinstance(x, ast.Call) for x in ast.walk(bound))):
                        ok = False
                    if reads_after(block, k, i):
                        ok = False
                if ok:
                    if countdown:
                        rng = ast.Call(func=ast.Name(id="range", ctx=ast.Load()), args=[init], keywords=[])
                        tgt = ast.Name(id="_", ctx=ast.Store())
                    elif descending or predec:
                        m1 = ast.UnaryOp(op=ast.USub(), operand=ast.Constant(value=1))
                        start = ast.BinOp(left=init, op=ast.Sub(), right=ast.Constant(value=1)) if predec else init
                        rng = ast.Call(func=ast.Name(id="range", ctx=ast.Load()), args=[start, m1, copy.deepcopy(m1)], keywords=[])
                        tgt = ast.Name(id=i, ctx=ast.Store())
                    else:
                        args = [bound] if (isinstance(init, ast.Constant) and init.value == 0) else [init, bound]
                        rng = ast.Call(func=ast.Name(id="range", ctx=ast.Load()), args=args, keywords=[])
                        tgt = ast.Name(id=i, ctx=ast.Store())
                    new = ast.copy_location(ast.For(target=tgt, iter=rng, body=body, orelse=[], lineno=st.lineno), st)
                    ast.fix_missing_locations(new)
                    out.pop()  # the initialisation is the range's start
                    out.append(new)
                    changed[0] = True
                    done = True
            if not done:
                out.append(st)
            k += 1
        return out

    node.body = rewrite(node.body)
    return changed[0]

def _offset_ranges(node) -> bool:
    """`for a in range(S, S + N): BODY`  (S not a constant)  ->  `for _ro in range(N): BODY[a := S + _ro]`  -- the loop runs N times
    whatever S is; engines that unroll loops need the count, not the start.  a must not be rebound in the body, S and N not changed by it."""
    changed = [False]
    counter = [0]

    class T(ast.NodeTransformer):
        def visit_For(self, n: ast.For):
            self.generic_visit(n)
            it = n.iter
            if not (isinstance(n.target, ast.Name) and isinstance(it, ast.Call) and isinstance(it.func, ast.Name) and it.func.id == "range"
                    and len(it.args) == 2 and not it.keywords and not n.orelse):
                return n
            S, E = it.args
            if isinstance(S, ast.Constant):
                return n
            N = None
            if isinstance(E, ast.BinOp) and isinstance(E.op, ast.Add):
                if ast.dump(E.left) == ast.dump(S):
                    N = E.right
                elif ast.dump(E.right) == ast.dump(S):
                    N = E.left
            if N is None:
                return n
            a = n.target.id
            free = {x.id for x in ast.walk(S) if isinstance(x, ast.Name)} | {x.id for x in ast.walk(N) if isinstance(x, ast.Name)}
            for st in n.body:
                for x in ast.walk(st):
                    if isinstance(x, ast.Name) and isinstance(x.ctx, (ast.Store, ast.Del)) and (x.id == a or x.id in free):
                        return n
            if any(isinstance(x, ast.Call) for x in ast.walk(S)):
                return n
            counter[0] += 1
            i = f"_ro{counter[0]}"
            repl = ast.BinOp(left=copy.deepcopy(S), op=ast.Add(), right=ast.Name(id=i, ctx=ast.Load()))

            class R(ast.NodeTransformer):
                def visit_Name(self, x: ast.Name):
                    if x.id == a and isinstance(x.ctx, ast.Load):
                        return ast.copy_location(copy.deepcopy(repl), x)
                    return x
            new = copy.copy(n)
            new.target = ast.Name(id=i, ctx=ast.Store())
            new.iter = ast.Call(func=ast.Name(id="range", ctx=ast.Load()), args=[N], keywords=[])
            new.body = [R().visit(copy.deepcopy(st)) for st in n.body]
            changed[0] = True
            return ast.copy_location(new, n)

    T().visit(node)
    ast.fix_missing_locations(node)
    return changed[0]


def canonicalise(model, f) -> bool:
    """Rewrite f.node in place (a copy); returns True when something changed."""
    node = copy.deepcopy(f.node)
    named = _named_constants(model, f, node)
    named = _alias_locals(model, f, node) or named
    if any(isinstance(n, ast.While) for n in ast.walk(node)):
        named = _while_to_for(node) or named
    if any(isinstance(n, ast.For) and isinstance(n.iter, ast.Call) and isinstance(n.iter.func, ast.Name) and n.iter.func.id == "range" and len(n.iter.args) == 2
           for n in ast.walk(node)):
        named = _offset_ranges(node) or named
    if any(isinstance(n, (ast.FunctionDef,)) and n is not node for n in ast.walk(node)):
        named = _nested_generators(node) or named
    if any(isinstance(n, (ast.Name, ast.Attribute)) and (getattr(n, "id", None) == "reduce" or getattr(n, "attr", None) == "reduce") for n in ast.walk(node)):
        named = _reduce_to_loop(node) or named
    named = _namedtuple_locals(model, f, node) or named
    if any(isinstance(n, ast.Name) and n.id == "enumerate" for n in ast.walk(node)):
        from . import loopnorm as _ln
        if _ln.NONZERO_ATTR is not None:
            before = ast.dump(node)
            node2 = _ln._EnumRangeSym(node).visit(node)
            if ast.dump(node2) != before:
                node = node2
                ast.fix_missing_locations(node)
                named = True
    # the tables are looked up in the function as it stands now (named constants already written out: `Kind.A` as a key is its number)
    from .model import FuncInfo as _FI
    f_now = _FI(f.name, f.qname, node, f.module, f.cls)
    if "raw_node" in f.__dict__:
        f_now.__dict__["raw_node"] = f.__dict__["raw_node"]
    tables = Tables(model, f_now if named else f)
    ex = _Expr(tables)
    # statement level first on the original expressions (so `a, b = T[k]` is still a subscript), then expressions
    st = _Stmt(tables)
    node.body = st.block(node.body)
    if _densified_dict(node):
        st.changed = True
    node = ex.visit(node)
    # the expression pass may have produced `if k == .. or k == ..:` around a chain: fold it
    if ex.changed:
        st2 = _Stmt(tables)
        node.body = st2.block(node.body)
        st.changed = st.changed or st2.changed
    if ex.changed or st.changed:
        # a statement rewritten above (a split tuple assignment) may have produced another alias local
        named = _alias_locals(model, f, node) or named
    if not (ex.changed or st.changed or named):
        return False
    _prune_covered_misses(node.body, {})
    ast.fix_missing_locations(node)
    f.__dict__.setdefault("raw_node", f.node)
    f.node = node
    return True
