"""Reference formulations of the flat instruction memory (shared by C04 / C14), compared through sa.flowspec."""
from __future__ import annotations

from .flowspec import compare
from .report import Ctx

REPR_REF = '''
def get_representation(self):
    return [(address, str(instr)) for address, instr in sorted(self.instructions.items(), key=lambda el: el[0])]
'''

WRITE_ALL_REF = '''
def write_instructions(self, instructions):
    self.instructions = {}
    next_address = self.address_range.start
    for instr in instructions:
        self.write_instruction(next_address, instr=instr)
        next_address += instr.length
'''


def listing_rule(ctx: Ctx, r) -> None:
    m = ctx.model
    compare(r, m, m.method("InstructionMemory", "get_representation"), REPR_REF, "InstructionMemory.get_representation",
            what="the listing is computed from the stored instructions every time: (address, str(instruction)) in address order, and "
                 "nothing is cached or written")


def store_rule(ctx: Ctx, r) -> None:
    m = ctx.model
    compare(r, m, m.method("InstructionMemory", "write_instructions"), WRITE_ALL_REF, "InstructionMemory.write_instructions",
            what="the program replaces whatever was stored (the dict is emptied first) and instruction i+1 follows instruction i "
                 "from the first address of the instruction memory")
