"""What an instruction-format constructor stores as its immediate, as a bit-slice form.

The constructor is run by `sa.absrun` with the immediate parameter symbolic; locals (a mask, a sign
bit, the result of an inlined helper) are propagated, so how the reduction is spelled does not matter.
"""
from __future__ import annotations

import ast

from .absrun import AbsRun
from .bitslice import Form, Inconclusive
from .model import AnalysisError, ClassInfo, Model


def stored_imm(model: Model, c: ClassInfo, attr: str, param: str, rid: str):
    """-> (init FuncInfo, Form stored last into self.<attr>, node)"""
    init = model.method(c, "__init__", own=True)
    if param not in init.params:
        raise AnalysisError(f"anchor vanished: parameter {param} of {c.name}.__init__")
    s0 = init.params[0]
    last: list = []

    def on_store(t, v, ev):
        if isinstance(t, ast.Attribute) and t.attr == attr and isinstance(t.value, ast.Name) and t.value.id == s0:
            last.append((v, t))
            return True
        return False

    run = AbsRun(model, init, {param: Form.var(param)}, {}, on_store=on_store)
    run.lenient = True
    try:
        run.run()
    except Inconclusive as exc:
        raise AnalysisError(f"{rid}: {c.name}.__init__ is outside the abstract interpreter: {exc}")
    if not last:
        raise AnalysisError(f"anchor vanished: {c.name}.__init__ assignment of self.{attr}")
    v, t = last[-1]
    if isinstance(v, Inconclusive):
        raise AnalysisError(f"{rid}: {c.name}.{attr} is outside the bit-slice domain: {v}")
    return init, v, t
