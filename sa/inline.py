"""AST-level inlining of same-object helper methods (so that "extract method" does not hide code from path rules).

`inline_view(model, f, want)` returns a FuncInfo whose body is `f`'s body with every call

    self.helper(args...)            (statement, `x = ...`, `a, b = ...`, `return ...`)
    ... self.helper(args) ...       (anywhere, when the helper is a single `return <expr>`)

replaced by the helper's body, provided

  * the receiver is `f`'s own first parameter and `helper` resolves to exactly one definition for
    `f`'s class (class-hierarchy dispatch),
  * `want(helper)` says the caller's rule is interested (typically: "not one of today's known anchors"),
  * the helper's returns can be structured away (they sit at the end of if/else chains, not in loops
    or try blocks), it is not a generator / nested-scope user, and the nesting depth is bounded.

Parameters are substituted by the argument expression when that is a name, constant or attribute
chain and otherwise bound to a fresh local first; the helper's locals get a fresh prefix.  Line
numbers of inlined statements stay those of the helper (diagnostics point into the helper).
"""
from __future__ import annotations

import ast
import copy
from typing import Callable, Optional

from .model import FuncInfo, Model, body_without_docstring

MAX_DEPTH = 4


class _Rename(ast.NodeTransformer):
    def __init__(self, mapping: dict) -> None:
        self.mapping = mapping

    def visit_Name(self, node: ast.Name):
        v = self.mapping.get(node.id)
        if v is None:
            return node
        if isinstance(v, str):
            return ast.copy_location(ast.Name(id=v, ctx=node.ctx), node)
        if isinstance(node.ctx, ast.Load):
            return ast.copy_location(copy.deepcopy(v), node)
        return node

    def visit_ExceptHandler(self, node: ast.ExceptHandler):
        # `except E as e` binds e through a string field, not a Name node
        self.generic_visit(node)
        v = self.mapping.get(node.name) if node.name else None
        if isinstance(v, str):
            node = copy.copy(node)
            node.name = v
        return node


def _simple(e: ast.AST) -> bool:
    if isinstance(e, (ast.Name, ast.Constant)):
        return True
    if isinstance(e, ast.Attribute):
        return _simple(e.value)
    if isinstance(e, ast.UnaryOp) and isinstance(e.op, (ast.USub, ast.Not)):
        return _simple(e.operand)
    return False


def _locals_of(fn: ast.FunctionDef) -> set:
    out = set()
    for n in ast.walk(fn):
        if isinstance(n, ast.Name) and isinstance(n.ctx, (ast.Store, ast.Del)):
            out.add(n.id)
        elif isinstance(n, ast.ExceptHandler) and n.name:
            out.add(n.name)
    return out


def _comprehension_only_names(fn: ast.FunctionDef) -> set:
    inside = set()
    for n in ast.walk(fn):
        if isinstance(n, ast.comprehension):
            for x in ast.walk(n.target):
                if isinstance(x, ast.Name):
                    inside.add(id(x))
    comp = set()
    other = set()
    for n in ast.walk(fn):
        if isinstance(n, ast.Name) and isinstance(n.ctx, (ast.Store, ast.Del)):
            (comp if id(n) in inside else other).add(n.id)
    return comp - other


def _unsupported(fn: ast.FunctionDef) -> bool:
    for n in ast.walk(fn):
        if n is fn:
            continue
        if isinstance(n, (ast.Yield, ast.YieldFrom, ast.Await, ast.FunctionDef, ast.AsyncFunctionDef, ast.ClassDef,
                          ast.Global, ast.Nonlocal)):
            return True
        if isinstance(n, ast.Call) and isinstance(n.func, ast.Name) and n.func.id in ("super", "locals", "vars"):
            return True
    return False


class _NoStructure(Exception):
    pass


def _contains_return(stmts) -> bool:
    for s in stmts:
        for n in ast.walk(s):
            if isinstance(n, ast.Return):
                return True
    return False


def _always_leaves(stmts) -> bool:
    if not stmts:
        return False
    last = stmts[-1]
    if isinstance(last, (ast.Return, ast.Raise)):
        return True
    if isinstance(last, ast.If):
        return _always_leaves(last.body) and _always_leaves(last.orelse)
    return False


def _structure(stmts: list, emit: Callable[[Optional[ast.expr], ast.AST], list]) -> list:
    """Rewrite `return v` into emit(v) and push the statements after a returning `if` into its other arm."""
    out: list = []
    for i, s in enumerate(stmts):
        if isinstance(s, ast.Return):
            out.extend(emit(s.value, s))
            return out  # anything after is dead
        if not _contains_return([s]):
            out.append(s)
            continue
        if isinstance(s, ast.If):
            rest = stmts[i + 1:]
            b_leaves, o_leaves = _always_leaves(s.body), _always_leaves(s.orelse)
            new = copy.copy(s)
            if b_leaves and o_leaves:
                new.body = _structure(s.body, emit)
                new.orelse = _structure(s.orelse, emit)
                out.append(new)
                return out
            if b_leaves:
                new.body = _structure(s.body, emit)
                new.orelse = _structure(list(s.orelse) + rest, emit) or []
                if not new.body:
                    new.body = [ast.copy_location(ast.Pass(), s)]
                out.append(new)
                return out
            if o_leaves:
                new.orelse = _structure(s.orelse, emit)
                new.body = _structure(list(s.body) + rest, emit)
                if not new.body:
                    new.body = [ast.copy_location(ast.Pass(), s)]
                out.append(new)
                return out
            # a return somewhere inside an arm that can also fall through (if A: .. elif B: .. else: return X; REST): what follows
            # the `if` runs after every arm that falls through -- it is written into both arms
            new.body = _structure(list(s.body) + copy.deepcopy(rest), emit) or [ast.copy_location(ast.Pass(), s)]
            new.orelse = _structure(list(s.orelse) + copy.deepcopy(rest), emit)
            out.append(new)
            return out
        if isinstance(s, (ast.For, ast.While)) and not s.orelse and _loop_returns_ok(s):
            # search loop: `for ..: if c: return v`  ->  flag = False; for ..: if c: <emit v>; flag = True; break
            #              <rest>                         if not flag: <rest>
            _structure.counter = getattr(_structure, "counter", 0) + 1  # type: ignore[attr-defined]
            flag = f"_inl_left{_structure.counter}"  # type: ignore[attr-defined]

            def in_loop(v, at, _emit=emit, _flag=flag):
                res = _emit(v, at)
                if res and isinstance(res[-1], ast.Return):
                    return res  # caller wants a plain return: leaving the loop that way is fine
                return res + [ast.copy_location(ast.Assign(targets=[ast.Name(id=_flag, ctx=ast.Store())], value=ast.Constant(value=True), lineno=at.lineno), at),
                              ast.copy_location(ast.Break(), at)]

            new_loop = copy.copy(s)
            new_loop.body = _replace_returns(s.body, in_loop)
            rest = _structure(stmts[i + 1:], emit)
            out.append(ast.copy_location(ast.Assign(targets=[ast.Name(id=flag, ctx=ast.Store())], value=ast.Constant(value=False), lineno=s.lineno), s))
            out.append(new_loop)
            if rest:
                guard = ast.copy_location(ast.If(test=ast.UnaryOp(op=ast.Not(), operand=ast.Name(id=flag, ctx=ast.Load())), body=rest, orelse=[]), s)
                out.append(guard)
            return out
        if isinstance(s, ast.Try) and not s.finalbody and not s.orelse:
            # try: ...; return X  except E: raise/return  ->  the same try with the returns emitted in place; whatever follows
            # the try in the helper is unreachable when every arm leaves
            arms_leave = _always_leaves(s.body) and all(_always_leaves(h.body) for h in s.handlers)
            if arms_leave:
                new_try = copy.copy(s)
                new_try.body = _structure(s.body, emit) or [ast.copy_location(ast.Pass(), s)]
                hs = []
                for h in s.handlers:
                    h2 = copy.copy(h)
                    h2.body = _structure(h.body, emit) or [ast.copy_location(ast.Pass(), s)]
                    hs.append(h2)
                new_try.handlers = hs
                out.append(new_try)
                return out
        raise _NoStructure()  # a return inside a nested loop / with / match / try-finally
    return out


def _loop_returns_ok(loop) -> bool:
    """Returns sit in the loop body under plain ifs only (no nested loop, try, with, match)."""
    def ok(stmts) -> bool:
        for s in stmts:
            if isinstance(s, ast.If):
                if not ok(s.body) or not ok(s.orelse):
                    return False
            elif _contains_return([s]) and not isinstance(s, ast.Return):
                return False
        return True
    return ok(loop.body)


def _replace_returns(stmts, emit) -> list:
    out: list = []
    for s in stmts:
        if isinstance(s, ast.Return):
            out.extend(emit(s.value, s))
            return out
        if isinstance(s, ast.If) and _contains_return([s]):
            n = copy.copy(s)
            n.body = _replace_returns(s.body, emit) or [ast.copy_location(ast.Pass(), s)]
            n.orelse = _replace_returns(s.orelse, emit)
            out.append(n)
        else:
            out.append(s)
    return out


class Inliner:
    def __init__(self, model: Model, want: Callable[[FuncInfo], bool]) -> None:
        self.model = model
        self.want = want
        self.counter = 0
        self.inlined: list[str] = []

    def resolve(self, f: FuncInfo, call: ast.Call) -> Optional[FuncInfo]:
        fn = call.func
        h: Optional[FuncInfo] = None
        if isinstance(fn, ast.Attribute) and isinstance(fn.value, ast.Name):
            recv = fn.value.id
            if f.cls is not None and f.params and not f.is_staticmethod and recv == f.params[0]:
                targets = self.model.dispatch(f.cls, fn.attr)
                if len(targets) == 1:
                    h = next(iter(targets))
                    if h.is_classmethod and not f.is_classmethod:
                        h = None
            else:
                k = self.model.resolve_name(f.module, recv)
                if hasattr(k, "methods"):
                    h = self.model.lookup(k, fn.attr)  # Class.static_helper(...)
                    if h is not None and not h.is_staticmethod:
                        h = None
        elif isinstance(fn, ast.Name):
            k = self.model.resolve_name(f.module, fn.id)
            if isinstance(k, FuncInfo) and k.cls is None:
                h = k
        if h is None and isinstance(fn, ast.Attribute) and _simple(fn.value) and not (isinstance(fn.value, ast.Name) and fn.value.id in ("super",)):
            # a method of *another* object (self.state.fetch_next(), state.memory.helper()): inlined when the name has exactly
            # one definition in the package and that definition is wanted (a helper that is not on the confirmed tree)
            cands = [g for g in self.model.methods_named(fn.attr)]
            known = getattr(self.model, "known_functions", None)
            if len(cands) == 1 and not cands[0].is_staticmethod and not cands[0].is_classmethod and cands[0].cls is not None \
                    and known is not None and ".".join(cands[0].qname.split(".")[-2:]) not in known:
                h = cands[0]
                self._other_receiver = True
        if h is None or h is f:
            return None
        if any(d not in ("staticmethod",) for d in h.decorators):
            return None
        if not self.want(h):
            return None
        if any(isinstance(a, ast.Starred) for a in call.args) or any(k.arg is None for k in call.keywords):
            return None
        a = h.node.args
        if a.vararg or a.kwarg or a.posonlyargs:
            return None
        if _unsupported(h.node):
            return None
        if h.module is not f.module:
            # a module-level helper sees its own module's globals: only inline when it uses none that differ
            for n in ast.walk(h.node):
                if isinstance(n, ast.Name) and isinstance(n.ctx, ast.Load) and n.id not in _locals_of(h.node) \
                        and n.id not in [x.arg for x in a.args + a.kwonlyargs]:
                    if self.model.resolve_name(h.module, n.id) is not self.model.resolve_name(f.module, n.id):
                        import builtins
                        if hasattr(builtins, n.id):
                            continue
                        # a constant of the helper's module (a message table, a tuple of classes) that the caller's module does not
                        # define: made visible there under the same name
                        if n.id in h.module.assigns and f.module.assigns.get(n.id) is h.module.assigns[n.id]:
                            continue  # made visible earlier
                        # a name the helper's module imports (from copy import copy) and the caller's module does not know
                        if n.id in h.module.imports and (n.id not in f.module.imports or f.module.imports[n.id] == h.module.imports[n.id]) \
                                and n.id not in f.module.assigns and n.id not in f.module.classes and n.id not in f.module.functions:
                            f.module.imports[n.id] = h.module.imports[n.id]
                            continue
                        # a class / function the helper's module defines and the caller's module does not know (the caller used to
                        # import LRU and PLRU itself, now it imports the helper that names them): made visible as an import
                        if (n.id in h.module.classes or n.id in h.module.functions) and self.model.resolve_name(f.module, n.id) is None \
                                and ".".join(h.qname.split(".")[-2:]) not in (getattr(self.model, "known_functions", None) or {".".join(h.qname.split(".")[-2:])}):
                            f.module.imports[n.id] = h.module.name + "." + n.id
                            continue
                        if n.id in h.module.assigns and n.id not in f.module.assigns and self.model.resolve_name(f.module, n.id) is None \
                                and isinstance(h.module.assigns[n.id], (ast.Dict, ast.Tuple, ast.List, ast.Set, ast.Constant)):
                            f.module.assigns[n.id] = h.module.assigns[n.id]
                            continue
                        return None
        return h

    def _bind(self, h: FuncInfo, call: ast.Call, selfname: str) -> Optional[tuple[dict, list]]:
        a = h.node.args
        has_self = h.cls is not None and not h.is_staticmethod
        params = [x.arg for x in a.args][1:] if has_self else [x.arg for x in a.args]
        kwonly = [x.arg for x in a.kwonlyargs]
        defaults = dict(zip(reversed(params), reversed(a.defaults)))
        for x, d in zip(a.kwonlyargs, a.kw_defaults):
            if d is not None:
                defaults[x.arg] = d
        given: dict = {}
        if len(call.args) > len(params):
            return None
        for p, v in zip(params, call.args):
            given[p] = v
        for k in call.keywords:
            if k.arg in given or k.arg not in params + kwonly:
                return None
            given[k.arg] = k.value
        self.counter += 1
        pre = f"_inl{self.counter}_"
        mapping: dict = {h.params[0]: selfname} if has_self else {}
        recv = call.func.value if isinstance(call.func, ast.Attribute) else None
        if has_self and recv is not None and not (isinstance(recv, ast.Name) and recv.id == selfname):
            mapping[h.params[0]] = recv  # x.y.helper(..): the helper's self is x.y
        setup: list = []
        stored = _locals_of(h.node)
        for p in params + kwonly:
            v = given.get(p, defaults.get(p))
            if v is None:
                return None
            if _simple(v) and p not in stored:
                mapping[p] = v
            else:
                tmp = pre + p
                setup.append(ast.copy_location(ast.Assign(targets=[ast.Name(id=tmp, ctx=ast.Store())], value=copy.deepcopy(v), lineno=call.lineno), call))
                mapping[p] = tmp
        # names bound only inside comprehensions live in the comprehension's own scope: they keep their name unless an
        # argument expression that is substituted into the helper mentions the same name (capture)
        comp_only = _comprehension_only_names(h.node)
        arg_names = set()
        for v in mapping.values():
            if not isinstance(v, str):
                arg_names |= {n.id for n in ast.walk(v) if isinstance(n, ast.Name)}
        for l in stored:
            if l not in mapping or not isinstance(mapping.get(l), str):
                if l in params + kwonly:
                    continue
                if l in comp_only and l not in arg_names:
                    continue
                mapping[l] = pre + l
        return mapping, setup

    def expand_stmt(self, f: FuncInfo, st: ast.stmt, depth: int) -> Optional[list]:
        """Statement-level inlining; None when `st` is not an inlinable helper call."""
        call = None
        if isinstance(st, ast.Expr) and isinstance(st.value, ast.Call):
            call, mode = st.value, "expr"
        elif isinstance(st, ast.Assign) and isinstance(st.value, ast.Call):
            call, mode = st.value, "assign"
        elif isinstance(st, ast.AnnAssign) and isinstance(st.value, ast.Call):
            call, mode = st.value, "annassign"
        elif isinstance(st, ast.Return) and isinstance(st.value, ast.Call):
            call, mode = st.value, "return"
        if call is None:
            return None
        h = self.resolve(f, call)
        if h is None or depth >= MAX_DEPTH:
            return None
        b = self._bind(h, call, f.params[0] if f.params else '')
        if b is None:
            return None
        mapping, setup = b
        body = [_Rename(mapping).visit(copy.deepcopy(s)) for s in body_without_docstring(h.node)]

        def emit(v: Optional[ast.expr], at: ast.AST) -> list:
            val = v if v is not None else ast.Constant(value=None)
            if mode == "expr":
                if v is None or _simple(v):
                    return []
                return [ast.copy_location(ast.Expr(value=val), at)]
            if mode == "assign":
                return [ast.copy_location(ast.Assign(targets=copy.deepcopy(st.targets), value=val, lineno=at.lineno), at)]  # type: ignore[attr-defined]
            if mode == "annassign":
                return [ast.copy_location(ast.AnnAssign(target=copy.deepcopy(st.target), annotation=copy.deepcopy(st.annotation), value=val,  # type: ignore[attr-defined]
                                                        simple=st.simple), at)]  # type: ignore[attr-defined]
            return [ast.copy_location(ast.Return(value=val), at)]

        if not _always_leaves(body):
            body = body + [ast.copy_location(ast.Return(value=None), st)]
        try:
            new = _structure(body, emit)
        except _NoStructure:
            return None
        self.inlined.append(h.qname)
        for n in setup + new:
            ast.fix_missing_locations(n)
        # inline recursively inside the inlined body (the helper's own helpers), against the helper's class context
        out: list = []
        for s in setup + new:
            out.extend(self._rewrite_stmt(f, s, depth + 1))
        return out

    def _single_return_expr(self, h: FuncInfo) -> Optional[ast.expr]:
        b = body_without_docstring(h.node)
        if len(b) == 1 and isinstance(b[0], ast.Return) and b[0].value is not None:
            return b[0].value
        return None

    def expand_exprs(self, f: FuncInfo, node: ast.AST, depth: int) -> ast.AST:
        outer = self

        class T(ast.NodeTransformer):
            def visit_Lambda(self, n):
                return n

            def visit_Call(self, n: ast.Call):
                self.generic_visit(n)
                h = outer.resolve(f, n)
                if h is None or depth >= MAX_DEPTH:
                    return n
                e = outer._single_return_expr(h)
                if e is None:
                    return n
                b = outer._bind(h, n, f.params[0] if f.params else '')
                if b is None:
                    return n
                mapping, setup = b
                if setup:
                    # a non-trivial argument would need a statement context -- unless it is a pure expression (no call, no
                    # walrus): then it can stand wherever the parameter stood
                    def pure(x: ast.AST) -> bool:
                        return not any(isinstance(y, (ast.Call, ast.NamedExpr, ast.Await, ast.Yield, ast.YieldFrom, ast.Lambda,
                                                      ast.ListComp, ast.SetComp, ast.DictComp, ast.GeneratorExp)) for y in ast.walk(x))
                    stored_in_h = _locals_of(h.node)
                    ok_all = True
                    for st_ in setup:
                        tmp = st_.targets[0].id
                        p = next((k for k, v in mapping.items() if v == tmp), None)
                        if p is None or p in stored_in_h or not pure(st_.value) or len(ast.unparse(st_.value)) > 200:
                            ok_all = False
                            break
                        mapping[p] = st_.value
                    if not ok_all:
                        return n
                outer.inlined.append(h.qname)
                new = _Rename(mapping).visit(copy.deepcopy(e))
                return ast.copy_location(outer.expand_exprs(f, new, depth + 1), n)

        return T().visit(node)

    def _hoist(self, f: FuncInfo, st: ast.stmt, depth: int) -> Optional[list]:
        """`... helper(a) ...` in a simple statement / if-test / for-iterable  ->  `_t = helper(a)` first."""
        if isinstance(st, (ast.Assign, ast.AugAssign, ast.AnnAssign, ast.Return, ast.Expr, ast.Raise)):
            fields = ["value"] if not isinstance(st, ast.Raise) else ["exc"]
        elif isinstance(st, ast.If):
            fields = ["test"]
        elif isinstance(st, (ast.For, ast.AsyncFor)):
            fields = ["iter"]
        else:
            return None
        outer = self
        pre: list = []

        class T(ast.NodeTransformer):
            def visit_Lambda(self, n):
                return n

            def _comp(self, n):
                return n

            visit_ListComp = visit_SetComp = visit_GeneratorExp = visit_DictComp = _comp

            def visit_IfExp(self, n):
                n.test = self.visit(n.test)
                return n  # the arms are evaluated conditionally: leave calls there alone

            def visit_BoolOp(self, n):
                n.values = [self.visit(n.values[0])] + n.values[1:]
                return n

            def visit_Call(self, n: ast.Call):
                self.generic_visit(n)
                h = outer.resolve(f, n)
                if h is None or outer._single_return_expr(h) is not None:
                    return n
                outer.counter += 1
                tmp = f"_inl{outer.counter}_result"
                pre.append(ast.copy_location(ast.Assign(targets=[ast.Name(id=tmp, ctx=ast.Store())], value=n, lineno=n.lineno), n))
                return ast.copy_location(ast.Name(id=tmp, ctx=ast.Load()), n)

        new = copy.copy(st)
        for fld in fields:
            v = getattr(st, fld, None)
            if v is None:
                continue
            if isinstance(v, ast.Call) and fld == "value" and not isinstance(st, ast.AugAssign) and outer.resolve(f, v) is not None:
                # direct `x = helper()` / `return helper()` / `helper()` is expand_stmt's job; hoist only inside its arguments
                v2 = copy.deepcopy(v)
                v2.args = [T().visit(a) for a in v2.args]
                for k in v2.keywords:
                    k.value = T().visit(k.value)
                setattr(new, fld, v2)
            else:
                setattr(new, fld, T().visit(copy.deepcopy(v)))
        if isinstance(st, ast.Assign):
            # helper calls inside the index of a subscript target: `d[self.h(k)] = v`
            new.targets = [T().visit(copy.deepcopy(t)) if isinstance(t, (ast.Subscript, ast.Attribute)) else t for t in st.targets]
        elif isinstance(st, (ast.AugAssign, ast.AnnAssign)) and isinstance(st.target, (ast.Subscript, ast.Attribute)):
            new.target = T().visit(copy.deepcopy(st.target))
        if not pre:
            return None
        for n in pre:
            ast.fix_missing_locations(n)
        ast.fix_missing_locations(new)
        return pre + [new]

    def _split_and(self, f: FuncInfo, st: ast.stmt) -> Optional[ast.stmt]:
        """`if A and helper(..): B [else: E]`  ->  `if A: if helper(..): B [else: E] [else: E]` so that the helper call becomes
        the test of its own `if` and can be hoisted and inlined (short-circuit order is kept)."""
        if not (isinstance(st, ast.If) and isinstance(st.test, ast.BoolOp) and isinstance(st.test.op, ast.And) and len(st.test.values) >= 2):
            return None
        later = st.test.values[1:]
        if not any(isinstance(c, ast.Call) and self.resolve(f, c) is not None and self._single_return_expr(self.resolve(f, c)) is None
                   for v in later for c in ast.walk(v)):
            return None
        first = st.test.values[0]
        rest = later[0] if len(later) == 1 else ast.BoolOp(op=ast.And(), values=list(later))
        inner = ast.copy_location(ast.If(test=rest, body=st.body, orelse=copy.deepcopy(st.orelse)), st)
        outer = ast.copy_location(ast.If(test=first, body=[inner], orelse=st.orelse), st)
        return ast.fix_missing_locations(outer)

    def _rewrite_stmt(self, f: FuncInfo, st: ast.stmt, depth: int) -> list:
        if depth < MAX_DEPTH:
            sp = self._split_and(f, st)
            if sp is not None:
                return self._rewrite_stmt(f, sp, depth)
            h = self._hoist(f, st, depth)
            if h is not None:
                out: list = []
                for s2 in h[:-1]:
                    out.extend(self._rewrite_stmt(f, s2, depth))
                # the rewritten statement itself contains no hoistable call any more
                out.extend(self._rewrite_stmt_core(f, h[-1], depth))
                return out
        return self._rewrite_stmt_core(f, st, depth)

    def _rewrite_stmt_core(self, f: FuncInfo, st: ast.stmt, depth: int) -> list:
        try:
            exp = self.expand_stmt(f, st, depth)
        except _NoStructure:
            exp = None
        if exp is not None:
            return exp
        st = copy.copy(st)
        for fld, val in ast.iter_fields(st):
            if isinstance(val, list) and val and isinstance(val[0], ast.stmt):
                new: list = []
                for s in val:
                    new.extend(self._rewrite_stmt(f, s, depth))
                setattr(st, fld, new or [ast.copy_location(ast.Pass(), st)])
            elif isinstance(val, list) and val and isinstance(val[0], (ast.ExceptHandler, ast.match_case)):
                hs = []
                for hnd in val:
                    hnd = copy.copy(hnd)
                    nb: list = []
                    for s in hnd.body:
                        nb.extend(self._rewrite_stmt(f, s, depth))
                    hnd.body = nb or [ast.copy_location(ast.Pass(), st)]
                    hs.append(hnd)
                setattr(st, fld, hs)
            elif isinstance(val, ast.expr):
                setattr(st, fld, self.expand_exprs(f, copy.deepcopy(val), depth))
            elif isinstance(val, list) and val and isinstance(val[0], ast.expr):
                setattr(st, fld, [self.expand_exprs(f, copy.deepcopy(v), depth) for v in val])
        return [st]

    def view(self, f: FuncInfo) -> FuncInfo:
        node = copy.copy(f.node)
        body: list = []
        for s in f.node.body:
            body.extend(self._rewrite_stmt(f, s, 0))
        node.body = body
        if not self.inlined:
            return f
        g = FuncInfo(f.name, f.qname, node, f.module, f.cls)
        g.__dict__["inlined_helpers"] = list(dict.fromkeys(self.inlined))
        return g


def inline_view(model: Model, f: FuncInfo, want: Callable[[FuncInfo], bool]) -> FuncInfo:
    """`f` with the wanted same-object helpers inlined (returns `f` itself when nothing was inlined)."""
    cache = model.__dict__.setdefault("_inline_cache", {})
    key = (f.qname, getattr(want, "cache_key", None))
    if key[1] is not None and key in cache:
        return cache[key]
    g = Inliner(model, want).view(f)
    if key[1] is not None:
        cache[key] = g
    return g


def not_named(names, cache_key: str) -> Callable[[FuncInfo], bool]:
    """want-predicate: every helper except today's known anchors."""
    s = frozenset(names)

    def want(h: FuncInfo) -> bool:
        return h.name not in s

    want.cache_key = cache_key  # type: ignore[attr-defined]
    return want
