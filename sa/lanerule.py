"""Byte-lane arithmetic of the six block helpers, decided in the bit-slice domain.

For every byte offset the helper accepts, with the cached word and the stored
value symbolic:
  *_from_block   returns bits [8o, 8o+w) of the selected word
  *_into_block   leaves every bit of the word outside [8o, 8o+w) in place and puts
                 the w value bits there
The offset is folded as a constant (0..3), so masks and shifts become concrete
while word and value stay symbolic.
"""
from __future__ import annotations

import ast

from .bitslice import Evaluator, Form, Inconclusive
from .consteval import Folder
from .model import AnalysisError
from .report import Ctx, Rule

WIDTH = {"byte": 8, "halfword": 16, "word": 32}
LEGAL = {"byte": (0, 1, 2, 3), "halfword": (0, 1, 2), "word": (0,)}


def _run(m, f, off: int, w: int, value_param=None):
    """Run a block helper by abstract interpretation with byte offset `off` (a constant), the selected word and the value
    symbolic.  -> (returned form | None, form stored into block[block_offset] | None, raised?)"""
    from .absrun import AbsRun
    da, blk = f.params[0], f.params[1]
    sel = f"{blk}[{da}.block_offset]"
    stored: list = []

    def is_sel(e) -> bool:
        """block[<the block offset>]: written out, or through a local that holds the offset (it is the constant 0 in this run)"""
        if not (isinstance(e, ast.Subscript) and isinstance(e.value, ast.Name) and e.value.id == blk):
            return False
        if ast.unparse(e) == sel:
            return True
        try:
            i = run.ev.ev(e.slice)
        except Inconclusive:
            return False
        return i.is_const() and i.const == 0 and not isinstance(e.slice, ast.Constant)

    def on_load(e, ev):
        if is_sel(e):
            return Form.field("word", 0, 32)
        return None

    def on_store(t, v, ev):
        if is_sel(t):
            stored.append(v)
            return True
        return False

    def on_call(c, ev):
        fn = ast.unparse(c.func)
        if fn in ("UInt8", "UInt16", "UInt32", "fixedint.UInt8", "fixedint.UInt16", "fixedint.UInt32") and len(c.args) == 1:
            return ev.ev(c.args[0]).and_mask((1 << int(fn.split("UInt")[1])) - 1)
        return None

    env = {}
    if value_param is not None:
        env[value_param] = Form.field("v", 0, w)
    run = AbsRun(m, f, env, {f"{da}.byte_offset": off, f"{da}.block_offset": 0}, on_call=on_call, on_load=on_load, on_store=on_store)
    run.lenient = False
    # `return block` of the merge helpers: the list itself is not a form
    run.env[blk] = Form.var("__block__")
    res = run.run()
    last = stored[-1] if stored else None
    if isinstance(last, Inconclusive):
        raise last
    return res, last, run.raised is not None


def lane_rule(ctx: Ctx, rid: str) -> None:
    m = ctx.model
    r = ctx.rule(rid, "byte-lane merge/extract of the block helpers (abstract interpretation in the bit-slice domain, per offset)")
    mod = m.module("util.integer_manipulation")
    for kind in ("byte", "halfword", "word"):
        w = WIDTH[kind]
        f = mod.functions.get(f"{kind}_from_block")
        if f is None:
            raise AnalysisError(f"anchor vanished: {kind}_from_block")
        for off in LEGAL[kind]:
            try:
                got, _, raised = _run(m, f, off, w)
            except Inconclusive as exc:
                raise AnalysisError(f"{rid}: {kind}_from_block outside the bit-slice domain: {exc}")
            want = Form.field("word", 8 * off, 8 * off + w)
            r.check(got is not None and not raised and got == want, f"{kind}_from_block|offset {off}", f.loc(),
                    f"{kind}_from_block at byte offset {off} returns {got.describe() if got is not None else 'nothing'}, "
                    f"expected bits [{8 * off},{8 * off + w}) of the word")
        f = mod.functions.get(f"{kind}_into_block")
        if f is None:
            raise AnalysisError(f"anchor vanished: {kind}_into_block")
        pname = f.params[2]
        for off in LEGAL[kind]:
            try:
                _, stored, raised = _run(m, f, off, w, pname)
            except Inconclusive as exc:
                if "overlapping" in str(exc):
                    r.check(False, f"{kind}_into_block|offset {off}", f.loc(), f"{kind}_into_block at byte offset {off}: the old lane is not "
                            "cleared before the new value is OR-ed in (overlapping bits)")
                    continue
                raise AnalysisError(f"{rid}: {kind}_into_block outside the bit-slice domain: {exc}")
            if stored is None or raised:
                raise AnalysisError(f"{rid}: {kind}_into_block stores nothing recognisable at offset {off}")
            lo, hi = 8 * off, 8 * off + w
            want = Form(bits={("word", b): 1 << b for b in range(32) if not (lo <= b < hi)}) + Form.field("v", 0, w).lshift(lo)
            r.check(stored == want, f"{kind}_into_block|offset {off}", f.loc(), f"{kind}_into_block at byte offset {off} stores "
                    f"{stored.describe()[:160]}; expected the old word with bits [{lo},{hi}) replaced by the value")
    r.floor(16)
