"""Byte-lane arithmetic of the six block helpers, decided in the bit-slice domain.

For every byte offset the helper accepts, with the cached word and the stored
value symbolic:
  *_from_block   returns bits [8o, 8o+w) of the selected word
  *_into_block   leaves every bit of the word outside [8o, 8o+w) in place and puts
                 the w value bits there
The offset is folded as a constant (0..3), so masks and shifts become concrete
while word and value stay symbolic.
"""
from __future__ import annotations

import ast

from .bitslice import Evaluator, Form, Inconclusive
from .consteval import Folder
from .model import AnalysisError
from .report import Ctx, Rule

WIDTH = {"byte": 8, "halfword": 16, "word": 32}
LEGAL = {"byte": (0, 1, 2, 3), "halfword": (0, 1, 2), "word": (0,)}


class _OffFolder(Folder):
    def __init__(self, off: int) -> None:
        super().__init__(None, None, None, {})  # type: ignore[arg-type]
        self.off = off

    def fold(self, e):
        if ast.unparse(e) == "decoded_address.byte_offset":
            return self.off
        return Folder.fold(self, e)


def lane_rule(ctx: Ctx, rid: str) -> None:
    m = ctx.model
    r = ctx.rule(rid, "byte-lane merge/extract of the block helpers (bit-slice domain, per offset)")
    mod = m.module("util.integer_manipulation")
    for kind in ("byte", "halfword", "word"):
        w = WIDTH[kind]
        # ---------------------------------------------------------- extract
        f = mod.functions.get(f"{kind}_from_block")
        if f is None:
            raise AnalysisError(f"anchor vanished: {kind}_from_block")
        rets = [n for n in ast.walk(f.node) if isinstance(n, ast.Return)]
        if len(rets) != 1 or rets[0].value is None:
            raise AnalysisError(f"{kind}_from_block: single return expected")
        val = rets[0].value
        for off in LEGAL[kind]:
            env = {"block[decoded_address.block_offset]": Form.field("word", 0, 32),
                   "int(block[decoded_address.block_offset])": Form.field("word", 0, 32)}
            expr = val
            cast_w = None
            if isinstance(expr, ast.Call) and ast.unparse(expr.func) in ("UInt8", "UInt16", "UInt32") and len(expr.args) == 1:
                cast_w = int(ast.unparse(expr.func)[4:])
                expr = expr.args[0]
            try:
                got = Evaluator(env, _OffFolder(off)).ev(expr)
                if cast_w is not None:
                    got = got.and_mask((1 << cast_w) - 1)
            except Inconclusive as exc:
                raise AnalysisError(f"{rid}: {kind}_from_block outside the bit-slice domain: {exc}")
            want = Form.field("word", 8 * off, 8 * off + w)
            r.check(got == want, f"{kind}_from_block|offset {off}", f.loc(), f"{kind}_from_block at byte offset {off} returns {got.describe()}, "
                    f"expected bits [{8 * off},{8 * off + w}) of the word")
        # ------------------------------------------------------------ merge
        f = mod.functions.get(f"{kind}_into_block")
        if f is None:
            raise AnalysisError(f"anchor vanished: {kind}_into_block")
        pname = f.params[2]
        for off in LEGAL[kind]:
            env = {"block[decoded_address.block_offset]": Form.field("word", 0, 32),
                   "int(block[decoded_address.block_offset])": Form.field("word", 0, 32),
                   pname: Form.field("v", 0, w), f"int({pname})": Form.field("v", 0, w)}
            stored = None
            try:
                for st in f.node.body:
                    if isinstance(st, ast.Assign) and isinstance(st.targets[0], ast.Name):
                        env[st.targets[0].id] = Evaluator(env, _OffFolder(off)).ev(st.value)
                    elif isinstance(st, ast.Assign) and ast.unparse(st.targets[0]) == "block[decoded_address.block_offset]":
                        v = st.value
                        if isinstance(v, ast.Call) and ast.unparse(v.func) == "UInt32" and len(v.args) == 1:
                            stored = Evaluator(env, _OffFolder(off)).ev(v.args[0]).and_mask(0xFFFFFFFF)
                        else:
                            stored = Evaluator(env, _OffFolder(off)).ev(v)
            except Inconclusive as exc:
                if "overlapping" in str(exc):
                    stored = None
                    r.check(False, f"{kind}_into_block|offset {off}", f.loc(), f"{kind}_into_block at byte offset {off}: the old lane is not "
                            "cleared before the new value is OR-ed in (overlapping bits)")
                    continue
                raise AnalysisError(f"{rid}: {kind}_into_block outside the bit-slice domain: {exc}")
            if stored is None:
                raise AnalysisError(f"{rid}: {kind}_into_block stores nothing recognisable")
            lo, hi = 8 * off, 8 * off + w
            want = Form(bits={("word", b): 1 << b for b in range(32) if not (lo <= b < hi)}) + Form.field("v", 0, w).lshift(lo)
            r.check(stored == want, f"{kind}_into_block|offset {off}", f.loc(), f"{kind}_into_block at byte offset {off} stores "
                    f"{stored.describe()[:160]}; expected the old word with bits [{lo},{hi}) replaced by the value")
    r.floor(16)
