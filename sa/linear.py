"""Linear forms over symbolic atoms: expr -> {atom-text: coefficient, '': constant}."""
from __future__ import annotations

import ast
from typing import Optional


def linform(e: ast.AST, subst: Optional[dict] = None) -> Optional[dict]:
    """Returns None when the expression is not linear in its atoms.
    Atoms are names / attribute chains / anything else, keyed by unparse text.
    ``subst`` maps atom text -> linear form (dict) or int."""
    subst = subst or {}

    def add(a: dict, b: dict, k: int = 1) -> dict:
        out = dict(a)
        for x, c in b.items():
            out[x] = out.get(x, 0) + k * c
        return {x: c for x, c in out.items() if c != 0}

    def rec(n: ast.AST) -> Optional[dict]:
        if isinstance(n, ast.Constant) and isinstance(n.value, int) and not isinstance(n.value, bool):
            return {"": n.value} if n.value else {}
        if isinstance(n, ast.BinOp):
            if isinstance(n.op, (ast.Add, ast.Sub)):
                l, r = rec(n.left), rec(n.right)
                if l is None or r is None:
                    return None
                return add(l, r, 1 if isinstance(n.op, ast.Add) else -1)
            if isinstance(n.op, ast.Mult):
                l, r = rec(n.left), rec(n.right)
                if l is None or r is None:
                    return None
                if set(l) <= {""}:
                    return {x: c * l.get("", 0) for x, c in r.items() if c * l.get("", 0)}
                if set(r) <= {""}:
                    return {x: c * r.get("", 0) for x, c in l.items() if c * r.get("", 0)}
                return None
        if isinstance(n, ast.UnaryOp) and isinstance(n.op, ast.USub):
            v = rec(n.operand)
            return None if v is None else {x: -c for x, c in v.items()}
        if isinstance(n, ast.UnaryOp) and isinstance(n.op, ast.UAdd):
            return rec(n.operand)
        t = ast.unparse(n)
        if t in subst:
            s = subst[t]
            return ({"": s} if s else {}) if isinstance(s, int) else dict(s)
        return {t: 1}

    return rec(e)
