"""Recover the confirmed tree's local names after a pure rename.

`sa/known_locals.json` holds, for every function of the confirmed tree, a hash of its body with the locals
replaced by their order of first occurrence, and the list of local names in that order.  When a function of the
current tree has the same hash but other names, the rename is undone in the model (the rules that still name a
local -- `lui_imm`, `address_counter` -- keep working).  Anything but a pure rename changes the hash and leaves the
function alone.
"""
from __future__ import annotations

import ast
import copy
import hashlib
import json
import os

HERE = os.path.dirname(os.path.abspath(__file__))
PATH = os.path.join(HERE, "known_locals.json")


def local_names(fn: ast.AST) -> list[str]:
    """Locals (stored names; not parameters) in order of first occurrence in a depth-first walk."""
    a = fn.args  # type: ignore[attr-defined]
    params = {x.arg for x in a.posonlyargs + a.args + a.kwonlyargs} | ({a.vararg.arg} if a.vararg else set()) | ({a.kwarg.arg} if a.kwarg else set())
    stored = set()
    for n in ast.walk(fn):
        if isinstance(n, ast.Name) and isinstance(n.ctx, (ast.Store, ast.Del)):
            stored.add(n.id)
        elif isinstance(n, ast.ExceptHandler) and n.name:
            stored.add(n.name)
        elif isinstance(n, (ast.Global, ast.Nonlocal)):
            return []
    stored -= params
    order: list[str] = []

    def rec(n: ast.AST) -> None:
        if isinstance(n, ast.Name) and n.id in stored and n.id not in order:
            order.append(n.id)
        elif isinstance(n, ast.ExceptHandler) and n.name and n.name in stored and n.name not in order:
            order.append(n.name)
        for c in ast.iter_child_nodes(n):
            rec(c)

    rec(fn)
    return order


class _Ren(ast.NodeTransformer):
    def __init__(self, mapping: dict) -> None:
        self.mapping = mapping

    def visit_Name(self, n: ast.Name):
        if n.id in self.mapping:
            return ast.copy_location(ast.Name(id=self.mapping[n.id], ctx=n.ctx), n)
        return n

    def visit_ExceptHandler(self, n: ast.ExceptHandler):
        self.generic_visit(n)
        if n.name in self.mapping:
            n.name = self.mapping[n.name]
        return n


def shape(fn: ast.AST) -> tuple[str, list[str]]:
    names = local_names(fn)
    mapping = {n: f"L{i}" for i, n in enumerate(names)}
    body = copy.deepcopy(fn)
    # the docstring and annotations are not part of the shape
    if body.body and isinstance(body.body[0], ast.Expr) and isinstance(body.body[0].value, ast.Constant) and isinstance(body.body[0].value.value, str):  # type: ignore[attr-defined]
        body.body = body.body[1:] or [ast.Pass()]  # type: ignore[attr-defined]
    body = _Ren(mapping).visit(body)
    for n in ast.walk(body):
        if isinstance(n, ast.AnnAssign):
            n.annotation = ast.Constant(value=None)
        if isinstance(n, ast.arg):
            n.annotation = None
    body.returns = None  # type: ignore[attr-defined]
    body.decorator_list = []  # type: ignore[attr-defined]
    txt = ast.dump(body, annotate_fields=False, include_attributes=False)
    return hashlib.sha1(txt.encode()).hexdigest()[:20], names


def write_known(model) -> int:
    out = {}
    for q, f in model.functions.items():
        node = f.__dict__.get("raw_node", f.node)
        parts = q.split(".")
        key = ".".join(parts[-2:])
        h, names = shape(node)
        if names:
            out[key] = [h, names]
    with open(PATH, "w", encoding="utf-8") as fh:
        json.dump(out, fh, indent=0, sort_keys=True)
        fh.write("\n")
    return len(out)


def restore_names(model) -> dict:
    """Undo pure local renames; returns {qname: {new: old}}."""
    if not os.path.exists(PATH):
        return {}
    with open(PATH, encoding="utf-8") as fh:
        known = json.load(fh)
    done = {}
    for q, f in model.functions.items():
        parts = q.split(".")
        key = ".".join(parts[-2:])
        if key not in known:
            continue
        h0, names0 = known[key]
        h, names = shape(f.node)
        if h == h0 and names != names0 and len(names) == len(names0):
            mapping = {n: o for n, o in zip(names, names0) if n != o}
            # a two-step rename keeps swaps (a<->b) correct
            tmp = {n: f"__ren{i}__" for i, n in enumerate(mapping)}
            node = _Ren(tmp).visit(copy.deepcopy(f.node))
            node = _Ren({tmp[n]: o for n, o in mapping.items()}).visit(node)
            f.__dict__.setdefault("raw_node", f.node)
            f.node = node
            done[q] = mapping
    return done
