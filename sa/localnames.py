"""Recover the confirmed tree's local names after a pure rename.

`sa/known_locals.json` holds, for every function of the confirmed tree, a hash of its body with the locals
replaced by their order of first occurrence, and the list of local names in that order.  When a function of the
current tree has the same hash but other names, the rename is undone in the model (the rules that still name a
local -- `lui_imm`, `address_counter` -- keep working).  Anything but a pure rename changes the hash and leaves the
function alone.
"""
from __future__ import annotations

import ast
import copy
import hashlib
import json
import os

HERE = os.path.dirname(os.path.abspath(__file__))
PATH = os.path.join(HERE, "known_locals.json")


def local_names(fn: ast.AST) -> list[str]:
    """Locals (stored names; not parameters) in order of first occurrence in a depth-first walk."""
    a = fn.args  # type: ignore[attr-defined]
    params = {x.arg for x in a.posonlyargs + a.args + a.kwonlyargs} | ({a.vararg.arg} if a.vararg else set()) | ({a.kwarg.arg} if a.kwarg else set())
    stored = set()
    for n in ast.walk(fn):
        if isinstance(n, ast.Name) and isinstance(n.ctx, (ast.Store, ast.Del)):
            stored.add(n.id)
        elif isinstance(n, ast.ExceptHandler) and n.name:
            stored.add(n.name)
        elif isinstance(n, (ast.Global, ast.Nonlocal)):
            return []
    stored -= params
    order: list[str] = []

    def rec(n: ast.AST) -> None:
        if isinstance(n, ast.Name) and n.id in stored and n.id not in order:
            order.append(n.id)
        elif isinstance(n, ast.ExceptHandler) and n.name and n.name in stored and n.name not in order:
            order.append(n.name)
        for c in ast.iter_child_nodes(n):
            rec(c)

    rec(fn)
    return order


class _Ren(ast.NodeTransformer):
    def __init__(self, mapping: dict) -> None:
        self.mapping = mapping

    def visit_Name(self, n: ast.Name):
        if n.id in self.mapping:
            return ast.copy_location(ast.Name(id=self.mapping[n.id], ctx=n.ctx), n)
        return n

    def visit_ExceptHandler(self, n: ast.ExceptHandler):
        self.generic_visit(n)
        if n.name in self.mapping:
            n.name = self.mapping[n.name]
        return n


def param_names(fn: ast.AST) -> list[str]:
    a = fn.args  # type: ignore[attr-defined]
    return [x.arg for x in a.posonlyargs + a.args + a.kwonlyargs] + ([a.vararg.arg] if a.vararg else []) + ([a.kwarg.arg] if a.kwarg else [])


class _RenArgs(ast.NodeTransformer):
    def __init__(self, mapping: dict) -> None:
        self.mapping = mapping

    def visit_arg(self, n: ast.arg):
        if n.arg in self.mapping:
            n.arg = self.mapping[n.arg]
        return n


def shape(fn: ast.AST, with_params: bool = False):
    names = local_names(fn)
    params = param_names(fn)
    mapping = {n: f"L{i}" for i, n in enumerate(names)}
    mapping.update({n: f"A{i}" for i, n in enumerate(params)})
    body = copy.deepcopy(fn)
    body.name = "f"  # type: ignore[attr-defined]  # the function's own name is not part of its shape
    body = _RenArgs(mapping).visit(body)
    # the docstring and annotations are not part of the shape
    if body.body and isinstance(body.body[0], ast.Expr) and isinstance(body.body[0].value, ast.Constant) and isinstance(body.body[0].value.value, str):  # type: ignore[attr-defined]
        body.body = body.body[1:] or [ast.Pass()]  # type: ignore[attr-defined]
    body = _Ren(mapping).visit(body)
    for n in ast.walk(body):
        if isinstance(n, ast.AnnAssign):
            n.annotation = ast.Constant(value=None)
        if isinstance(n, ast.arg):
            n.annotation = None
    body.returns = None  # type: ignore[attr-defined]
    body.decorator_list = []  # type: ignore[attr-defined]
    txt = ast.dump(body, annotate_fields=False, include_attributes=False)
    h = hashlib.sha1(txt.encode()).hexdigest()[:20]
    return (h, names, params) if with_params else (h, names)


def write_known(model) -> int:
    out = {}
    for q, f in model.functions.items():
        node = f.__dict__.get("raw_node", f.node)
        parts = q.split(".")
        key = ".".join(parts[-2:])
        h, names, params = shape(node, with_params=True)
        out[key] = [h, names, params]
    with open(PATH, "w", encoding="utf-8") as fh:
        json.dump(out, fh, indent=0, sort_keys=True)
        fh.write("\n")
    return len(out)


def restore_names(model) -> dict:
    """Undo pure renames of locals, parameters and whole functions; returns {qname: {new: old}}.

    * a function whose body has the confirmed shape but other local / parameter names gets the old names back (keyword arguments at
      its call sites are translated along);
    * a function of the confirmed tree that is missing from its class / module while a *new* function with exactly its shape has
      appeared there is that function under a new name: the definition and the calls `x.<new>(..)` / `<new>(..)` are renamed back."""
    if not os.path.exists(PATH):
        return {}
    with open(PATH, encoding="utf-8") as fh:
        known = json.load(fh)
    done = {}
    kw_maps: dict = {}  # function name -> [param mapping new->old of every definition with that name]

    def key_of(q: str) -> str:
        return ".".join(q.split(".")[-2:])

    # --- renamed functions
    present = {key_of(q) for q in model.functions}
    missing = [k for k in known if k not in present]
    fn_ren: dict = {}
    if missing:
        by_owner: dict = {}
        for q, f in model.functions.items():
            if key_of(q) in known:
                continue
            owner = key_of(q).split(".")[0]
            by_owner.setdefault(owner, []).append(f)
        for k in missing:
            owner, _, old = k.partition(".")
            cands = [f for f in by_owner.get(owner, []) if shape(f.node)[0] == known[k][0] and len(known[k]) > 2
                     and len(param_names(f.node)) == len(known[k][2])]
            if len(cands) != 1:
                continue
            f = cands[0]
            if f.cls is not None and old in f.cls.methods:
                continue
            others = [g for g in model.functions.values() if g.name == f.name and g is not f]
            if others:
                continue  # the new name is not unique: leave it
            fn_ren[f.name] = old
            done[f.qname] = {f.name: old}
            new_q = f.qname[: -len(f.name)] + old
            del model.functions[f.qname]
            if f.cls is not None:
                del f.cls.methods[f.name]
                f.cls.methods[old] = f
            else:
                funcs = getattr(f.module, "functions", None)
                if isinstance(funcs, dict) and f.name in funcs:
                    del funcs[f.name]
                    funcs[old] = f
            f.__dict__.setdefault("raw_node", f.node)
            f.node = copy.deepcopy(f.node)
            f.node.name = old
            f.name = old
            f.qname = new_q
            model.functions[new_q] = f
    # --- renamed locals / parameters
    for q, f in model.functions.items():
        key = key_of(q)
        if key not in known:
            continue
        ent = known[key]
        h0, names0 = ent[0], ent[1]
        params0 = ent[2] if len(ent) > 2 else None
        h, names, params = shape(f.node, with_params=True)
        if h != h0 or len(names) != len(names0):
            continue
        mapping = {n: o for n, o in zip(names, names0) if n != o}
        pmap = {}
        if params0 is not None and len(params0) == len(params):
            pmap = {n: o for n, o in zip(params, params0) if n != o}
        if not mapping and not pmap:
            continue
        full = dict(mapping)
        full.update(pmap)
        # a two-step rename keeps swaps (a<->b) correct
        tmp = {n: f"__ren{i}__" for i, n in enumerate(full)}
        node = copy.deepcopy(f.node)
        node = _RenArgs(dict(tmp)).visit(_Ren(tmp).visit(node))
        back = {tmp[n]: o for n, o in full.items()}
        node = _RenArgs(dict(back)).visit(_Ren(back).visit(node))
        f.__dict__.setdefault("raw_node", f.node)
        f.node = node
        done.setdefault(q, {}).update(full)
        if pmap:
            kw_maps.setdefault(f.name if f.name != "__init__" or f.cls is None else f.cls.name, []).append((f, pmap))
    # --- call sites: renamed functions and keyword names of renamed parameters
    if fn_ren or kw_maps:
        defs_by_name: dict = {}
        for g in model.functions.values():
            defs_by_name.setdefault(g.name if g.name != "__init__" or g.cls is None else g.cls.name, []).append(g)
        for f in model.functions.values():
            changed = False
            node = None
            for n in ast.walk(f.node):
                hit = False
                if isinstance(n, ast.Attribute) and n.attr in fn_ren:
                    hit = True
                elif isinstance(n, ast.Name) and n.id in fn_ren:
                    hit = True
                elif isinstance(n, ast.Call) and n.keywords:
                    fn = n.func.value if isinstance(n.func, ast.Subscript) else n.func
                    nm = fn.attr if isinstance(fn, ast.Attribute) else fn.id if isinstance(fn, ast.Name) else None
                    if nm in kw_maps:
                        hit = True
                if hit:
                    changed = True
                    break
            if not changed:
                continue
            node = copy.deepcopy(f.node)
            for n in ast.walk(node):
                if isinstance(n, ast.Attribute) and n.attr in fn_ren:
                    n.attr = fn_ren[n.attr]
                elif isinstance(n, ast.Name) and n.id in fn_ren:
                    n.id = fn_ren[n.id]
                if isinstance(n, ast.Call) and n.keywords:
                    fn = n.func.value if isinstance(n.func, ast.Subscript) else n.func
                    nm = fn.attr if isinstance(fn, ast.Attribute) else fn.id if isinstance(fn, ast.Name) else None
                    if nm in kw_maps:
                        maps = kw_maps[nm]
                        # every definition of that name that was renamed must agree on the keyword; definitions that were not
                        # renamed must not own the new keyword themselves
                        for kw in n.keywords:
                            olds = {pm.get(kw.arg) for _g, pm in maps}
                            if kw.arg is None or len(olds) != 1 or None in olds:
                                continue
                            renamed_defs = {id(g) for g, _pm in maps}
                            if any(kw.arg in g.params for g in defs_by_name.get(nm, []) if id(g) not in renamed_defs):
                                continue
                            kw.arg = olds.pop()
            f.__dict__.setdefault("raw_node", f.node)
            f.node = node
    return done
