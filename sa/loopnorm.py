"""Loop idioms -> comprehension / quantifier form (an AST-to-AST pass used before `sa.symflow`).

Recognised, each only when the loop body has no other effect:

  Q  quantifier search             for x in it:                     return any(c for x in it)
                                       if c: return True        ->  (or `all(not c ...)`, and the `continue`-guarded
                                   return False                      variants: guards become extra conjuncts)

  F  flag search                   v = init                         v = (V if any(c for x in it) else init)
                                   for x in it:                 ->  (V must not mention x; `break` optional when V is
                                       if c: v = V; break            a constant and nothing else happens after it)

  C  collection                    xs = []                          xs = [e for x in it if not g ...]
                                   for x in it:                 ->
                                       if g: continue
                                       t = ...; xs.append(e)

Nested comprehensions over a comprehension are fused:
    [E(x) for x in [G(y) for y in ys if P(y)] if Q(x)]  ->  [E(G(y)) for y in ys if P(y) and Q(G(y))]

Everything else is left alone.  The pass never changes what the function computes (each rewrite is
a textbook equivalence for side-effect-free conditions; conditions containing calls are accepted --
the rules that use the pass only compare the *shape* of what is computed, not evaluation counts).
"""
from __future__ import annotations

import ast
import copy
from typing import Optional


def _names_in(e: ast.AST) -> set:
    return {n.id for n in ast.walk(e) if isinstance(n, ast.Name)}


def _target_names(t: ast.AST) -> set:
    return {n.id for n in ast.walk(t) if isinstance(n, ast.Name)}


class _Sub(ast.NodeTransformer):
    def __init__(self, env: dict) -> None:
        self.env = env

    def visit_Name(self, n: ast.Name):
        if isinstance(n.ctx, ast.Load) and n.id in self.env:
            return copy.deepcopy(self.env[n.id])
        return n


def _sub(e: ast.AST, env: dict) -> ast.AST:
    return _Sub(env).visit(copy.deepcopy(e)) if env else copy.deepcopy(e)


def _neg(e: ast.AST) -> ast.AST:
    if isinstance(e, ast.UnaryOp) and isinstance(e.op, ast.Not):
        return copy.deepcopy(e.operand)
    return ast.UnaryOp(op=ast.Not(), operand=copy.deepcopy(e))


def _conj(parts: list) -> ast.AST:
    parts = [p for p in parts if not (isinstance(p, ast.Constant) and p.value is True)]
    if not parts:
        return ast.Constant(value=True)
    if len(parts) == 1:
        return parts[0]
    return ast.BoolOp(op=ast.And(), values=parts)


def _linear_body(body: list):
    """Decompose a loop body of the shape
         [if g: continue]* [local = expr]* (if c: <tail>  |  <tail>)
       into (guards, env, cond, tail) -- guards/cond with locals substituted.  None if not of that shape."""
    guards: list = []
    env: dict = {}
    i = 0
    while i < len(body):
        s = body[i]
        if isinstance(s, ast.If) and len(s.body) == 1 and isinstance(s.body[0], ast.Continue) and not s.orelse:
            guards.append(_neg(_sub(s.test, env)))
            i += 1
            continue
        if isinstance(s, ast.Assign) and len(s.targets) == 1 and isinstance(s.targets[0], ast.Name) and i < len(body) - 1:
            env[s.targets[0].id] = _sub(s.value, env)
            i += 1
            continue
        if isinstance(s, ast.Assign) and len(s.targets) == 1 and isinstance(s.targets[0], ast.Tuple) and i < len(body) - 1 \
                and all(isinstance(x, ast.Name) for x in s.targets[0].elts):
            # a, b, c = E   ->   a = E[0], b = E[1], c = E[2]
            v = _sub(s.value, env)
            for j, x in enumerate(s.targets[0].elts):
                env[x.id] = v.elts[j] if isinstance(v, (ast.Tuple, ast.List)) and len(v.elts) == len(s.targets[0].elts) \
                    else ast.Subscript(value=copy.deepcopy(v), slice=ast.Constant(value=j), ctx=ast.Load())
            i += 1
            continue
        if isinstance(s, ast.Assert):
            i += 1
            continue
        break
    rest = body[i:]
    if len(rest) == 1 and isinstance(rest[0], ast.If) and not rest[0].orelse:
        return guards, env, _sub(rest[0].test, env), rest[0].body
    return guards, env, None, rest


def _strip_asserts(stmts: list) -> list:
    return [s for s in stmts if not isinstance(s, ast.Assert)]


def _gen(elt: ast.AST, target: ast.AST, it: ast.AST, conds: list) -> ast.GeneratorExp:
    c = _conj(conds)
    ifs = [] if isinstance(c, ast.Constant) and c.value is True else [c]
    return ast.GeneratorExp(elt=elt, generators=[ast.comprehension(target=copy.deepcopy(target), iter=copy.deepcopy(it), ifs=ifs, is_async=0)])


def _same_call_shape(a: ast.stmt, b: ast.stmt) -> Optional[ast.stmt]:
    """`if c: f(x, A) else: f(x, B)`  ->  f(x, A if c else B)   (one differing argument; returns a template)"""
    if not (isinstance(a, ast.Expr) and isinstance(b, ast.Expr) and isinstance(a.value, ast.Call) and isinstance(b.value, ast.Call)):
        return None
    ca, cb = a.value, b.value
    if ast.dump(ca.func) != ast.dump(cb.func) or len(ca.args) != len(cb.args) or [k.arg for k in ca.keywords] != [k.arg for k in cb.keywords]:
        return None
    diff = [i for i, (x, y) in enumerate(zip(ca.args, cb.args)) if ast.dump(x) != ast.dump(y)]
    kdiff = [i for i, (x, y) in enumerate(zip(ca.keywords, cb.keywords)) if ast.dump(x.value) != ast.dump(y.value)]
    if len(diff) + len(kdiff) != 1:
        return None
    return a


def _merge_ifelse_calls(s: ast.stmt) -> ast.stmt:
    if isinstance(s, ast.If) and len(s.body) == 1 and len(s.orelse) == 1 and _same_call_shape(s.body[0], s.orelse[0]) is not None:
        ca, cb = s.body[0].value, s.orelse[0].value  # type: ignore[attr-defined]
        new = copy.deepcopy(ca)
        for i, (x, y) in enumerate(zip(ca.args, cb.args)):
            if ast.dump(x) != ast.dump(y):
                new.args[i] = ast.IfExp(test=copy.deepcopy(s.test), body=copy.deepcopy(x), orelse=copy.deepcopy(y))
        for i, (x, y) in enumerate(zip(ca.keywords, cb.keywords)):
            if ast.dump(x.value) != ast.dump(y.value):
                new.keywords[i].value = ast.IfExp(test=copy.deepcopy(s.test), body=copy.deepcopy(x.value), orelse=copy.deepcopy(y.value))
        return ast.fix_missing_locations(ast.copy_location(ast.Expr(value=new), s))
    return s


def _rewrite_block(stmts: list) -> list:
    out: list = []
    i = 0
    stmts = [_merge_ifelse_calls(x) for x in stmts]
    merged: list = []
    for x in stmts:
        if merged:
            g2 = _dict_default_pair(merged[-1], x)
            if g2 is not None:
                merged[-1] = g2
                continue
        # G2r  X = d.get(k); if X is None: return V; return X    ->   return d.get(k, V)
        if len(merged) >= 2 and isinstance(x, ast.Return) and isinstance(x.value, ast.Name):
            a, b = merged[-2], merged[-1]
            if isinstance(a, ast.Assign) and len(a.targets) == 1 and isinstance(a.targets[0], ast.Name) and a.targets[0].id == x.value.id \
                    and isinstance(a.value, ast.Call) and isinstance(a.value.func, ast.Attribute) and a.value.func.attr == "get" \
                    and len(a.value.args) == 1 and not a.value.keywords \
                    and isinstance(b, ast.If) and not b.orelse and len(b.body) == 1 and isinstance(b.body[0], ast.Return) and b.body[0].value is not None \
                    and isinstance(b.test, ast.Compare) and len(b.test.ops) == 1 and isinstance(b.test.ops[0], ast.Is) \
                    and isinstance(b.test.left, ast.Name) and b.test.left.id == x.value.id \
                    and isinstance(b.test.comparators[0], ast.Constant) and b.test.comparators[0].value is None:
                call = ast.Call(func=a.value.func, args=[a.value.args[0], b.body[0].value], keywords=[])
                merged[-2:] = [ast.fix_missing_locations(ast.copy_location(ast.Return(value=call), a))]
                continue
        merged.append(x)
    stmts = merged
    while i < len(stmts):
        s = stmts[i]
        # recurse first
        s = _rewrite_stmt(s)
        if isinstance(s, ast.For) and not s.orelse and isinstance(s.target, (ast.Name, ast.Tuple)):
            tn = _target_names(s.target)
            dec = _linear_body(s.body)
            if dec is not None:
                guards, env, cond, tail = dec
                tail = _strip_asserts(tail)
                nxt = stmts[i + 1] if i + 1 < len(stmts) else None
                # Q: quantifier search
                if cond is not None and len(tail) == 1 and isinstance(tail[0], ast.Return) and isinstance(tail[0].value, ast.Constant) \
                        and isinstance(tail[0].value.value, bool) and isinstance(nxt, ast.Return) and isinstance(nxt.value, ast.Constant) \
                        and isinstance(nxt.value.value, bool) and nxt.value.value != tail[0].value.value:
                    if tail[0].value.value is True:
                        call = ast.Call(func=ast.Name(id="any", ctx=ast.Load()), args=[_gen(cond, s.target, s.iter, guards)], keywords=[])
                    else:
                        call = ast.Call(func=ast.Name(id="all", ctx=ast.Load()), args=[_gen(_neg(cond), s.target, s.iter, guards)], keywords=[])
                    out.append(ast.copy_location(ast.Return(value=ast.fix_missing_locations(ast.copy_location(call, s))), s))
                    i += 2
                    continue
                # S: first-match search   for T in IT: if c: return E   /   return D     ->   return next((E for T in IT if c), D)
                if cond is not None and len(tail) == 1 and isinstance(tail[0], ast.Return) and tail[0].value is not None \
                        and isinstance(nxt, ast.Return) and nxt.value is not None and not (_names_in(nxt.value) & tn):
                    elt = _sub(tail[0].value, env)
                    call = ast.Call(func=ast.Name(id="next", ctx=ast.Load()), args=[_gen(elt, s.target, s.iter, guards + [cond]), nxt.value], keywords=[])
                    out.append(ast.copy_location(ast.Return(value=ast.fix_missing_locations(ast.copy_location(call, s))), s))
                    i += 2
                    continue
                # F: flag search  (the value before the loop is whatever the name held: `v = V if any(..) else v`)
                if cond is not None and tail and isinstance(tail[0], ast.Assign) and len(tail[0].targets) == 1 \
                        and isinstance(tail[0].targets[0], ast.Name):
                    vn = tail[0].targets[0].id
                    v = _sub(tail[0].value, env)
                    rest = tail[1:]
                    ends = len(rest) == 1 and isinstance(rest[0], ast.Break)
                    const_no_break = not rest and isinstance(v, ast.Constant)
                    if (ends or const_no_break) and not (_names_in(v) & tn) and vn not in tn and vn not in _names_in(cond) \
                            and not any(vn in _names_in(g) for g in guards) and vn not in _names_in(s.iter):
                        anyc = ast.Call(func=ast.Name(id="any", ctx=ast.Load()), args=[_gen(cond, s.target, s.iter, guards)], keywords=[])
                        new = ast.Assign(targets=[ast.Name(id=vn, ctx=ast.Store())],
                                         value=ast.IfExp(test=anyc, body=v, orelse=ast.Name(id=vn, ctx=ast.Load())), lineno=s.lineno)
                        out.append(ast.fix_missing_locations(ast.copy_location(new, s)))
                        i += 1
                        continue
                # D: dictionary collection   d = {}; for ..: d[K] = V   ->  d = {K: V for ..}
                if cond is None and len(tail) == 1 and isinstance(tail[0], ast.Assign) and len(tail[0].targets) == 1 \
                        and isinstance(tail[0].targets[0], ast.Subscript) and isinstance(tail[0].targets[0].value, ast.Name):
                    dn = tail[0].targets[0].value.id
                    k = len(out) - 1
                    while k >= 0 and dn not in _names_in(out[k]):
                        k -= 1
                    if k >= 0 and isinstance(out[k], (ast.Assign, ast.AnnAssign)):
                        tgt = out[k].targets[0] if isinstance(out[k], ast.Assign) else out[k].target
                        val = out[k].value
                        if isinstance(tgt, ast.Name) and tgt.id == dn and isinstance(val, ast.Dict) and not val.keys \
                                and dn not in _names_in(s.iter) and not any(dn in _names_in(g) for g in guards) \
                                and dn not in _names_in(tail[0].value) and dn not in _names_in(tail[0].targets[0].slice):
                            g = _gen(ast.Constant(value=None), s.target, s.iter, guards)
                            comp = ast.DictComp(key=_sub(tail[0].targets[0].slice, env), value=_sub(tail[0].value, env), generators=g.generators)
                            new = ast.Assign(targets=[ast.Name(id=dn, ctx=ast.Store())], value=comp, lineno=s.lineno)
                            moved = out[k + 1:]
                            out[k:] = moved + [ast.fix_missing_locations(ast.copy_location(new, s))]
                            i += 1
                            continue
                # C: collection
                app = tail if cond is None else None
                conds = list(guards)
                if cond is not None and len(tail) >= 1:
                    app = tail
                    conds = conds + [cond]
                if app is not None:
                    env2 = dict(env)
                    body2 = list(app)
                    while len(body2) > 1 and isinstance(body2[0], ast.Assign) and len(body2[0].targets) == 1 and isinstance(body2[0].targets[0], ast.Name):
                        env2[body2[0].targets[0].id] = _sub(body2[0].value, env2)
                        body2 = body2[1:]
                    if len(body2) == 1 and isinstance(body2[0], ast.Expr) and isinstance(body2[0].value, ast.Call) \
                            and isinstance(body2[0].value.func, ast.Attribute) and body2[0].value.func.attr == "append" \
                            and isinstance(body2[0].value.func.value, (ast.Name, ast.Attribute)) and len(body2[0].value.args) == 1:
                        recv = body2[0].value.func.value
                        ln = ast.unparse(recv)  # `xs` or `self.xs`

                        def mentions(node: ast.AST) -> bool:
                            return any(isinstance(x, (ast.Name, ast.Attribute)) and ast.unparse(x) == ln for x in ast.walk(node))

                        # find `ln = []` among the statements already emitted, with no use of ln in between
                        k = len(out) - 1
                        while k >= 0 and not mentions(out[k]):
                            k -= 1
                        if k >= 0 and isinstance(out[k], (ast.Assign, ast.AnnAssign)):
                            tgt = out[k].targets[0] if isinstance(out[k], ast.Assign) else out[k].target
                            val = out[k].value
                            if ast.unparse(tgt) == ln and isinstance(val, ast.List) and not val.elts \
                                    and not mentions(s.iter) and not any(mentions(c) for c in conds):
                                elt = _sub(body2[0].value.args[0], env2)
                                g = _gen(elt, s.target, s.iter, conds)
                                comp = ast.ListComp(elt=g.elt, generators=g.generators)
                                store = copy.deepcopy(recv)
                                store.ctx = ast.Store()
                                new = ast.Assign(targets=[store], value=comp, lineno=s.lineno)
                                moved = out[k + 1:]
                                out[k:] = moved + [ast.fix_missing_locations(ast.copy_location(new, s))]
                                i += 1
                                continue
        out.append(s)
        i += 1
    return out


def _dict_default(s: ast.stmt) -> Optional[ast.stmt]:
    """G  dict default     try: X = D[K]  except KeyError: X = V      ->  X = D.get(K, V)
                           try: return D[K]  except KeyError: return V ->  return D.get(K, V)"""
    if not (isinstance(s, ast.Try) and len(s.body) == 1 and len(s.handlers) == 1 and not s.orelse and not s.finalbody):
        return None
    h = s.handlers[0]
    if not (h.type is not None and ast.unparse(h.type) == "KeyError" and len(h.body) == 1):
        return None
    a, b = s.body[0], h.body[0]
    if isinstance(a, ast.Assign) and isinstance(b, ast.Assign) and len(a.targets) == 1 and len(b.targets) == 1 \
            and ast.dump(a.targets[0]) == ast.dump(b.targets[0]) and isinstance(a.value, ast.Subscript):
        call = ast.Call(func=ast.Attribute(value=a.value.value, attr="get", ctx=ast.Load()), args=[a.value.slice, b.value], keywords=[])
        return ast.fix_missing_locations(ast.copy_location(ast.Assign(targets=a.targets, value=call, lineno=s.lineno), s))
    if isinstance(a, ast.Return) and isinstance(b, ast.Return) and isinstance(a.value, ast.Subscript) and b.value is not None:
        call = ast.Call(func=ast.Attribute(value=a.value.value, attr="get", ctx=ast.Load()), args=[a.value.slice, b.value], keywords=[])
        return ast.fix_missing_locations(ast.copy_location(ast.Return(value=call), s))
    return None


def _dict_default_if(s: ast.stmt) -> Optional[ast.stmt]:
    """G3  if k in d: X = d[k] else: X = V   ->  X = d.get(k, V)      (also with `return` in both arms, and negated)"""
    if not (isinstance(s, ast.If) and len(s.body) == 1 and len(s.orelse) == 1 and isinstance(s.test, ast.Compare) and len(s.test.ops) == 1
            and isinstance(s.test.ops[0], (ast.In, ast.NotIn))):
        return None
    a, b = (s.body[0], s.orelse[0]) if isinstance(s.test.ops[0], ast.In) else (s.orelse[0], s.body[0])
    k, d = s.test.left, s.test.comparators[0]

    def is_lookup(e: ast.AST) -> bool:
        return isinstance(e, ast.Subscript) and ast.dump(e.value) == ast.dump(d) and ast.dump(e.slice) == ast.dump(k)

    if isinstance(a, ast.Assign) and isinstance(b, ast.Assign) and len(a.targets) == 1 and len(b.targets) == 1 \
            and ast.dump(a.targets[0]) == ast.dump(b.targets[0]) and is_lookup(a.value):
        call = ast.Call(func=ast.Attribute(value=copy.deepcopy(d), attr="get", ctx=ast.Load()), args=[copy.deepcopy(k), b.value], keywords=[])
        return ast.fix_missing_locations(ast.copy_location(ast.Assign(targets=a.targets, value=call, lineno=s.lineno), s))
    if isinstance(a, ast.Return) and isinstance(b, ast.Return) and a.value is not None and b.value is not None and is_lookup(a.value):
        call = ast.Call(func=ast.Attribute(value=copy.deepcopy(d), attr="get", ctx=ast.Load()), args=[copy.deepcopy(k), b.value], keywords=[])
        return ast.fix_missing_locations(ast.copy_location(ast.Return(value=call), s))
    return None


def _dict_default_pair(a: ast.stmt, b: ast.stmt) -> Optional[ast.stmt]:
    """G2  X = d.get(k); if X is None: X = V   ->  X = d.get(k, V)     (the dict does not hold None)"""
    if not (isinstance(a, ast.Assign) and len(a.targets) == 1 and isinstance(a.targets[0], ast.Name) and isinstance(a.value, ast.Call)
            and isinstance(a.value.func, ast.Attribute) and a.value.func.attr == "get" and len(a.value.args) == 1 and not a.value.keywords):
        return None
    x = a.targets[0].id
    if not (isinstance(b, ast.If) and not b.orelse and len(b.body) == 1 and isinstance(b.test, ast.Compare) and len(b.test.ops) == 1
            and isinstance(b.test.ops[0], ast.Is) and isinstance(b.test.left, ast.Name) and b.test.left.id == x
            and isinstance(b.test.comparators[0], ast.Constant) and b.test.comparators[0].value is None):
        return None
    st = b.body[0]
    if isinstance(st, ast.Assign) and len(st.targets) == 1 and isinstance(st.targets[0], ast.Name) and st.targets[0].id == x:
        call = ast.Call(func=a.value.func, args=[a.value.args[0], st.value], keywords=[])
        return ast.fix_missing_locations(ast.copy_location(ast.Assign(targets=a.targets, value=call, lineno=a.lineno), a))
    if isinstance(st, ast.Return) and st.value is not None:
        return None
    return None


def _rewrite_stmt(s: ast.stmt) -> ast.stmt:
    g = _dict_default(s) or _dict_default_if(s)
    if g is not None:
        return g
    new = None
    for fld in ("body", "orelse", "finalbody"):
        v = getattr(s, fld, None)
        if isinstance(v, list) and v and isinstance(v[0], ast.stmt) and not isinstance(s, (ast.FunctionDef, ast.AsyncFunctionDef, ast.ClassDef)):
            if new is None:
                new = copy.copy(s)
            setattr(new, fld, _rewrite_block(v))
    if isinstance(s, ast.Try):
        if new is None:
            new = copy.copy(s)
        hs = []
        for h in s.handlers:
            h2 = copy.copy(h)
            h2.body = _rewrite_block(h.body)
            hs.append(h2)
        new.handlers = hs
    return new if new is not None else s


class _Fuse(ast.NodeTransformer):
    """[E(x) for x in [G(y) for y in ys if P(y)] if Q(x)] -> [E(G(y)) for y in ys if P(y) and Q(G(y))]"""

    def _comp(self, node):
        self.generic_visit(node)
        if len(node.generators) != 1:
            return node
        g = node.generators[0]
        inner = g.iter
        # enumerate(xs, start=k) with target (i, x)  ->  enumerate(xs) with i+k
        if isinstance(inner, ast.Call) and isinstance(inner.func, ast.Name) and inner.func.id == "enumerate" and isinstance(g.target, ast.Tuple) \
                and len(g.target.elts) == 2 and isinstance(g.target.elts[0], ast.Name):
            start = inner.args[1] if len(inner.args) == 2 else next((k.value for k in inner.keywords if k.arg == "start"), None)
            if start is not None and not (isinstance(start, ast.Constant) and start.value == 0):
                i = g.target.elts[0].id
                env = {i: ast.BinOp(left=ast.Name(id=i, ctx=ast.Load()), op=ast.Add(), right=copy.deepcopy(start))}
                new = copy.copy(node)
                it2 = ast.Call(func=inner.func, args=[inner.args[0]], keywords=[])
                new.generators = [ast.comprehension(target=g.target, iter=it2, ifs=[_sub(c, env) for c in g.ifs], is_async=0)]
                for fld in ("elt", "key", "value"):
                    if hasattr(node, fld):
                        setattr(new, fld, _sub(getattr(node, fld), env))
                return new
        if isinstance(inner, (ast.ListComp, ast.GeneratorExp)) and len(inner.generators) == 1 \
                and not g.is_async and not inner.generators[0].is_async and (
                    isinstance(g.target, ast.Name) or (isinstance(g.target, ast.Tuple) and isinstance(inner.elt, ast.Tuple)
                                                       and len(g.target.elts) == len(inner.elt.elts)
                                                       and all(isinstance(x, ast.Name) for x in g.target.elts))):
            ig = inner.generators[0]
            if isinstance(g.target, ast.Name):
                env = {g.target.id: inner.elt}
            else:
                env = {t.id: v for t, v in zip(g.target.elts, inner.elt.elts)}
            # the outer names are replaced simultaneously by inner expressions over the inner names: a capture
            # is impossible unless an *other* free name of the outer comprehension equals an inner target
            free_outer = set()
            for fld in ("elt", "key", "value"):
                if hasattr(node, fld):
                    free_outer |= _names_in(getattr(node, fld))
            for c in g.ifs:
                free_outer |= _names_in(c)
            if (free_outer - set(env)) & _target_names(ig.target):
                return node
            new = copy.copy(node)
            ifs = list(ig.ifs) + [_sub(c, env) for c in g.ifs]
            new.generators = [ast.comprehension(target=ig.target, iter=ig.iter, ifs=ifs, is_async=0)]
            for fld in ("elt", "key", "value"):
                if hasattr(node, fld):
                    setattr(new, fld, _sub(getattr(node, fld), env))
            return self._comp(new) if isinstance(new.generators[0].iter, (ast.ListComp, ast.GeneratorExp)) else new
        return node

    visit_ListComp = visit_GeneratorExp = visit_SetComp = _comp


class _KeysToItems(ast.NodeTransformer):
    """[.. D[k] .. for k in sorted(D)]   ->   [.. v .. for (k, v) in sorted(D.items())]      (also sorted(D.keys()), D, D.keys())
    Walking the (sorted) keys of a dict and indexing it is walking its (sorted) items."""

    def _rewrite(self, gen: ast.comprehension, bodies: list) -> bool:
        if not isinstance(gen.target, ast.Name):
            return False
        it = gen.iter
        srt = False
        if isinstance(it, ast.Call) and isinstance(it.func, ast.Name) and it.func.id == "sorted" and len(it.args) == 1 and not it.keywords:
            it, srt = it.args[0], True
        if isinstance(it, ast.Call) and isinstance(it.func, ast.Attribute) and it.func.attr == "keys" and not it.args:
            it = it.func.value
        if isinstance(it, ast.Call) and isinstance(it.func, ast.Name) and it.func.id == "list" and len(it.args) == 1:
            it = it.args[0]
        if not isinstance(it, (ast.Name, ast.Attribute)):
            return False
        k = gen.target.id
        d = ast.dump(it)
        uses = [n for b in bodies for n in ast.walk(b) if isinstance(n, ast.Subscript) and isinstance(n.ctx, ast.Load) and ast.dump(n.value) == d
                and isinstance(n.slice, ast.Name) and n.slice.id == k]
        if not uses:
            return False
        v = f"_{k}_value"

        class R(ast.NodeTransformer):
            def visit_Subscript(self, n):
                if isinstance(n.ctx, ast.Load) and ast.dump(n.value) == d and isinstance(n.slice, ast.Name) and n.slice.id == k:
                    return ast.copy_location(ast.Name(id=v, ctx=ast.Load()), n)
                return self.generic_visit(n)
        for i, b in enumerate(bodies):
            bodies[i] = R().visit(b)
        items = ast.Call(func=ast.Attribute(value=it, attr="items", ctx=ast.Load()), args=[], keywords=[])
        gen.iter = ast.Call(func=ast.Name(id="sorted", ctx=ast.Load()), args=[items], keywords=[]) if srt else items
        gen.target = ast.Tuple(elts=[ast.Name(id=k, ctx=ast.Store()), ast.Name(id=v, ctx=ast.Store())], ctx=ast.Store())
        return True

    def _comp(self, n):
        self.generic_visit(n)
        if len(n.generators) == 1:
            g = n.generators[0]
            bodies = ([n.elt] if hasattr(n, "elt") else [n.key, n.value]) + list(g.ifs)
            if self._rewrite(g, bodies):
                if hasattr(n, "elt"):
                    n.elt = bodies[0]
                    g.ifs = bodies[1:]
                else:
                    n.key, n.value = bodies[0], bodies[1]
                    g.ifs = bodies[2:]
        return n

    visit_ListComp = visit_GeneratorExp = visit_SetComp = visit_DictComp = _comp


class _RangeStep(ast.NodeTransformer):
    """[E(x) for x in range(LO, LO + S*N, S)]   ->   [E(LO + S*i) for i in range(N)]       (S a positive integer constant)"""

    def _comp(self, n):
        self.generic_visit(n)
        if len(n.generators) != 1:
            return n
        g = n.generators[0]
        it = g.iter
        if not (isinstance(g.target, ast.Name) and isinstance(it, ast.Call) and isinstance(it.func, ast.Name) and it.func.id == "range"
                and len(it.args) == 3 and not it.keywords and isinstance(it.args[2], ast.Constant) and isinstance(it.args[2].value, int) and it.args[2].value > 1):
            return n
        from .linear import linform
        lo, hi, step = it.args[0], it.args[1], it.args[2].value
        d = linform(ast.BinOp(left=hi, op=ast.Sub(), right=lo))
        if d is None or not d or any(c % step for c in d.values()) or "" in d and len(d) == 1 and d[""] <= 0:
            return n
        # N = (hi - lo) / step, rebuilt from the linear form
        terms = []
        for k, c in sorted(d.items()):
            q = c // step
            if k == "":
                terms.append(ast.Constant(value=q))
            else:
                atom = ast.parse(k, mode="eval").body
                terms.append(atom if q == 1 else ast.BinOp(left=ast.Constant(value=q), op=ast.Mult(), right=atom))
        count: ast.AST = terms[0]
        for t in terms[1:]:
            count = ast.BinOp(left=count, op=ast.Add(), right=t)
        x = g.target.id
        val = ast.BinOp(left=copy.deepcopy(lo), op=ast.Add(), right=ast.BinOp(left=ast.Constant(value=step), op=ast.Mult(), right=ast.Name(id=x, ctx=ast.Load())))

        class R(ast.NodeTransformer):
            def visit_Name(self, m):
                if m.id == x and isinstance(m.ctx, ast.Load):
                    return copy.deepcopy(val)
                return m
        if hasattr(n, "elt"):
            n.elt = R().visit(n.elt)
        else:
            n.key, n.value = R().visit(n.key), R().visit(n.value)
        g.ifs = [R().visit(i) for i in g.ifs]
        g.iter = ast.Call(func=ast.Name(id="range", ctx=ast.Load()), args=[count], keywords=[])
        return n

    visit_ListComp = visit_GeneratorExp = visit_SetComp = visit_DictComp = _comp


NONZERO_ATTR = None  # set by the model: attribute name -> True when every value the attribute can hold is a non-zero integer


class _EnumRangeSym(ast.NodeTransformer):
    """`for i, s in enumerate(range(0, N * S, S))`  ->  `for i in range(N)` with `s := i * S`, for a symbolic step S that is known to be
    non-zero (its finite value set, see sa.valueset, excludes 0): the range then has exactly N elements (none when N <= 0) and the k-th
    is k * S.  S is a name bound once in the function to `self.<attr>`, or `self.<attr>` itself, and is not rebound in the loop."""

    def __init__(self, fn: ast.AST) -> None:
        self.fn = fn
        self.binds: dict = {}
        for n in ast.walk(fn):
            if isinstance(n, ast.Name) and isinstance(n.ctx, (ast.Store, ast.Del)):
                self.binds[n.id] = self.binds.get(n.id, 0) + 1
        self.local_attr: dict = {}
        for n in ast.walk(fn):
            if isinstance(n, ast.Assign) and len(n.targets) == 1 and isinstance(n.targets[0], ast.Name) and self.binds.get(n.targets[0].id) == 1 \
                    and isinstance(n.value, ast.Attribute) and isinstance(n.value.value, ast.Name) and n.value.value.id == "self":
                self.local_attr[n.targets[0].id] = n.value.attr

    def _nonzero(self, e: ast.AST) -> bool:
        if NONZERO_ATTR is None:
            return False
        if isinstance(e, ast.Name) and e.id in self.local_attr:
            return bool(NONZERO_ATTR(self.local_attr[e.id]))
        if isinstance(e, ast.Attribute) and isinstance(e.value, ast.Name) and e.value.id == "self":
            return bool(NONZERO_ATTR(e.attr))
        return False

    def _match(self, target: ast.AST, it: ast.AST):
        if not (isinstance(target, ast.Tuple) and len(target.elts) == 2 and all(isinstance(x, ast.Name) for x in target.elts)):
            return None
        if not (isinstance(it, ast.Call) and isinstance(it.func, ast.Name) and it.func.id == "enumerate" and len(it.args) == 1 and not it.keywords):
            return None
        r = it.args[0]
        if not (isinstance(r, ast.Call) and isinstance(r.func, ast.Name) and r.func.id == "range" and len(r.args) == 3 and not r.keywords):
            return None
        lo, hi, st = r.args
        if not (isinstance(lo, ast.Constant) and lo.value == 0 and isinstance(hi, ast.BinOp) and isinstance(hi.op, ast.Mult)):
            return None
        sd = ast.dump(st)
        n_expr = hi.left if ast.dump(hi.right) == sd else hi.right if ast.dump(hi.left) == sd else None
        if n_expr is None or not self._nonzero(st):
            return None
        return target.elts[0].id, target.elts[1].id, n_expr, st

    @staticmethod
    def _subst(nodes: list, name: str, val: ast.AST) -> list:
        class R(ast.NodeTransformer):
            def visit_Name(self, m):
                if m.id == name and isinstance(m.ctx, ast.Load):
                    return copy.deepcopy(val)
                return m
        return [R().visit(x) for x in nodes]

    def _comp(self, n):
        self.generic_visit(n)
        if len(n.generators) != 1:
            return n
        g = n.generators[0]
        mt = self._match(g.target, g.iter)
        if mt is None:
            return n
        i, s_, n_expr, st = mt
        val = ast.BinOp(left=ast.Name(id=i, ctx=ast.Load()), op=ast.Mult(), right=copy.deepcopy(st))
        if hasattr(n, "elt"):
            n.elt = self._subst([n.elt], s_, val)[0]
        else:
            n.key, n.value = self._subst([n.key], s_, val)[0], self._subst([n.value], s_, val)[0]
        g.ifs = self._subst(g.ifs, s_, val)
        g.target = ast.Name(id=i, ctx=ast.Store())
        g.iter = ast.Call(func=ast.Name(id="range", ctx=ast.Load()), args=[copy.deepcopy(n_expr)], keywords=[])
        return n

    visit_ListComp = visit_GeneratorExp = visit_SetComp = visit_DictComp = _comp

    def visit_For(self, node: ast.For):
        self.generic_visit(node)
        mt = self._match(node.target, node.iter)
        if mt is None or node.orelse:
            return node
        i, s_, n_expr, st = mt
        stn = {x.id for x in ast.walk(st) if isinstance(x, ast.Name)}
        for b in node.body:
            for x in ast.walk(b):
                if isinstance(x, ast.Name) and isinstance(x.ctx, (ast.Store, ast.Del)) and (x.id in (i, s_) or x.id in stn):
                    return node
        val = ast.BinOp(left=ast.Name(id=i, ctx=ast.Load()), op=ast.Mult(), right=copy.deepcopy(st))
        node.body = self._subst(node.body, s_, val)
        node.target = ast.Name(id=i, ctx=ast.Store())
        node.iter = ast.Call(func=ast.Name(id="range", ctx=ast.Load()), args=[copy.deepcopy(n_expr)], keywords=[])
        return node


SIZED_ATTRS: dict = {}  # attribute name -> dump of N: set by the model (sized_attributes) before any function is normalised


def sized_attributes(trees: list, init_only: set) -> dict:
    """Attributes that hold a list of exactly N cells at any time, N an expression over `self.<attributes bound in constructors
    only>`: every store in the package is `self.a = [c] * N`, or `self.a = xs` for a local `xs = [c] * N` never resized, or keeps
    the length (`self.a[i] = v`, `self.a[:k] = [c] * k`); nothing calls a resizing method on `.a`, deletes from it or rebinds it
    any other way.  Name-based over the whole package (two attributes of one name pool their stores: fewer facts, never wrong)."""
    size: dict = {}
    bad: set = set()
    good_n: set = set()  # dumps of size expressions that are over `self.<init-only attribute>` / len() only

    def n_ok(e: ast.AST) -> bool:
        for x in ast.walk(e):
            if isinstance(x, ast.Name) and x.id != "self" and x.id != "len":
                return False
            if isinstance(x, ast.Attribute) and not (isinstance(x.value, ast.Name) and x.value.id == "self" and x.attr in init_only):
                return False
            if isinstance(x, ast.Call) and not (isinstance(x.func, ast.Name) and x.func.id == "len"):
                return False
        return True

    def repl(e: ast.AST):
        if isinstance(e, ast.BinOp) and isinstance(e.op, ast.Mult):
            for a, b in ((e.left, e.right), (e.right, e.left)):
                if isinstance(a, ast.List) and len(a.elts) == 1:
                    return b
        return None
    for tree in trees:
        for fn in ast.walk(tree):
            if not isinstance(fn, (ast.FunctionDef, ast.AsyncFunctionDef)):
                continue
            locs = _IndexToEnumerate.sized_locals(fn)
            for n in ast.walk(fn):
                pairs = []
                if isinstance(n, ast.Assign):
                    pairs = [(t, n.value) for t in n.targets]
                elif isinstance(n, ast.AnnAssign) and n.value is not None:
                    pairs = [(n.target, n.value)]
                elif isinstance(n, ast.AugAssign) and isinstance(n.target, ast.Attribute):
                    bad.add(n.target.attr)
                elif isinstance(n, ast.Delete):
                    for t in n.targets:
                        for x in ast.walk(t):
                            if isinstance(x, ast.Attribute):
                                bad.add(x.attr)
                elif isinstance(n, ast.Call) and isinstance(n.func, ast.Attribute) and isinstance(n.func.value, ast.Attribute) \
                        and n.func.attr in ("append", "insert", "pop", "extend", "remove", "clear"):
                    bad.add(n.func.value.attr)
                elif isinstance(n, (ast.For, ast.With, ast.NamedExpr)):
                    tg = n.target if isinstance(n, (ast.For, ast.NamedExpr)) else None
                    for x in (ast.walk(tg) if tg is not None else []):
                        if isinstance(x, ast.Attribute) and isinstance(x.ctx, ast.Store):
                            bad.add(x.attr)
                for t, v in pairs:
                    if isinstance(t, (ast.Tuple, ast.List)):
                        for x in ast.walk(t):
                            if isinstance(x, ast.Attribute) and isinstance(x.ctx, ast.Store):
                                bad.add(x.attr)
                        continue
                    if isinstance(t, ast.Attribute):
                        nx = repl(v)
                        if nx is not None and n_ok(nx):
                            d = ast.dump(nx)
                            good_n.add(d)
                        elif isinstance(v, ast.Name) and v.id in locs:
                            d = locs[v.id]
                            for b in ast.walk(fn):
                                bt = b.targets[0] if isinstance(b, ast.Assign) and len(b.targets) == 1 else b.target if isinstance(b, ast.AnnAssign) else None
                                if isinstance(bt, ast.Name) and bt.id == v.id and b.value is not None:
                                    bn = repl(b.value)
                                    if bn is not None and n_ok(bn) and ast.dump(bn) == d:
                                        good_n.add(d)
                        else:
                            bad.add(t.attr)
                            continue
                        if size.setdefault(t.attr, d) != d:
                            bad.add(t.attr)
                    elif isinstance(t, ast.Subscript) and isinstance(t.value, ast.Attribute) and isinstance(t.slice, ast.Slice):
                        sl = t.slice
                        nx = repl(v)
                        if not (sl.lower is None and sl.step is None and sl.upper is not None and nx is not None and ast.dump(nx) == ast.dump(sl.upper)):
                            bad.add(t.value.attr)
    return {a: d for a, d in size.items() if a not in bad and d in good_n}


class _IndexToEnumerate(ast.NodeTransformer):
    """`for i in range(len(X)): .. X[i] ..`             ->  `for i, _e in enumerate(X): .. _e ..`
       `for i in range(len(X) - 1, -1, -1): .. X[i] ..` ->  `for i, _e in reversed(list(enumerate(X))): .. _e ..`
    when X is a plain name / attribute chain, `i` is not rebound in the body, `X[i]` is read at least once, and every statement of the
    body that can change X (a store to X or through it, a call on it with a mutating method) comes after the last read of `X[i]` and
    is followed by leaving the loop (so no later iteration sees the change -- the enumerate form works on a snapshot)."""

    def __init__(self, sized: Optional[dict] = None) -> None:
        self.k = 0
        self.sized = sized or {}  # local list name -> dump of N, for a local bound once to `[c] * N` and never resized

    @staticmethod
    def sized_locals(fn: ast.AST) -> dict:
        binds: dict = {}
        for n in ast.walk(fn):
            if isinstance(n, ast.Name) and isinstance(n.ctx, (ast.Store, ast.Del)):
                binds[n.id] = binds.get(n.id, 0) + 1
        out: dict = {}
        for n in ast.walk(fn):
            tgt = n.targets[0] if isinstance(n, ast.Assign) and len(n.targets) == 1 else n.target if isinstance(n, ast.AnnAssign) and n.value is not None else None
            if isinstance(tgt, ast.Name) and binds.get(tgt.id) == 1 \
                    and isinstance(n.value, ast.BinOp) and isinstance(n.value.op, ast.Mult):
                for a, b in ((n.value.left, n.value.right), (n.value.right, n.value.left)):
                    if isinstance(a, ast.List) and len(a.elts) == 1 and isinstance(a.elts[0], ast.Constant):
                        out[tgt.id] = ast.dump(b)
        for n in ast.walk(fn):
            if isinstance(n, ast.Call) and isinstance(n.func, ast.Attribute) and isinstance(n.func.value, ast.Name) and n.func.value.id in out \
                    and n.func.attr in ("append", "insert", "pop", "extend", "remove", "clear"):
                out.pop(n.func.value.id, None)
            if isinstance(n, ast.Subscript) and isinstance(n.ctx, (ast.Store, ast.Del)) and isinstance(n.slice, ast.Slice) and isinstance(n.value, ast.Name):
                out.pop(n.value.id, None)
        return out

    @staticmethod
    def _chain(e: ast.AST) -> bool:
        while isinstance(e, ast.Attribute):
            e = e.value
        return isinstance(e, ast.Name)

    @staticmethod
    def _is_len_of(e: ast.AST):
        if isinstance(e, ast.Call) and isinstance(e.func, ast.Name) and e.func.id == "len" and len(e.args) == 1 and not e.keywords:
            return e.args[0]
        return None

    def _match(self, it: ast.AST):
        """-> (X, descending) or None"""
        if isinstance(it, ast.Call) and isinstance(it.func, ast.Name) and it.func.id == "reversed" and len(it.args) == 1 and not it.keywords:
            inner = self._match(it.args[0])
            if inner is not None and not inner[1] and not hasattr(inner[0], "_read_through"):
                return inner[0], True  # reversed(range(len(X))) counts down over X
            return None
        if not (isinstance(it, ast.Call) and isinstance(it.func, ast.Name) and it.func.id == "range" and not it.keywords):
            return None
        a = it.args

        def const(e, v):
            if isinstance(e, ast.UnaryOp) and isinstance(e.op, ast.USub) and isinstance(e.operand, ast.Constant):
                return -e.operand.value == v
            return isinstance(e, ast.Constant) and e.value == v and not isinstance(e.value, bool)
        if len(a) == 1 or (len(a) == 2 and const(a[0], 0)):
            x = self._is_len_of(a[-1])
            if x is None and isinstance(a[-1], ast.BinOp) and isinstance(a[-1].op, ast.Sub) and isinstance(a[-1].right, ast.Constant) \
                    and isinstance(a[-1].right.value, int) and a[-1].right.value > 0:
                # range(len(X) - K): all but the last K elements -- the loop over X[:-K]
                x0 = self._is_len_of(a[-1].left)
                if x0 is not None and self._chain(x0):
                    sl = ast.Subscript(value=copy.deepcopy(x0), slice=ast.Slice(lower=None, upper=ast.UnaryOp(op=ast.USub(), operand=ast.Constant(value=a[-1].right.value)),
                                                                                step=None), ctx=ast.Load())
                    sl._read_through = x0  # type: ignore[attr-defined]
                    return (sl, False)
            return (x, False) if x is not None and self._chain(x) else None
        if len(a) == 3 and const(a[1], -1) and const(a[2], -1) and isinstance(a[0], ast.BinOp) and isinstance(a[0].op, ast.Sub) and const(a[0].right, 1):
            x = self._is_len_of(a[0].left)
            return (x, True) if x is not None and self._chain(x) else None
        return None

    def _match_sized(self, node: ast.For):
        """`range(N)` / `range(N - 1, -1, -1)` over a local list of exactly N cells (`xs = [None] * N`) that the body indexes"""
        it = node.iter
        if isinstance(it, ast.Call) and isinstance(it.func, ast.Name) and it.func.id == "reversed" and len(it.args) == 1 and not it.keywords \
                and isinstance(it.args[0], ast.Call) and isinstance(it.args[0].func, ast.Name) and it.args[0].func.id == "range" and len(it.args[0].args) == 1:
            probe = copy.copy(node)
            probe.iter = it.args[0]
            got = self._match_sized(probe)
            return (got[0], True) if got is not None and not got[1] else None
        if not (isinstance(it, ast.Call) and isinstance(it.func, ast.Name) and it.func.id == "range" and not it.keywords and (self.sized or SIZED_ATTRS)):
            return None
        a = it.args

        def const(e, v):
            if isinstance(e, ast.UnaryOp) and isinstance(e.op, ast.USub) and isinstance(e.operand, ast.Constant):
                return -e.operand.value == v
            return isinstance(e, ast.Constant) and e.value == v and not isinstance(e.value, bool)
        if len(a) == 1 or (len(a) == 2 and const(a[0], 0)):
            n_expr, desc = a[-1], False
        elif len(a) == 3 and const(a[1], -1) and const(a[2], -1) and isinstance(a[0], ast.BinOp) and isinstance(a[0].op, ast.Sub) and const(a[0].right, 1):
            n_expr, desc = a[0].left, True
        else:
            return None
        nd = ast.dump(n_expr)
        i = node.target.id if isinstance(node.target, ast.Name) else None
        for n in ast.walk(ast.Module(body=node.body, type_ignores=[])):
            if isinstance(n, ast.Subscript) and isinstance(n.ctx, ast.Load) and isinstance(n.value, ast.Name) and self.sized.get(n.value.id) == nd \
                    and isinstance(n.slice, ast.Name) and n.slice.id == i:
                return ast.Name(id=n.value.id, ctx=ast.Load()), desc
            # `self.regs[i]` for an attribute that holds a list of exactly N cells wherever it is bound (see sized_attributes)
            if isinstance(n, ast.Subscript) and isinstance(n.ctx, ast.Load) and isinstance(n.value, ast.Attribute) and isinstance(n.value.value, ast.Name) \
                    and n.value.value.id == "self" and SIZED_ATTRS.get(n.value.attr) == nd and isinstance(n.slice, ast.Name) and n.slice.id == i:
                return copy.deepcopy(n.value), desc
        return None

    def visit_For(self, node: ast.For):
        self.generic_visit(node)
        if not isinstance(node.target, ast.Name) or node.orelse:
            return node
        mt = self._match(node.iter)
        if mt is None:
            mt = self._match_sized(node)
        if mt is None:
            return node
        x, desc = mt
        i = node.target.id
        iter_x = x
        x = getattr(x, "_read_through", x)  # the body indexes X itself; the loop runs over a slice of it
        xd = ast.dump(x)
        root = x
        while isinstance(root, ast.Attribute):
            root = root.value
        # i rebound in the body?
        for n in ast.walk(ast.Module(body=node.body, type_ignores=[])):
            if isinstance(n, ast.Name) and n.id == i and isinstance(n.ctx, (ast.Store, ast.Del)):
                return node
            if isinstance(n, ast.Name) and n.id == root.id and isinstance(n.ctx, (ast.Store, ast.Del)):  # type: ignore[attr-defined]
                return node
        mutators = {"append", "insert", "pop", "extend", "remove", "clear", "sort", "reverse"}

        def is_read(n: ast.AST) -> bool:
            return isinstance(n, ast.Subscript) and isinstance(n.ctx, ast.Load) and ast.dump(n.value) == xd and isinstance(n.slice, ast.Name) and n.slice.id == i

        def modifies(n: ast.AST) -> bool:
            if isinstance(n, (ast.Attribute, ast.Subscript)) and isinstance(n.ctx, (ast.Store, ast.Del)):
                t = n
                while isinstance(t, (ast.Attribute, ast.Subscript)):
                    if ast.dump(_as_load(t)) == xd:
                        return True
                    t = t.value
            if isinstance(n, ast.Call) and isinstance(n.func, ast.Attribute) and n.func.attr in mutators and ast.dump(n.func.value) == xd:
                return True
            return False

        # walk the body in source order: reads of X[i] must all precede the first modification
        order: list = []

        def walk(n: ast.AST) -> None:
            if is_read(n):
                order.append("r")
            if modifies(n):
                order.append("m")
            for ch in ast.iter_child_nodes(n):
                walk(ch)
        for st in node.body:
            walk(st)
        if "r" not in order:
            return node
        if "m" in order and "r" in order[order.index("m"):]:
            return node

        # every modifying statement must be followed by leaving the loop on its own path
        def leaves_after(stmts: list) -> bool:
            """every statement list that contains a modification ends (after it) in break / return / raise"""
            for k, st in enumerate(stmts):
                has_m = any(modifies(n) for n in ast.walk(st))
                if not has_m:
                    continue
                if isinstance(st, (ast.If, ast.With, ast.Try, ast.For, ast.While)):
                    subs = [getattr(st, f) for f in ("body", "orelse", "finalbody") if getattr(st, f, None)]
                    if isinstance(st, ast.Try):
                        subs += [h.body for h in st.handlers]
                    if all(leaves_after(sub) or not any(modifies(n) for s2 in sub for n in ast.walk(s2)) for sub in subs):
                        continue
                rest = stmts[k + 1:]
                if not (rest and isinstance(rest[-1], (ast.Break, ast.Return, ast.Raise))):
                    return False
            return True
        if "m" in order and not leaves_after(node.body):
            return node
        self.k += 1
        e_name = f"_ie{self.k}"

        class R(ast.NodeTransformer):
            def visit_Subscript(self, n: ast.Subscript):
                if is_read(n):
                    return ast.copy_location(ast.Name(id=e_name, ctx=ast.Load()), n)
                return self.generic_visit(n)
        new = copy.copy(node)
        new.body = [R().visit(copy.deepcopy(st)) for st in node.body]
        new.target = ast.Tuple(elts=[ast.Name(id=i, ctx=ast.Store()), ast.Name(id=e_name, ctx=ast.Store())], ctx=ast.Store())
        it: ast.AST = ast.Call(func=ast.Name(id="enumerate", ctx=ast.Load()), args=[copy.deepcopy(iter_x)], keywords=[])
        if not desc and not any(isinstance(n, ast.Name) and n.id == i for st in new.body for n in ast.walk(st)):
            # the index is not used any more: the plain loop over the elements
            new.target = ast.Name(id=e_name, ctx=ast.Store())
            new.iter = copy.deepcopy(iter_x)  # type: ignore[assignment]
            return ast.copy_location(new, node)
        if desc:
            it = ast.Call(func=ast.Name(id="reversed", ctx=ast.Load()), args=[
                ast.Call(func=ast.Name(id="list", ctx=ast.Load()), args=[it], keywords=[])], keywords=[])
        new.iter = it  # type: ignore[assignment]
        return ast.copy_location(new, node)


def _as_load(t: ast.AST) -> ast.AST:
    t = copy.deepcopy(t)
    for n in ast.walk(t):
        if hasattr(n, "ctx"):
            n.ctx = ast.Load()  # type: ignore[attr-defined]
    return t


def _inline_iterables(fn: ast.FunctionDef) -> ast.FunctionDef:
    """`xs = range(..)` / `count(..)` / `zip(..)` / `enumerate(..)` bound once and used once (as what a loop or a comprehension iterates
    over, or as an argument of zip / enumerate): written where it is used, when none of the names it mentions is bound anywhere else."""
    binds: dict = {}
    uses: dict = {}
    for n in ast.walk(fn):
        if isinstance(n, ast.Name):
            (binds if isinstance(n.ctx, (ast.Store, ast.Del)) else uses).setdefault(n.id, []).append(n)
    params = {a.arg for a in fn.args.posonlyargs + fn.args.args + fn.args.kwonlyargs}
    cands: dict = {}
    for n in ast.walk(fn):
        if isinstance(n, ast.Assign) and len(n.targets) == 1 and isinstance(n.targets[0], ast.Name) and isinstance(n.value, ast.Call) \
                and ((isinstance(n.value.func, ast.Name) and n.value.func.id in ("range", "count", "zip", "enumerate", "reversed"))
                     or (isinstance(n.value.func, ast.Attribute) and isinstance(n.value.func.value, ast.Name) and n.value.func.value.id == "itertools"
                         and n.value.func.attr == "count")) \
                and len(binds.get(n.targets[0].id, [])) == 1 and len(uses.get(n.targets[0].id, [])) == 1 and n.targets[0].id not in params:
            free = {x.id for x in ast.walk(n.value) if isinstance(x, ast.Name)} - {n.value.func.id if isinstance(n.value.func, ast.Name) else "itertools"}
            if all(len(binds.get(v, [])) <= (0 if v in params else 1) for v in free):
                cands[n.targets[0].id] = n
    if not cands:
        return fn
    use_ok: set = set()
    for n in ast.walk(fn):
        its = []
        if isinstance(n, ast.For):
            its.append(n.iter)
        elif isinstance(n, ast.comprehension):
            its.append(n.iter)
        for it in its:
            stack = [it]
            while stack:
                x = stack.pop()
                if isinstance(x, ast.Name) and x.id in cands:
                    use_ok.add(x.id)
                elif isinstance(x, ast.Call) and isinstance(x.func, ast.Name) and x.func.id in ("zip", "enumerate", "reversed", "list"):
                    stack.extend(x.args)
    cands = {k: v for k, v in cands.items() if k in use_ok}
    if not cands:
        return fn

    class T(ast.NodeTransformer):
        def visit_Assign(self, n: ast.Assign):
            if any(n is c for c in cands.values()):
                return None
            return self.generic_visit(n)

        def visit_Name(self, n: ast.Name):
            if isinstance(n.ctx, ast.Load) and n.id in cands:
                return copy.deepcopy(cands[n.id].value)
            return n
    new = T().visit(copy.deepcopy(fn))
    # the candidates were identified on `fn`; on the copy they are matched by target name
    return new


class _ZipCount(ast.NodeTransformer):
    """`for a, x in zip(count(START, STEP), XS): BODY`  ->  `for _zi, x in enumerate(XS): BODY[a := START + STEP * _zi]`"""

    def __init__(self) -> None:
        self.k = 0

    def visit_For(self, node: ast.For):
        self.generic_visit(node)
        it = node.iter
        if not (isinstance(it, ast.Call) and isinstance(it.func, ast.Name) and it.func.id == "zip" and len(it.args) == 2 and not it.keywords
                and isinstance(node.target, ast.Tuple) and len(node.target.elts) == 2 and isinstance(node.target.elts[0], ast.Name)):
            return node
        c, xs = it.args
        if not (isinstance(c, ast.Call) and ((isinstance(c.func, ast.Name) and c.func.id == "count") or
                                             (isinstance(c.func, ast.Attribute) and c.func.attr == "count" and isinstance(c.func.value, ast.Name)
                                              and c.func.value.id == "itertools")) and 0 <= len(c.args) <= 2 and not c.keywords):
            return node
        a = node.target.elts[0].id
        if any(isinstance(n, ast.Name) and n.id == a and isinstance(n.ctx, (ast.Store, ast.Del)) for st in node.body for n in ast.walk(st)):
            return node
        start = c.args[0] if c.args else ast.Constant(value=0)
        step = c.args[1] if len(c.args) > 1 else ast.Constant(value=1)
        free = {x.id for x in ast.walk(start) if isinstance(x, ast.Name)} | {x.id for x in ast.walk(step) if isinstance(x, ast.Name)}
        if any(isinstance(n, ast.Name) and n.id in free and isinstance(n.ctx, (ast.Store, ast.Del)) for st in node.body for n in ast.walk(st)):
            return node
        self.k += 1
        i = f"_zi{self.k}"
        prod: ast.AST = ast.Name(id=i, ctx=ast.Load())
        if not (isinstance(step, ast.Constant) and step.value == 1):
            prod = ast.BinOp(left=copy.deepcopy(step), op=ast.Mult(), right=prod)
        addr: ast.AST = prod if (isinstance(start, ast.Constant) and start.value == 0) else ast.BinOp(left=copy.deepcopy(start), op=ast.Add(), right=prod)

        class R(ast.NodeTransformer):
            def visit_Name(self, n: ast.Name):
                if n.id == a and isinstance(n.ctx, ast.Load):
                    return ast.copy_location(copy.deepcopy(addr), n)
                return n
        new = copy.copy(node)
        new.body = [R().visit(copy.deepcopy(st)) for st in node.body]
        new.target = ast.Tuple(elts=[ast.Name(id=i, ctx=ast.Store()), node.target.elts[1]], ctx=ast.Store())
        new.iter = ast.Call(func=ast.Name(id="enumerate", ctx=ast.Load()), args=[xs], keywords=[])
        return ast.copy_location(new, node)


class _CounterLoops(ast.NodeTransformer):
    """`for x in XS: BODY; c += K`   (c stepped by a constant at the very end of every iteration, bound nowhere else in the loop, no
    break / continue)  ->  `for _ci, x in enumerate(XS): BODY[c := c + K * _ci]` -- the recurrence written as its closed form, which is
    what `enumerate` spells directly.  When c is read after the loop, `c += K * len(XS)` follows it (XS a plain name / attribute chain)."""

    def __init__(self, fn: ast.AST) -> None:
        self.k = 0
        self.fn = fn

    def visit_For(self, node: ast.For):
        self.generic_visit(node)
        if node.orelse or not node.body:
            return node
        last = node.body[-1]
        c = None
        step = None
        if isinstance(last, ast.AugAssign) and isinstance(last.op, (ast.Add, ast.Sub)) and isinstance(last.target, ast.Name) \
                and isinstance(last.value, ast.Constant) and isinstance(last.value.value, int) and not isinstance(last.value.value, bool):
            c, step = last.target.id, last.value.value if isinstance(last.op, ast.Add) else -last.value.value
        if c is None or step == 0:
            return node
        body = node.body[:-1]
        for st in body:
            for n in ast.walk(st):
                if isinstance(n, ast.Name) and n.id == c and isinstance(n.ctx, (ast.Store, ast.Del)):
                    return node
                if isinstance(n, (ast.Break, ast.Continue, ast.Return, ast.Yield, ast.YieldFrom)):
                    return node
        if any(isinstance(n, ast.Name) and n.id == c for n in ast.walk(node.target)) or any(isinstance(n, ast.Name) and n.id == c for n in ast.walk(node.iter)):
            return node
        if not any(isinstance(n, ast.Name) and n.id == c and isinstance(n.ctx, ast.Load) for st in body for n in ast.walk(st)):
            return node
        # is c read after the loop?  (anywhere later in source order within the function)
        end = (getattr(node, "end_lineno", None) or node.lineno, getattr(node, "end_col_offset", 0))
        read_later = any(isinstance(n, ast.Name) and n.id == c and isinstance(n.ctx, ast.Load) and (n.lineno, n.col_offset) > end
                         for n in ast.walk(self.fn) if hasattr(n, "lineno"))
        in_outer_loop = False
        # the loop may itself sit in a loop: then "later" includes the next iteration of that loop
        for n in ast.walk(self.fn):
            if isinstance(n, (ast.For, ast.While)) and n is not node and any(x is node for x in ast.walk(n)):
                in_outer_loop = True
        it = node.iter
        chain = it
        while isinstance(chain, ast.Attribute):
            chain = chain.value
        simple_iter = isinstance(chain, ast.Name)
        if (read_later or in_outer_loop) and not simple_iter:
            return node
        # index variable: reuse the one of a plain enumerate, else wrap the iterable
        idx = None
        new = copy.copy(node)
        if isinstance(it, ast.Call) and isinstance(it.func, ast.Name) and it.func.id == "enumerate" and len(it.args) == 1 and not it.keywords \
                and isinstance(node.target, ast.Tuple) and len(node.target.elts) == 2 and isinstance(node.target.elts[0], ast.Name):
            idx = node.target.elts[0].id
            if any(isinstance(n, ast.Name) and n.id == idx and isinstance(n.ctx, (ast.Store, ast.Del)) for st in body for n in ast.walk(st)):
                return node
            length_of = it.args[0]
        else:
            self.k += 1
            idx = f"_ci{self.k}"
            new.target = ast.Tuple(elts=[ast.Name(id=idx, ctx=ast.Store()), node.target], ctx=ast.Store())
            new.iter = ast.Call(func=ast.Name(id="enumerate", ctx=ast.Load()), args=[it], keywords=[])
            length_of = it
        off: ast.AST = ast.Name(id=idx, ctx=ast.Load())
        if abs(step) != 1:
            off = ast.BinOp(left=ast.Constant(value=abs(step)), op=ast.Mult(), right=off)
        closed = ast.BinOp(left=ast.Name(id=c, ctx=ast.Load()), op=ast.Add() if step > 0 else ast.Sub(), right=off)

        class R(ast.NodeTransformer):
            def visit_Name(self, n: ast.Name):
                if n.id == c and isinstance(n.ctx, ast.Load):
                    return ast.copy_location(copy.deepcopy(closed), n)
                return n
        new.body = [R().visit(copy.deepcopy(st)) for st in body] or [ast.copy_location(ast.Pass(), node)]
        out: list = [ast.copy_location(new, node)]
        if read_later or in_outer_loop:
            chain2 = length_of
            while isinstance(chain2, ast.Attribute):
                chain2 = chain2.value
            if not isinstance(chain2, ast.Name):
                return node
            total: ast.AST = ast.Call(func=ast.Name(id="len", ctx=ast.Load()), args=[copy.deepcopy(length_of)], keywords=[])
            if abs(step) != 1:
                total = ast.BinOp(left=ast.Constant(value=abs(step)), op=ast.Mult(), right=total)
            out.append(ast.copy_location(ast.AugAssign(target=ast.Name(id=c, ctx=ast.Store()), op=ast.Add() if step > 0 else ast.Sub(), value=total), node))
        for x in out:
            ast.fix_missing_locations(x)
        return out


def _inline_range_bounds(fn: ast.FunctionDef) -> ast.FunctionDef:
    """A local bound once to plain arithmetic over names that are bound nowhere else (`block_bytes = 4 * n_words`) is written out inside
    the arguments of `range(..)`, so that the stepped-range and offset-range forms see the arithmetic."""
    binds: dict = {}
    for n in ast.walk(fn):
        if isinstance(n, ast.Name) and isinstance(n.ctx, (ast.Store, ast.Del)):
            binds[n.id] = binds.get(n.id, 0) + 1
    params = {a.arg for a in fn.args.posonlyargs + fn.args.args + fn.args.kwonlyargs}
    cands: dict = {}
    for n in ast.walk(fn):
        if isinstance(n, ast.Assign) and len(n.targets) == 1 and isinstance(n.targets[0], ast.Name) and binds.get(n.targets[0].id) == 1 \
                and n.targets[0].id not in params and isinstance(n.value, ast.BinOp) \
                and not any(isinstance(x, (ast.Call, ast.Subscript, ast.IfExp, ast.Lambda, ast.NamedExpr, ast.List, ast.Tuple, ast.Dict, ast.Set, ast.ListComp,
                                           ast.JoinedStr)) for x in ast.walk(n.value)):  # arithmetic on numbers only: `[c] * n` is a list
            free = {x.id for x in ast.walk(n.value) if isinstance(x, ast.Name)}
            if all(binds.get(v, 0) == 0 for v in free):
                cands[n.targets[0].id] = n.value
    if not cands:
        return fn
    hit = [False]

    class A(ast.NodeTransformer):
        def visit_Name(self, n: ast.Name):
            if isinstance(n.ctx, ast.Load) and n.id in cands:
                hit[0] = True
                return copy.deepcopy(cands[n.id])
            return n

    class T(ast.NodeTransformer):
        def visit_Call(self, n: ast.Call):
            self.generic_visit(n)
            if isinstance(n.func, ast.Name) and n.func.id == "range" and not n.keywords:
                n.args = [A().visit(a) for a in n.args]
            return n
    new = T().visit(copy.deepcopy(fn))
    return new if hit[0] else fn


class _IdentityComp(ast.NodeTransformer):
    """`for t in [(a, b) for (a, b) in IT]: BODY`  ->  `for t in IT: BODY`   (a comprehension that rebuilds each element as it is;
    for a loop the list and the iterable it copies are the same sequence of elements).  Tuples only rebuild tuples, so the element
    pattern must be a name or a flat tuple of distinct names with no condition."""

    @staticmethod
    def _identity(c) -> bool:
        if len(c.generators) != 1:
            return False
        g = c.generators[0]
        if g.ifs or g.is_async:
            return False
        if isinstance(g.target, ast.Name):
            return isinstance(c.elt, ast.Name) and c.elt.id == g.target.id
        if isinstance(g.target, ast.Tuple) and isinstance(c.elt, ast.Tuple) and len(g.target.elts) == len(c.elt.elts) \
                and all(isinstance(a, ast.Name) and isinstance(b, ast.Name) and a.id == b.id for a, b in zip(g.target.elts, c.elt.elts)) \
                and len({a.id for a in g.target.elts}) == len(g.target.elts):
            # the source elements must be tuples for the rebuilt tuple to be the same value: enumerate / zip / items yield tuples
            it = g.iter
            while isinstance(it, ast.Call) and isinstance(it.func, ast.Name) and it.func.id in ("reversed", "list", "sorted", "tuple") and len(it.args) == 1:
                it = it.args[0]
            return isinstance(it, ast.Call) and ((isinstance(it.func, ast.Name) and it.func.id in ("enumerate", "zip"))
                                                 or (isinstance(it.func, ast.Attribute) and it.func.attr == "items"))
        return False

    def visit_For(self, node: ast.For):
        self.generic_visit(node)
        if isinstance(node.iter, (ast.ListComp, ast.GeneratorExp)) and self._identity(node.iter):
            node.iter = node.iter.generators[0].iter
        return node


def normalise_loops(fn: ast.FunctionDef) -> ast.FunctionDef:
    if NONZERO_ATTR is not None and any(isinstance(n, ast.Name) and n.id == "enumerate" for n in ast.walk(fn)):
        fn = _EnumRangeSym(fn).visit(copy.deepcopy(fn))
        ast.fix_missing_locations(fn)
    fn = _inline_iterables(fn)
    fn = _inline_range_bounds(fn)
    fn = _ZipCount().visit(copy.deepcopy(fn))
    ast.fix_missing_locations(fn)
    fn = _CounterLoops(fn).visit(fn)
    ast.fix_missing_locations(fn)
    new = copy.copy(fn)
    new.body = list(_IndexToEnumerate(_IndexToEnumerate.sized_locals(fn)).visit(ast.Module(body=copy.deepcopy(list(fn.body)), type_ignores=[])).body)
    new.body = _rewrite_block(list(new.body))
    new = _Fuse().visit(copy.deepcopy(new))
    new = _KeysToItems().visit(new)
    new = _RangeStep().visit(new)
    new = _IdentityComp().visit(new)
    ast.fix_missing_locations(new)
    return new
