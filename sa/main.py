"""Command-line driver (see /verif/check)."""
from __future__ import annotations

import argparse
import importlib
import json
import os
import sys
import traceback

sys.path.insert(0, os.path.dirname(os.path.dirname(os.path.abspath(__file__))))

from sa.model import AnalysisError, Model  # noqa: E402
from sa.report import EXIT_ERROR, EXIT_OK, EXIT_VIOLATION, Ctx, finish  # noqa: E402

PROPS = [f"C{i:02d}" for i in range(1, 21)]


def run_property(prop: str, tier: str, only_rule: str | None = None, only_key: str | None = None,
                 overlay: dict | None = None, quiet: bool = False, out: dict | None = None) -> int:
    try:
        model = Model(overlay=overlay)
    except AnalysisError as exc:
        if not quiet:
            print(f"ANALYSIS-ERROR property={prop} {exc}")
        if out is not None:
            out["error"] = str(exc)
        return EXIT_ERROR
    ctx = Ctx(prop, tier, model)
    try:
        mod = importlib.import_module(f"sa.rules.{prop.lower()}")
    except ModuleNotFoundError:
        print(f"ANALYSIS-ERROR property={prop} no rules implemented for this property")
        return EXIT_ERROR
    err = None
    try:
        mod.run(ctx)
        if tier == "thorough" and hasattr(mod, "run_thorough") and not quiet:
            mod.run_thorough(ctx)
        if ctx.floor_misses and not ctx.findings:
            err = "; ".join(ctx.floor_misses)
        ctx.notes.extend(ctx.floor_misses)
    except AnalysisError as exc:
        # an anchor vanished / a construct left the decidable fragment.  With a violation already
        # established the verdict is "violated" (exit 1) and this is a note; alone it is exit 2.
        if ctx.findings:
            ctx.notes.append(f"analysis incomplete after the reported violation(s): {exc}")
            if not quiet:
                print(f"NOTE property={prop} analysis incomplete after the reported violation(s): {exc}")
        else:
            err = str(exc)
    except Exception as exc:  # checker bug: never dress it up as a violation
        err = f"checker exception {type(exc).__name__}: {exc} :: " + traceback.format_exc().splitlines()[-3].strip()
        if os.environ.get("SA_DEBUG"):
            traceback.print_exc()
    if only_rule is not None:
        ctx.findings = [f for f in ctx.findings if f.rule == only_rule and (only_key is None or f.key == only_key)]
    if out is not None:
        out["findings"] = list(ctx.findings)
        out["error"] = err
        out["ctx"] = ctx
    return finish(ctx, getattr(mod, "EXPLANATION", ""), getattr(mod, "ASSUMPTIONS", []),
                  getattr(mod, "TRUSTED", []), err, quiet=quiet)


def main() -> int:
    ap = argparse.ArgumentParser()
    ap.add_argument("prop", nargs="?")
    ap.add_argument("--tier", default=os.environ.get("VERIF_TIER") or "quick", choices=["quick", "thorough"])
    ap.add_argument("--replay")
    a = ap.parse_args()
    if a.replay:
        with open(a.replay, encoding="utf-8") as fh:
            r = json.load(fh)
        return run_property(r["property"], r.get("tier", "quick"), r["rule"], r["key"])
    if a.prop == "all":
        worst = EXIT_OK
        for p in PROPS:
            rc = run_property(p, a.tier)
            worst = max(worst, rc)
        return worst
    if a.prop not in PROPS:
        ap.error("property must be one of C01..C20 or 'all'")
    rc = run_property(a.prop, a.tier)
    if rc == EXIT_OK and a.tier == "thorough":
        from sa import selftest
        rc = selftest.run_for(a.prop)
    return rc


if __name__ == "__main__":
    try:
        rc = main()
    except SystemExit:
        raise
    except BaseException as exc:  # noqa: BLE001
        print(f"ANALYSIS-ERROR checker crashed: {type(exc).__name__}: {exc}")
        rc = EXIT_ERROR
    sys.stdout.flush()
    sys.exit(rc)
