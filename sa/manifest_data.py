"""Per-property MANIFEST text: what each check decides, and what it does not."""

UC = "check under construction in this round; not claimed until it passes on the unchanged tree and its self-test"

CHECKS = {
    "C16": {
        "text": "Sufficient condition decided at full strength: the interprocedural write-effect closure of every "
                "inspection entry point (all public non-mutator methods of RiscvSimulation/ToySimulation/Simulation, "
                "discovered from the source, and every method the web front end calls) is empty over all "
                "class-hierarchy dispatch targets, i.e. for every memory back end, cache class, replacement policy "
                "and both ISAs at once; no write => no later difference for any program, configuration or "
                "interleaving. Uncounted reads are additionally shown to write no statistic field.",
        "ref": "DESIGN.md section 2, C16",
        "note": "Trusted: CPython ast, the may-alias/freshness abstraction of sa.effects, the external-callee "
                "purity table, absence of monkey-patching (checked by R16.dyn).",
        "technique": "static analysis: interprocedural effect/purity analysis over a CHA call graph",
    },
    "C03": {
        "text": "Three necessary structural conditions of cache transparency are decided for every path / geometry "
                "at once: the word-boundary guard of the access width precedes every store into cache or lower "
                "memory and every value return on all enumerated paths of the 8 multi-byte access methods "
                "(rejects instead of answering wrongly); the tag/index/offset split partitions the 32 address "
                "bits (bit-slice abstract domain, symbolic in the address, exact per geometry on a 7x5 grid); "
                "cached and uncached back ends are configured identically and fill/write-back walk the same "
                "block addresses. Read-your-writes over arbitrary histories is value-level and not decided.",
        "ref": "DESIGN.md section 2, C03",
        "note": "Trusted: ast, path enumeration without test correlation (conservative), bit-slice domain. "
                "Direct (parser preload) writes are outside the boundary rule.",
        "technique": "static analysis: must-pass-through path rule + bit-slice abstract interpretation + sibling agreement + dataflow normal forms (sa.symflow) for fill/write-back/configuration + reset completeness of the cache systems (R03.reset) + DecodedAddress run in the abstract interpreter (locals, named constants)",
    },
    "C07": {
        "text": "Decides the clauses of the schedule visible in the code's shape: exactly one cycle tick per "
                "pipeline step before anything can raise; who-may-write for the cycle counter (tick, miss-penalty "
                "statements on counted miss paths only, TOY half-steps); and agreement of the constants the "
                "documented schedule is built from (WB runs before ID, interlock window = stall duration = stages "
                "between ID and WB, control transfers resolved in MEM with non-inclusive flush, flush cancels "
                "stall, ecall drain window = MEM+WB). Per-instruction retire cycles are dynamic and not decided.",
        "ref": "DESIGN.md section 2, C07",
        "note": "Trusted: ast, constant folding, path enumeration. The stall countdown arithmetic inside "
                "Pipeline.step is value-level.",
        "technique": "static analysis: who-may-write + dominance + constant-agreement rules + reference comparison of Pipeline.step and the stage datapath on dataflow normal forms (truth/decision tables) + truth-function comparison of the interlock condition + who-may-write of the performance-metrics binding (R07.metrics)",
    },
    "C09": {
        "text": "Decides the accounting discipline structurally and exhaustively over paths: on each of the 53 "
                "enumerated paths of the ten counted access methods the accounting group (accesses, hits by "
                "flag, last_was_hit, penalty on the miss branch) occurs exactly once when counted and never when "
                "uncounted; the hit flag is the cache lookup's verdict; the counters have no other writer; each "
                "load/store class performs exactly one counted access in behavior() and forwards the flag in "
                "memory_access(); display, ECALL and parser accesses are uncounted; no other site reaches data "
                "memory. Equality with a reference cache's hit sequence is history-dependent and not decided.",
        "ref": "DESIGN.md section 2, C09",
        "note": "Trusted: ast, path enumeration (uncorrelated tests only add paths).",
        "technique": "static analysis: statistic updates as normal-form stores with truth-function conditions (helpers inlined) + who-may-write + call-site enumeration + reference comparison of the cache lookups and the set's hit decision on dataflow normal forms + MEM stage datapath (memory_access exactly once) + who-may-write of the performance-metrics binding (R09.metrics) + reset completeness of the data cache (R09.reset)",
    },
    "C10": {
        "text": "Only the coupling and self-consistency clauses: the set notifies the policy on every hit and "
                "fill with the right index in the right order and queries the victim from one place; LRU's "
                "access/victim/ages/initial order agree on the list ends; PLRU's leaf offsets are inverse, "
                "parent/children are heap-consistent and the stored bit sends the victim walk to the other child "
                "(parity abstract domain). Correct eviction over arbitrary histories is a statement about all "
                "reachable policy states and is not decided.",
        "ref": "DESIGN.md section 2, C10",
        "note": "Trusted: ast, normal forms, abstract interpreter. LRU.access is compared with enumerated reference forms of move-to-young-end (compared by value); an unrecognised formulation is reported as a violation (fail-closed).",
        "technique": "static analysis: reference comparison of CacheSet.read/write and of LRU.access (enumerated reference forms) on dataflow normal forms + abstract interpretation of both PLRU walks (affine forms over bit symbols, depths 0..4) + who-may-write of the policy state + who-may-call + reset completeness of the caches (R10.reset: policy objects are rebuilt)",
    },
    "C11": {
        "text": "Decides: exactly one guarded read_instruction per executed instruction on every path of the IF "
                "and single stage and no other fetch site (fetch counter = fetches); the full accounting group on "
                "every path of the cached fetch; guarded whole-block fill and selection by block offset; "
                "load_program resets both memories before parsing and reset() restores counters, cache and lower "
                "memory with no other mutable field. Hit counts against a reference cache are not decided.",
        "ref": "DESIGN.md section 2, C11",
        "note": "Trusted: ast, path enumeration. CLI display fetch is a tabled exemption.",
        "technique": "static analysis: call-site enumeration + path rules + reset-completeness + loop-normalised normal form of the block fill + who-may-write of the performance-metrics binding (R11.metrics)",
    },
    "C12": {
        "text": "Decides the mechanisms per path: write-through writes lower memory exactly once with the caller's "
                "address/value on every accepted path and touches the cache only on a hit; every write-back "
                "write_block site consumes the displaced block on the not-None path with nothing that can raise in between; CacheSet.write captures a "
                "dirty victim before overwriting and marks every written block dirty. The invariants over "
                "reachable cache states are not decided.",
        "ref": "DESIGN.md section 2, C12",
        "note": "Trusted: ast, path enumeration.",
        "technique": "static analysis: must-pass-through / result-must-be-consumed path rules + reference comparison of CacheSet.write + bit-slice address partition + reset-completeness",
    },
    "C13": {
        "text": "Decides: guard dominance (first effectful event on every path of step/half-steps/run is preceded "
                "by a not-done test, composed through guard summaries, effects from the interprocedural "
                "summaries), purity of is_done() (so done stays done), run() is the step loop, step() returns "
                "`not is_done()`, load_program resets both memories before parsing on every path, and reset "
                "completeness of the four reset() methods. State equality of run vs step is not claimed by value.",
        "ref": "DESIGN.md section 2, C13",
        "note": "Trusted: ast, sa.effects, sa.paths. Wall-clock fields are a tabled exemption.",
        "technique": "static analysis: effect analysis + guard dominance with summaries + reset-completeness + fresh parser per load / constructor-state completeness of parse() (R13.fresh)",
    },
    "C20": {
        "text": "Decides the sequencing clauses: in both half-steps the is_done() return and the next_cycle test "
                "dominate the first effect on every path; wrong-order paths end in raise StepSequenceError before "
                "any effect and the construction of that error cannot itself fail on a None field; step() and single_step() act only through the self-guarded halves in the right "
                "order / on the right flag value; next_cycle has exactly three writers (1, ->2, ->1). Snapshot "
                "equality at instruction boundaries by value is not decided.",
        "ref": "DESIGN.md section 2, C20",
        "note": "Trusted: ast, sa.effects, sa.paths.",
        "technique": "static analysis: typestate/guard dominance over structured paths + who-may-write + who-may-write of the TOY counters (R20.cost: stepped by the half steps themselves)",
    },
    "C01": {
        "text": "Decides the ISA clauses visible in the code's shape for all operands at once: a normal form of "
                "behavior() per in-scope class (operator, operand order, signedness, shift mask, zero-divisor result, "
                "load/store width and extension, pc target with bit 0 cleared and 32-bit wrap, counters) is compared "
                "row by row with an ISA table encoded in the checker (45 rows); immediate widths by bit-slice "
                "abstract interpretation of the 7 format constructors; x0 by who-may-write over all 46 register "
                "store sites plus index-set folding of the single guarded writer; 32-bit wrap by classifying every "
                "stored value as UInt32-typed; operand-before-destination order (aliasing); one pc advance after "
                "behavior(); ecall service table against the documented help table. Numeric results of fixedint "
                "operators on particular values are library semantics and not re-derived.",
        "ref": "DESIGN.md section 2, C01",
        "note": "Trusted: ast, the ISA table in sa/rules/c01.py, sa.rvnf cast-erasure rules, fixedint semantics. "
                "CSR*/FENCE/EBREAK out of scope as in the property.",
        "technique": "static analysis: normal-form extraction vs ISA table + bit-slice abstract interpretation of the format constructors + who-may-write + truth-function comparison of done() + accessor table and run loop shared with C18/C13 (R01.acc, R01.run)",
    },
    "C02": {
        "text": "Decides sibling agreement of the two implementations of each of the 45 in-scope instruction classes "
                "without running either: behavior() and the composition access_register_file -> alu_compute -> "
                "memory_access -> write_back (under the class's control signals and the checked stage multiplexers) "
                "reduce to the same normal form incl. 32-bit normalisation of pc targets; plus the interlock "
                "interface per class, structural constants of the pipeline (stage chain, write-before-read order, "
                "interlock depth, flush/stall pairing, ecall drain window, redirect targets), stage effect "
                "confinement from interprocedural write summaries, instruction counting, and the broad exception "
                "wrapper. Equality of whole runs under every stall/flush schedule is dynamic and not decided.",
        "ref": "DESIGN.md section 2, C02",
        "note": "Trusted: ast, sa.rvnf, sa.effects, fixedint semantics. The composition hard-codes the stage muxes, "
                "which R02.mux checks as shapes of the stage code.",
        "technique": "static analysis: sibling cross-check by normal forms + stage datapath table and Pipeline.step reference on dataflow normal forms + effect confinement + constant agreement + finally-restoring dispatch helper (R02.fault) + linear arithmetic over condition atoms with value-range facts (sa.ranges)",
    },
    "C04": {
        "text": "Decides: agreement of grammar mnemonics / instruction_map / pseudo handlers; exhaustive and well-typed "
                "constructor dispatch for all 54 classes; every expansion template is a sentence of the grammar for a "
                "real instruction (f-string aligned against the pyparsing alternatives evaluated from the AST); the "
                "documented expansion group per pseudo-instruction; single binding of in-line labels under expansion; "
                "lock-step of the two address counters and the linear form label+offset-address; lexical rules "
                "(caseless mnemonics, ABI table against the calling convention, number syntax by DFA equality). "
                "Label addresses by value for arbitrary programs are not enumerated.",
        "ref": "DESIGN.md section 2, C04",
        "note": "Trusted: ast, sa.ppgram model of the pyparsing subset, sa.align.",
        "technique": "static analysis: grammar IR from AST + template alignment + table agreement + truth functions of the two address passes per entry kind (per-path substitution) + bit-slice evaluation of the lui/addi split + reference comparisons + tokeniser clause (R04.tok: every line tokenised by the parser's own grammar) + who-may-call: every parse() runs on a parser constructed for that load, or parse() re-initialises the constructor state (R04.fresh)",
    },
    "C05": {
        "text": "Decides the layout table row by row (element size recorded for name[i], stride, writer, cast per "
                "declaration type; word alignment; direct preloads; string terminator; .zero reservation), clone "
                "agreement of the three lui/addi split copies and their constants against the I-type geometry "
                "(carry exactly at the 12-bit sign boundary), the linear form of name[i], start address and phase "
                "order. 'li rd, c leaves c mod 2^32 for every c' is value arithmetic argued only through these "
                "constants and R01.immw.",
        "ref": "DESIGN.md section 2, C05",
        "note": "Trusted: ast, consteval, fixedint width reduction.",
        "technique": "static analysis: per-row table agreement + bit-slice evaluation of backward slices (lui/addi split) + residue analysis mod 4 of the layout counter (abstract interpretation) + constant folding + cache-system reset clause in R05.base + per-width accessor fallback of R05.types",
    },
    "C06": {
        "text": "Decides: the instruction register is only loaded by decoding memory[pc] under pc <= max_pc (self-"
                "modifying stores take effect; halting tied to max_pc); two cycles and one count per instruction with "
                "who-may-write for the counters; an operator table for the 13 opcodes (operator, operand order, "
                "destination, BRZ condition/target); UInt16/UInt12 typing of everything stored into accu/pc; total "
                "decode and field widths (shared with C19). Numeric results per opcode and wrap-around at the "
                "boundaries are value-level and not decided.",
        "ref": "DESIGN.md section 2, C06",
        "note": "Trusted: ast, operator table in sa/rules/c06.py, fixedint semantics.",
        "technique": "static analysis: reference comparison of the two half-steps on dataflow normal forms + operator-table normal forms + decode by abstract interpretation per opcode + who-may-write",
    },
    "C08": {
        "text": "Decides that the flag gates the decode interlock and nothing else: one reader (the `if` around the "
                "hazard comparison), whose body only binds the stall signal; register read, destination lookup and "
                "the returned latch outside it; the constructor parameter reaches it unmodified through all hops "
                "(incl. the web entry point); WB before ID; ID writes nothing and only WB writes registers (effect "
                "summaries). Stale-read semantics by value and nop-padding equivalence are dynamic and not decided.",
        "ref": "DESIGN.md section 2, C08",
        "note": "Trusted: ast, sa.effects.",
        "technique": "static analysis: single-reader + parameter-flow by callee signature over every construction site + flag assumed off/on in the stage normal form + effect confinement",
    },
    "C14": {
        "text": "Decides the print/parse round trip structurally for every operand combination: each format's "
                "__repr__ template parses as exactly one alternative of the instruction grammar; every hole's text "
                "language (decimal/hex int, x<n>) is included in the language of the token it lands on and in what "
                "int(.,0) accepts (DFA inclusion); and printed field -> results name -> constructor keyword -> stored "
                "field (through the parser's dispatch branch and the super().__init__ chains) is the identity for "
                "all 53 mnemonics; J-type absolute/relative conversion by linear forms; listing = str() by address. "
                "Value identity of immediates rests on idempotent sign extension (R01.immw).",
        "ref": "DESIGN.md section 2, C14",
        "note": "Trusted: ast, sa.ppgram, sa.align. FENCE excluded by the property.",
        "technique": "static analysis: template/grammar alignment + DFA language inclusion + binding composition + reference comparisons (operand conversion, listing) + bit-slice idempotence of immediates",
    },
    "C15": {
        "text": "Decides: for every int() conversion of a token, inclusion of the token's regular language (from the "
                "pyparsing grammar evaluated from the AST) in CPython's int() literal language for that base incl. "
                "the 4300-digit limit, unless guarded by except ValueError -> parser error; every raise in the call-"
                "graph closure of both parse() methods is a sanctioned type (tabled exemptions with checked "
                "preconditions); line numbers derive from enumerate(splitlines())+1 at all 19 construction sites; "
                "guarded dictionary lookups; parser entries that may be plain strings are used as ParseResults only under a not-a-str test (guard-fact walk); broad run-time wrapper reporting the failing stage's input latch; "
                "front-end classification. IndexError/TypeError sites of ordinary subscripts are not enumerated.",
        "ref": "DESIGN.md section 2, C15",
        "note": "Trusted: ast, CPython literal syntax as modelled, sa.ppgram, sa.effects closure.",
        "technique": "static analysis: regular-language inclusion + raise-site enumeration over the call graph + def-use / provenance (line numbers, str-or-ParseResults entries) + reference comparison of the raise effects of Pipeline.step + sibling agreement of the cached accesses (R15.sib) + assert discharge by abstract interpretation of the backward slice + library calls on the load path",
    },
    "C17": {
        "text": "Decides: ascending order by construction (iteration over sorted(..)), agreement between the width each "
                "formatter call states and the fixed-width type of the value, closed set of formatter call sites, "
                "one width throughout _memory_repr, and the formatter's constants folded for each width in use "
                "(mask by bit-slice evaluation, sign threshold/offset, field widths, grouping, tuple order). Digit "
                "strings for particular values come from str.format and are not re-derived.",
        "ref": "DESIGN.md section 2, C17",
        "note": "Trusted: ast, consteval, bitslice, str.format semantics.",
        "technique": "static analysis: dataflow normal forms of the formatter and the row builder + bit-slice evaluation of the signed/unsigned value + constant folding per width + call-site enumeration",
    },
    "C18": {
        "text": "Decides: the backing dict is touched at exactly two places, both behind the optional wrap and the "
                "range check on every path; little-endian composition/decomposition evaluated in the bit-slice "
                "domain with symbolic value and cells for every cell count; per-width accessor table; both memory "
                "configurations folded from the constructor calls; zero default. Last-writer-wins over histories is "
                "dict semantics and not separately decided.",
        "ref": "DESIGN.md section 2, C18",
        "note": "Trusted: ast, bitslice, consteval, dict semantics.",
        "technique": "static analysis: who-may-access / who-may-call / no-override + dataflow normal form of the cell accessors + reference signatures of the width accessors + abstract interpretation of the multi-cell accessors in the bit-slice domain + configuration folding",
    },
    "C19": {
        "text": "Decides every row of the TOY encode/decode tables and the field arithmetic symbolically: 13 "
                "constructor constants, the from_integer chain (shown total over all 16 opcodes), mnemonic map, "
                "parser lists and micro-program table describe one assignment; opcode/address fields occupy bits "
                "[12,16)/[0,12) in both directions (bit-slice domain) -- decode(encode(i)) == i and a total decode "
                "over all 2^16 words without enumerating them; assembler placement rules as shapes.",
        "ref": "DESIGN.md section 2, C19",
        "note": "Trusted: ast, consteval, bitslice.",
        "technique": "static analysis: table agreement + bit-slice abstract interpretation (fields, decode per opcode) + truth functions of the label pass per entry kind + tokeniser clause (R19.tok) + operand conversion read off the normal form under the 0x / non-0x assumption + who-may-call: every parse() runs on a parser constructed for that load, or parse() re-initialises the constructor state (R19.fresh)",
    },
}

NOT_APPLICABLE = {f"C{i:02d}": UC for i in range(1, 21)}

NOTES = ("Family: static analysis only. Every check re-parses /repo's working tree with ast on each run; nothing "
         "from /repo is imported, executed or symbolically evaluated. Exit 0 = all rule instances hold, 1 = "
         "unlisted violation (VIOLATION line + replay file), 2 = analysis error (vanished anchor, instance count "
         "below the hand-confirmed floor, unmodelled construct) -- never a silent pass. Thorough tier = quick + "
         "type-fact cross-checks + the self-test variants (must-fire / must-stay-silent source edits analysed "
         "in memory, never executed).")
