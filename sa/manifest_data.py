"""Per-property MANIFEST text: what each check decides, and what it does not."""

UC = "check under construction in this round; not claimed until it passes on the unchanged tree and its self-test"

CHECKS = {
    "C16": {
        "text": "Sufficient condition decided at full strength: the interprocedural write-effect closure of every "
                "inspection entry point (all public non-mutator methods of RiscvSimulation/ToySimulation/Simulation, "
                "discovered from the source, and every method the web front end calls) is empty over all "
                "class-hierarchy dispatch targets, i.e. for every memory back end, cache class, replacement policy "
                "and both ISAs at once; no write => no later difference for any program, configuration or "
                "interleaving. Uncounted reads are additionally shown to write no statistic field.",
        "ref": "DESIGN.md section 2, C16",
        "note": "Trusted: CPython ast, the may-alias/freshness abstraction of sa.effects, the external-callee "
                "purity table, absence of monkey-patching (checked by R16.dyn).",
        "technique": "static analysis: interprocedural effect/purity analysis over a CHA call graph",
    },
}

NOT_APPLICABLE = {f"C{i:02d}": UC for i in range(1, 21)}

NOTES = ("Family: static analysis only. Every check re-parses /repo's working tree with ast on each run; nothing "
         "from /repo is imported, executed or symbolically evaluated. Exit 0 = all rule instances hold, 1 = "
         "unlisted violation (VIOLATION line + replay file), 2 = analysis error (vanished anchor, instance count "
         "below the hand-confirmed floor, unmodelled construct) -- never a silent pass. Thorough tier = quick + "
         "type-fact cross-checks + the self-test variants (must-fire / must-stay-silent source edits analysed "
         "in memory, never executed).")
