"""Per-property MANIFEST text: what each check decides, and what it does not."""

UC = "check under construction in this round; not claimed until it passes on the unchanged tree and its self-test"

CHECKS = {
    "C16": {
        "text": "Sufficient condition decided at full strength: the interprocedural write-effect closure of every "
                "inspection entry point (all public non-mutator methods of RiscvSimulation/ToySimulation/Simulation, "
                "discovered from the source, and every method the web front end calls) is empty over all "
                "class-hierarchy dispatch targets, i.e. for every memory back end, cache class, replacement policy "
                "and both ISAs at once; no write => no later difference for any program, configuration or "
                "interleaving. Uncounted reads are additionally shown to write no statistic field.",
        "ref": "DESIGN.md section 2, C16",
        "note": "Trusted: CPython ast, the may-alias/freshness abstraction of sa.effects, the external-callee "
                "purity table, absence of monkey-patching (checked by R16.dyn).",
        "technique": "static analysis: interprocedural effect/purity analysis over a CHA call graph",
    },
    "C03": {
        "text": "Three necessary structural conditions of cache transparency are decided for every path / geometry "
                "at once: the word-boundary guard of the access width precedes every store into cache or lower "
                "memory and every value return on all enumerated paths of the 8 multi-byte access methods "
                "(rejects instead of answering wrongly); the tag/index/offset split partitions the 32 address "
                "bits (bit-slice abstract domain, symbolic in the address, exact per geometry on a 7x5 grid); "
                "cached and uncached back ends are configured identically and fill/write-back walk the same "
                "block addresses. Read-your-writes over arbitrary histories is value-level and not decided.",
        "ref": "DESIGN.md section 2, C03",
        "note": "Trusted: ast, path enumeration without test correlation (conservative), bit-slice domain. "
                "Direct (parser preload) writes are outside the boundary rule.",
        "technique": "static analysis: must-pass-through path rule + bit-slice abstract interpretation + sibling agreement",
    },
    "C07": {
        "text": "Decides the clauses of the schedule visible in the code's shape: exactly one cycle tick per "
                "pipeline step before anything can raise; who-may-write for the cycle counter (tick, miss-penalty "
                "statements on counted miss paths only, TOY half-steps); and agreement of the constants the "
                "documented schedule is built from (WB runs before ID, interlock window = stall duration = stages "
                "between ID and WB, control transfers resolved in MEM with non-inclusive flush, flush cancels "
                "stall, ecall drain window = MEM+WB). Per-instruction retire cycles are dynamic and not decided.",
        "ref": "DESIGN.md section 2, C07",
        "note": "Trusted: ast, constant folding, path enumeration. The stall countdown arithmetic inside "
                "Pipeline.step is value-level.",
        "technique": "static analysis: who-may-write + dominance + constant-agreement rules",
    },
    "C09": {
        "text": "Decides the accounting discipline structurally and exhaustively over paths: on each of the 53 "
                "enumerated paths of the ten counted access methods the accounting group (accesses, hits by "
                "flag, last_was_hit, penalty on the miss branch) occurs exactly once when counted and never when "
                "uncounted; the hit flag is the cache lookup's verdict; the counters have no other writer; each "
                "load/store class performs exactly one counted access in behavior() and forwards the flag in "
                "memory_access(); display, ECALL and parser accesses are uncounted; no other site reaches data "
                "memory. Equality with a reference cache's hit sequence is history-dependent and not decided.",
        "ref": "DESIGN.md section 2, C09",
        "note": "Trusted: ast, path enumeration (uncorrelated tests only add paths).",
        "technique": "static analysis: per-path exactly-once rule + who-may-write + call-site enumeration",
    },
    "C10": {
        "text": "Only the coupling and self-consistency clauses: the set notifies the policy on every hit and "
                "fill with the right index in the right order and queries the victim from one place; LRU's "
                "access/victim/ages/initial order agree on the list ends; PLRU's leaf offsets are inverse, "
                "parent/children are heap-consistent and the stored bit sends the victim walk to the other child "
                "(parity abstract domain). Correct eviction over arbitrary histories is a statement about all "
                "reachable policy states and is not decided.",
        "ref": "DESIGN.md section 2, C10",
        "note": "Trusted: ast, linear forms, parity domain. Unrecognised policy shapes are reported as not decided.",
        "technique": "static analysis: call-order path rule + sibling-consistency in linear/parity domains",
    },
    "C11": {
        "text": "Decides: exactly one guarded read_instruction per executed instruction on every path of the IF "
                "and single stage and no other fetch site (fetch counter = fetches); the full accounting group on "
                "every path of the cached fetch; guarded whole-block fill and selection by block offset; "
                "load_program resets both memories before parsing and reset() restores counters, cache and lower "
                "memory with no other mutable field. Hit counts against a reference cache are not decided.",
        "ref": "DESIGN.md section 2, C11",
        "note": "Trusted: ast, path enumeration. CLI display fetch is a tabled exemption.",
        "technique": "static analysis: call-site enumeration + path rules + reset-completeness",
    },
    "C12": {
        "text": "Decides the mechanisms per path: write-through writes lower memory exactly once with the caller's "
                "address/value on every accepted path and touches the cache only on a hit; every write-back "
                "write_block site consumes the displaced block on the not-None path; CacheSet.write captures a "
                "dirty victim before overwriting and marks every written block dirty. The invariants over "
                "reachable cache states are not decided.",
        "ref": "DESIGN.md section 2, C12",
        "note": "Trusted: ast, path enumeration.",
        "technique": "static analysis: must-pass-through / result-must-be-consumed path rules",
    },
    "C13": {
        "text": "Decides: guard dominance (first effectful event on every path of step/half-steps/run is preceded "
                "by a not-done test, composed through guard summaries, effects from the interprocedural "
                "summaries), purity of is_done() (so done stays done), run() is the step loop, step() returns "
                "`not is_done()`, load_program resets both memories before parsing on every path, and reset "
                "completeness of the four reset() methods. State equality of run vs step is not claimed by value.",
        "ref": "DESIGN.md section 2, C13",
        "note": "Trusted: ast, sa.effects, sa.paths. Wall-clock fields are a tabled exemption.",
        "technique": "static analysis: effect analysis + guard dominance with summaries + reset-completeness",
    },
    "C20": {
        "text": "Decides the sequencing clauses: in both half-steps the is_done() return and the next_cycle test "
                "dominate the first effect on every path; wrong-order paths end in raise StepSequenceError before "
                "any effect; step() and single_step() act only through the self-guarded halves in the right "
                "order / on the right flag value; next_cycle has exactly three writers (1, ->2, ->1). Snapshot "
                "equality at instruction boundaries by value is not decided.",
        "ref": "DESIGN.md section 2, C20",
        "note": "Trusted: ast, sa.effects, sa.paths.",
        "technique": "static analysis: typestate/guard dominance over structured paths + who-may-write",
    },
}

NOT_APPLICABLE = {f"C{i:02d}": UC for i in range(1, 21)}

NOTES = ("Family: static analysis only. Every check re-parses /repo's working tree with ast on each run; nothing "
         "from /repo is imported, executed or symbolically evaluated. Exit 0 = all rule instances hold, 1 = "
         "unlisted violation (VIOLATION line + replay file), 2 = analysis error (vanished anchor, instance count "
         "below the hand-confirmed floor, unmodelled construct) -- never a silent pass. Thorough tier = quick + "
         "type-fact cross-checks + the self-test variants (must-fire / must-stay-silent source edits analysed "
         "in memory, never executed).")
