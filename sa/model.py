"""Source model of the analysed package: modules, imports, classes, MRO, CHA.

Everything is derived from ``ast`` parses of the files under
``$SA_REPO/architecture_simulator`` (default /repo).  Nothing is imported.
"""
from __future__ import annotations

import ast
import hashlib
import os
import warnings
from dataclasses import dataclass, field
from typing import Iterable, Optional, Union

PKG = "architecture_simulator"
FILE_FLOOR = 50  # 53 files on the pinned tree; fewer => the build is not what we think


def repo_root() -> str:
    return os.environ.get("SA_REPO", "/repo")


class AnalysisError(Exception):
    """The analysis cannot decide (vanished anchor, unmodelled construct ...).

    Reported as ANALYSIS-ERROR and exit status 2 -- never as a pass and never
    as a violation.
    """


@dataclass(eq=False)
class FuncInfo:
    name: str
    qname: str
    node: Union[ast.FunctionDef, ast.AsyncFunctionDef]
    module: "ModuleInfo"
    cls: Optional["ClassInfo"] = None

    @property
    def params(self) -> list[str]:
        a = self.node.args
        return [x.arg for x in a.posonlyargs + a.args] + [x.arg for x in a.kwonlyargs]

    @property
    def is_method(self) -> bool:
        return self.cls is not None

    @property
    def decorators(self) -> list[str]:
        return [_dotted(d) or "" for d in self.node.decorator_list]

    @property
    def is_classmethod(self) -> bool:
        return "classmethod" in self.decorators

    @property
    def is_staticmethod(self) -> bool:
        return "staticmethod" in self.decorators

    def loc(self, node: Optional[ast.AST] = None) -> str:
        n = node if node is not None else self.node
        return f"{self.module.relpath}:{getattr(n, 'lineno', 0)}"

    def __repr__(self) -> str:
        return f"<fn {self.qname}>"


@dataclass(eq=False)
class ClassInfo:
    name: str
    qname: str
    node: ast.ClassDef
    module: "ModuleInfo"
    base_exprs: list[ast.expr] = field(default_factory=list)
    bases: list[Union["ClassInfo", str]] = field(default_factory=list)
    methods: dict[str, FuncInfo] = field(default_factory=dict)
    assigns: dict[str, ast.expr] = field(default_factory=dict)
    anns: dict[str, ast.expr] = field(default_factory=dict)

    @property
    def decorators(self) -> list[str]:
        out = []
        for d in self.node.decorator_list:
            if isinstance(d, ast.Call):
                d = d.func
            out.append(_dotted(d) or "")
        return out

    @property
    def is_dataclass(self) -> bool:
        return any(d.split(".")[-1] == "dataclass" for d in self.decorators)

    def loc(self, node: Optional[ast.AST] = None) -> str:
        n = node if node is not None else self.node
        return f"{self.module.relpath}:{getattr(n, 'lineno', 0)}"

    def __repr__(self) -> str:
        return f"<class {self.qname}>"


@dataclass(eq=False)
class ModuleInfo:
    name: str
    path: str
    relpath: str
    src: str
    tree: ast.Module
    imports: dict[str, str] = field(default_factory=dict)
    classes: dict[str, ClassInfo] = field(default_factory=dict)
    functions: dict[str, FuncInfo] = field(default_factory=dict)
    assigns: dict[str, ast.expr] = field(default_factory=dict)

    def seg(self, node: ast.AST) -> str:
        if not hasattr(node, "lineno") or getattr(node, "end_lineno", None) is None:
            return ""
        lines = self.__dict__.get("_lines")
        if lines is None:
            lines = self.__dict__["_lines"] = [l.encode("utf-8") for l in self.src.split("\n")]
        l0, l1 = node.lineno - 1, node.end_lineno - 1  # type: ignore[attr-defined]
        c0, c1 = node.col_offset, node.end_col_offset  # type: ignore[attr-defined]
        if l0 >= len(lines) or l1 >= len(lines):
            return ""
        if l0 == l1:
            return lines[l0][c0:c1].decode("utf-8", "replace")
        parts = [lines[l0][c0:]] + lines[l0 + 1:l1] + [lines[l1][:c1]]
        return b"\n".join(parts).decode("utf-8", "replace")

    def __repr__(self) -> str:
        return f"<module {self.name}>"


def _dotted(e: ast.AST) -> Optional[str]:
    if isinstance(e, ast.Name):
        return e.id
    if isinstance(e, ast.Attribute):
        b = _dotted(e.value)
        return None if b is None else b + "." + e.attr
    return None


dotted = _dotted


class Model:
    def __init__(self, repo: Optional[str] = None, overlay: Optional[dict] = None) -> None:
        self.repo = repo or repo_root()
        # relpath -> replacement source text (self-test variants; never written to disk)
        self.overlay: dict[str, str] = dict(overlay or {})
        self.modules: dict[str, ModuleInfo] = {}
        self.classes: dict[str, ClassInfo] = {}
        self.functions: dict[str, FuncInfo] = {}
        self._mro: dict[ClassInfo, list[ClassInfo]] = {}
        self._subs: dict[ClassInfo, set[ClassInfo]] = {}
        self.absorbed: dict[str, FuncInfo] = {}
        self.inlined_into: dict[str, list[str]] = {}
        self.pulled_up: dict[str, str] = {}
        self._load()

    # ------------------------------------------------------------------ load
    def _load(self) -> None:
        root = os.path.join(self.repo, PKG)
        if not os.path.isdir(root):
            raise AnalysisError(f"package directory missing: {root}")
        files = []
        for dp, dns, fns in os.walk(root):
            dns[:] = sorted(d for d in dns if d != "__pycache__")
            for fn in sorted(fns):
                if fn.endswith(".py"):
                    files.append(os.path.join(dp, fn))
        if len(files) < FILE_FLOOR:
            raise AnalysisError(
                f"only {len(files)} python files under {root}; floor is {FILE_FLOOR}"
            )
        # files that exist only in the overlay (a variant that adds a module)
        on_disk = {os.path.relpath(p_, self.repo) for p_ in files}
        for rel_ in sorted(self.overlay):
            if rel_ not in on_disk and rel_.startswith(PKG + os.sep) and rel_.endswith(".py"):
                files.append(os.path.join(self.repo, rel_))
        for path in files:
            rel = os.path.relpath(path, self.repo)
            modname = rel[:-3].replace(os.sep, ".")
            if modname.endswith(".__init__"):
                modname = modname[: -len(".__init__")]
            if rel in self.overlay:
                src = self.overlay[rel]
            else:
                with open(path, encoding="utf-8") as fh:
                    src = fh.read()
            try:
                with warnings.catch_warnings():
                    warnings.simplefilter("ignore")
                    tree = ast.parse(src, filename=path)
            except SyntaxError as exc:  # does not compile -> not our job, but fail closed
                raise AnalysisError(f"{rel}: syntax error: {exc}") from exc
            self.modules[modname] = ModuleInfo(modname, path, rel, src, tree)
        for m in self.modules.values():
            self._index_module(m)
        for m in self.modules.values():
            for c in m.classes.values():
                c.bases = [self._resolve_base(m, b) for b in c.base_exprs]
        if not os.environ.get("SA_NO_NORMALISE"):
            self._normalise()

    # ------------------------------------------------------------- normalise
    def _normalise(self) -> None:
        """Inline helpers that are not on the confirmed tree into their callers (see sa/inline.py and
        sa/known_functions.txt).  Helpers whose every call site was inlined are *absorbed*: they are
        taken out of the function index, so rules of the form "no other function does X" judge the
        statement where it now runs."""
        from .inline import Inliner  # late: inline imports this module

        known_path = os.path.join(os.path.dirname(os.path.abspath(__file__)), "known_functions.txt")
        with open(known_path, encoding="utf-8") as fh:
            known = {l.strip() for l in fh if l.strip() and not l.startswith("#")}
        self.known_functions = known

        def short(q: str) -> str:
            parts = q.split(".")
            return ".".join(parts[-2:])

        # moved: a module-level function of the confirmed tree that its module now imports from another module of the package is
        # analysed where it used to live (same body; its globals are still resolved in the module that holds the text)
        self.moved_functions = {}
        by_modname: dict = {}
        for mod_ in self.modules.values():
            by_modname.setdefault(mod_.name.split(".")[-1], []).append(mod_)
        have = {short(q) for q in self.functions}
        for k in sorted(known):
            mn_, _, fn_ = k.partition(".")
            if k in have or not fn_ or mn_ not in by_modname or len(by_modname[mn_]) != 1:
                continue
            home = by_modname[mn_][0]
            if fn_ not in home.imports:
                continue
            g_ = self.resolve_dotted(home.imports[fn_])
            if isinstance(g_, FuncInfo) and g_.cls is None and g_.name == fn_ and short(g_.qname) not in known:
                old_q = g_.qname
                self.functions.pop(old_q, None)
                g_.qname = home.name + "." + fn_
                self.functions[g_.qname] = g_
                home.functions[fn_] = g_
                self.moved_functions[g_.qname] = old_q
        # pull-up: a method the confirmed tree defines in class C that C now inherits is analysed as C's own
        # (a copy of the inherited definition with `self: C`), so per-class rules keep their anchors and the
        # type/effect engines dispatch its self-calls from C, not from the base class
        for c in list(self.classes.values()):
            for k in sorted(known):
                cn, _, mn = k.partition(".")
                if cn != c.name or not mn or mn in c.methods:
                    continue
                base_def = None
                for b in self.mro(c)[1:]:
                    if mn in b.methods:
                        base_def = b.methods[mn]
                        break
                if base_def is None or any(isinstance(d, str) and d.endswith("abstractmethod") for d in base_def.decorators):
                    continue
                body = [x for x in base_def.node.body if not (isinstance(x, ast.Expr) and isinstance(x.value, ast.Constant))]
                if all(isinstance(x, ast.Pass) or (isinstance(x, ast.Raise)) for x in body):
                    continue  # still a stub
                import copy as _copy
                g = FuncInfo(mn, f"{c.qname}.{mn}", _copy.deepcopy(base_def.node), base_def.module, c)
                c.methods[mn] = g
                self.functions[g.qname] = g
                self.pulled_up[g.qname] = base_def.qname
        from .localnames import restore_names  # late import
        self.renamed_back = restore_names(self)
        # a method of the confirmed tree that has become `name = staticmethod(module_function)` (or `name = module_function`):
        # the class attribute is analysed as the method it was -- the function's body with a `self` parameter in front
        import copy as _copy2
        for c in list(self.classes.values()):
            for name, val in list(c.assigns.items()):
                if f"{c.name}.{name}" not in known or name in c.methods:
                    continue
                target = val.args[0] if isinstance(val, ast.Call) and isinstance(val.func, ast.Name) and val.func.id == "staticmethod" and len(val.args) == 1 else val
                g = self.resolve_name(c.module, target.id) if isinstance(target, ast.Name) else None
                if isinstance(g, FuncInfo) and g.cls is None:
                    node = _copy2.deepcopy(g.node)
                    node.name = name
                    node.args.args = [ast.arg(arg="self", annotation=None)] + node.args.args
                    node.decorator_list = []
                    ast.fix_missing_locations(node)
                    m_ = FuncInfo(name, f"{c.qname}.{name}", node, g.module, c)
                    c.methods[name] = m_
                    self.functions[m_.qname] = m_
                    self.pulled_up[m_.qname] = g.qname
        self._rehome_externalised_methods(known, short)
        self._properties_to_methods(known, short)
        self._generators_to_lists(known, short)
        self._expand_new_derived_attributes()
        new_helpers = {q: f for q, f in self.functions.items() if short(q) not in known and not f.name.startswith("__")}
        self.absorbed = {}
        self.inlined_into = {}
        if new_helpers:
            # named constants of a helper's own module are written out first, so that its body means the same in the caller's module
            from .idioms import _named_constants
            import copy as _copy6
            for f_ in new_helpers.values():
                node_ = _copy6.deepcopy(f_.node)
                if _named_constants(self, f_, node_):
                    f_.__dict__.setdefault("raw_node", f_.node)
                    f_.node = node_
            self._inline_new_helpers(new_helpers)
        # idioms and small constant tables (sa/idioms.py), then calls through locals bound to (a choice of) bound methods
        from . import loopnorm as _ln
        _model = self

        def _nonzero_attr(attr: str, _memo: dict = {}) -> bool:
            if attr not in _memo:
                from .valueset import value_set
                any_f = next(iter(_model.functions.values()))
                vs = value_set(_model, any_f, ast.Attribute(value=ast.Name(id="self", ctx=ast.Load()), attr=attr, ctx=ast.Load()))
                _memo[attr] = vs is not None and len(vs) > 0 and 0 not in vs
            return _memo[attr]
        _ln.NONZERO_ATTR = _nonzero_attr
        from .idioms import canonicalise
        self.canonicalised = [q for q, f in self.functions.items() if canonicalise(self, f)]
        for f in self.functions.values():
            self._devirtualise_locals(f)
        # attributes that hold a list of exactly N cells wherever they are bound: lets the loop normaliser read
        # `for i in range(N - 1, -1, -1): .. self.a[i] ..` as the loop over `reversed(list(enumerate(self.a)))`
        from . import loopnorm as _ln
        sites = self._attr_sites()
        init_only = {a for a, d in sites.items() if isinstance(d, dict) and d["init_only"] and not d["mutated"]} if not sites.get("*") else set()
        _ln.SIZED_ATTRS = _ln.sized_attributes([f.node for f in self.functions.values()], init_only)

    def _rehome_externalised_methods(self, known: set, short) -> None:
        """A method `C._m(self, a, b)` of the confirmed tree that has become a module-level function `m(obj, a, b)` (same name up to
        leading underscores, not on the confirmed tree) which C's methods call with `self` / `self.<attr>` in the object slots is
        analysed as the method it was: the function's body with those parameters written out as the `self` expressions every call site
        passes, the remaining parameters as the method's own; C's call sites are rewritten to `self._m(..)`.  When no other call of
        the function is left in the package it is taken out of the index (it *is* the method now)."""
        import copy as _cp
        for c in list(self.classes.values()):
            for k in sorted(known):
                cn, _, mn = k.partition(".")
                if cn != c.name or not mn or mn in c.methods or self.lookup(c, mn) is not None:
                    continue
                cands = [g for g in self.functions.values() if g.cls is None and g.name.lstrip("_") == mn.lstrip("_") and g.name.lstrip("_")
                         and short(g.qname) not in known and "." not in g.qname[len(g.module.name) + 1:]]
                if len(cands) != 1:
                    continue
                g = cands[0]
                a = g.node.args
                if a.vararg or a.kwarg or a.kwonlyargs or a.posonlyargs or g.node.decorator_list:
                    continue
                params = [x.arg for x in a.args]
                # call sites inside C
                sites = []
                for f in c.methods.values():
                    sn = f.params[0] if f.params else "self"
                    for n in ast.walk(f.node):
                        if isinstance(n, ast.Call) and isinstance(n.func, ast.Name) and n.func.id == g.name and self.resolve_name(f.module, g.name) is g:
                            sites.append((f, sn, n))
                if not sites or any(n.keywords and any(kw.arg is None for kw in n.keywords) or any(isinstance(x, ast.Starred) for x in n.args) for _f, _s, n in sites):
                    continue

                def bound(n: ast.Call):
                    b = {}
                    for i_, x in enumerate(n.args):
                        if i_ >= len(params):
                            return None
                        b[params[i_]] = x
                    for kw in n.keywords:
                        if kw.arg not in params or kw.arg in b:
                            return None
                        b[kw.arg] = kw.value
                    dflt = dict(zip(reversed(params), reversed(a.defaults)))
                    for p_ in params:
                        if p_ not in b:
                            if p_ not in dflt:
                                return None
                            b[p_] = dflt[p_]
                    return b

                def self_expr(e: ast.AST, sn: str):
                    t = e
                    while isinstance(t, ast.Attribute):
                        t = t.value
                    return isinstance(t, ast.Name) and t.id == sn and isinstance(e, (ast.Name, ast.Attribute))
                binds = [(f, sn, n, bound(n)) for f, sn, n in sites]
                if any(b is None for _f, _s, _n, b in binds):
                    continue
                obj_params = {}
                for p_ in params:
                    texts = set()
                    ok_ = True
                    for f, sn, n, b in binds:
                        if not self_expr(b[p_], sn):
                            ok_ = False
                            break
                        texts.add(ast.unparse(b[p_]).replace(sn, "self", 1) if ast.unparse(b[p_]).startswith(sn) else None)
                    if ok_ and len(texts) == 1 and None not in texts:
                        obj_params[p_] = next(iter(texts))
                if not obj_params:
                    continue
                # the object parameters must not be rebound inside the function
                if any(isinstance(n, ast.Name) and n.id in obj_params and isinstance(n.ctx, (ast.Store, ast.Del)) for n in ast.walk(g.node)):
                    continue
                if any(isinstance(n, ast.Name) and n.id == "self" for n in ast.walk(g.node)):
                    continue
                node = _cp.deepcopy(g.node)
                node.name = mn

                class S(ast.NodeTransformer):
                    def visit_Name(self, n: ast.Name):
                        if n.id in obj_params and isinstance(n.ctx, ast.Load):
                            return ast.copy_location(ast.parse(obj_params[n.id], mode="eval").body, n)
                        return n
                node.body = [S().visit(b_) for b_ in node.body]
                rest = [x for x in node.args.args if x.arg not in obj_params]
                n_def = len(node.args.defaults)
                keep_defaults = [d for x, d in zip(node.args.args[len(node.args.args) - n_def:], node.args.defaults) if x.arg not in obj_params] if n_def else []
                node.args.args = [ast.arg(arg="self", annotation=None)] + rest
                node.args.defaults = keep_defaults
                ast.fix_missing_locations(node)
                m_ = FuncInfo(mn, f"{c.qname}.{mn}", node, g.module, c)
                c.methods[mn] = m_
                self.functions[m_.qname] = m_
                self.pulled_up[m_.qname] = g.qname
                rest_names = [x.arg for x in rest]
                for f, sn, n, b in binds:
                    n.func = ast.copy_location(ast.Attribute(value=ast.Name(id=sn, ctx=ast.Load()), attr=mn, ctx=ast.Load()), n.func)
                    n.args = [b[p_] for p_ in rest_names]
                    n.keywords = []
                    ast.fix_missing_locations(n)
                # any call left elsewhere?  then the function stays in the index as what it is
                left = False
                for f in self.functions.values():
                    if f is m_:
                        continue
                    for n in ast.walk(f.node):
                        if isinstance(n, ast.Call) and isinstance(n.func, ast.Name) and n.func.id == g.name and self.resolve_name(f.module, g.name) is g:
                            left = True
                        if isinstance(n, ast.Call) and isinstance(n.func, ast.Attribute) and n.func.attr == g.name and not isinstance(n.func.value, ast.Name):
                            pass
                if not left:
                    self.functions.pop(g.qname, None)
                    g.module.functions.pop(g.name, None)

    def _properties_to_methods(self, known: set, short) -> None:
        """A read-only `@property` the confirmed tree does not have is a parameterless helper method in disguise: reads `x.P` become
        calls `x.P()` and the decorator is dropped, after which the helper inliner writes the getter's body where it is read.  Done
        when the reads can be attributed: the receiver is `self` inside the property's class hierarchy, or `P` names nothing else
        in the package (no other method / class attribute / stored instance attribute of that name)."""
        props: dict = {}
        for c in self.classes.values():
            for name, f in c.methods.items():
                if short(f.qname) in known:
                    continue
                decs = f.decorators
                if "property" in decs and len(f.params) == 1:
                    props.setdefault(name, []).append((c, f))
        if not props:
            return
        # a setter / deleter makes it a stored attribute again: leave those alone
        for m in self.modules.values():
            for n in ast.walk(m.tree):
                if isinstance(n, (ast.FunctionDef, ast.AsyncFunctionDef)):
                    for d in n.decorator_list:
                        dd = _dotted(d) or ""
                        if dd.endswith(".setter") or dd.endswith(".deleter") or dd.endswith(".getter"):
                            props.pop(dd.split(".")[0], None)
        if not props:
            return
        # a getter that only derives a value from attributes which never change after construction is an attribute computed in
        # __init__ in disguise: written back as that assignment (the confirmed tree's shape), reads stay attribute reads
        self.materialised_properties = []
        try:
            with open(os.path.join(os.path.dirname(os.path.abspath(__file__)), "known_attributes.txt"), encoding="utf-8") as fh:
                known_attrs = {l.strip() for l in fh if l.strip() and not l.startswith("#")}
        except OSError:
            known_attrs = set()
        for name in list(props):
            left = []
            for c, f in props[name]:
                # only a name the confirmed tree already has as an attribute is written back as one (the rules know it by that name); a
                # property under a new name is a helper: its body is written where it is read
                if name in known_attrs and self._materialise_property(c, f):
                    self.materialised_properties.append(f"{c.name}.{name}")
                else:
                    left.append((c, f))
            if left:
                props[name] = left
            else:
                del props[name]
        if not props:
            return
        stored: set = set()
        for m in self.modules.values():
            for n in ast.walk(m.tree):
                if isinstance(n, ast.Attribute) and isinstance(n.ctx, (ast.Store, ast.Del)):
                    stored.add(n.attr)
        unique: set = set()
        for name, defs in props.items():
            owners = {id(c) for c, _ in defs}
            clash = name in stored
            for c in self.classes.values():
                if id(c) in owners:
                    continue
                if name in c.methods or name in c.assigns or name in c.anns:
                    clash = True
            for c, _ in defs:
                if name in c.assigns or name in c.anns:
                    clash = True
            if not clash:
                unique.add(name)
        self.properties_as_methods = sorted(props)

        def hierarchy_has(c: Optional[ClassInfo], name: str) -> bool:
            if c is None:
                return False
            f = self.lookup(c, name)
            return f is not None and any(f is g for _c, g in props.get(name, []))

        class T(ast.NodeTransformer):
            def __init__(self, fn: FuncInfo) -> None:
                self.fn = fn
                self.s0 = fn.params[0] if fn.cls is not None and fn.params and not fn.is_staticmethod and not fn.is_classmethod else None
                self.changed = False

            def visit_Attribute(self, n: ast.Attribute):
                self.generic_visit(n)
                if isinstance(n.ctx, ast.Load) and n.attr in props:
                    if n.attr in unique or (self.s0 is not None and isinstance(n.value, ast.Name) and n.value.id == self.s0
                                            and hierarchy_has(self.fn.cls, n.attr)):
                        self.changed = True
                        return ast.copy_location(ast.Call(func=n, args=[], keywords=[]), n)
                return n

        for f in self.functions.values():
            if not any(isinstance(n, ast.Attribute) and n.attr in props for n in ast.walk(f.node)):
                continue
            t = T(f)
            import copy as _copy3
            node = t.visit(_copy3.deepcopy(f.node))
            if t.changed:
                ast.fix_missing_locations(node)
                f.__dict__.setdefault("raw_node", f.node)
                f.node = node
        for name, defs in props.items():
            for c, f in defs:
                f.node.decorator_list = [d for d in f.node.decorator_list if (_dotted(d) or "") != "property"]

    def _expand_new_derived_attributes(self) -> None:
        """An attribute that the confirmed tree does not have (sa/known_attributes.txt), bound once, at the top level of a constructor, to
        an expression over constructor parameters that are mirrored verbatim into never-rebound attributes, other constructor-only
        attributes, constants and pure builtins -- a cached derived value (`self._mask = (1 << width) - 1`) -- is written out where it
        is read: `x._mask` is `(1 << x.width) - 1`.  No rule knows the new name; every rule knows what it stands for."""
        path = os.path.join(os.path.dirname(os.path.abspath(__file__)), "known_attributes.txt")
        try:
            with open(path, encoding="utf-8") as fh:
                known_attrs = {l.strip() for l in fh if l.strip() and not l.startswith("#")}
        except OSError:
            return
        sites = self._attr_sites()
        if sites.get("*"):
            return
        import copy as _copy7
        import builtins as _b
        defs: dict = {}
        for c in self.classes.values():
            init = c.methods.get("__init__")
            if init is None or not init.params:
                continue
            s0 = init.params[0]
            params = set(init.params[1:])
            rebound = {n.id for n in ast.walk(init.node) if isinstance(n, ast.Name) and isinstance(n.ctx, ast.Store)}
            mirrored: dict = {}
            for st in init.node.body:
                t = v = None
                if isinstance(st, ast.Assign) and len(st.targets) == 1:
                    t, v = st.targets[0], st.value
                elif isinstance(st, ast.AnnAssign) and st.value is not None:
                    t, v = st.target, st.value
                if t is not None and isinstance(t, ast.Attribute) and isinstance(t.value, ast.Name) and t.value.id == s0 and isinstance(v, ast.Name) \
                        and v.id in params and v.id not in rebound and sites.get(t.attr, {}).get("stores") == 1 and sites[t.attr]["init_only"]:
                    mirrored.setdefault(v.id, t.attr)
            for st in init.node.body:
                t = v = None
                if isinstance(st, ast.Assign) and len(st.targets) == 1:
                    t, v = st.targets[0], st.value
                elif isinstance(st, ast.AnnAssign) and st.value is not None:
                    t, v = st.target, st.value
                if t is None or not (isinstance(t, ast.Attribute) and isinstance(t.value, ast.Name) and t.value.id == s0):
                    continue
                a = t.attr
                d = sites.get(a)
                if a in known_attrs or d is None or d["stores"] != 1 or not d["init_only"] or d["mutated"] or a in defs:
                    continue
                if any(a in k.methods or a in k.assigns for k in self.classes.values()):
                    continue
                ok = True
                for n in ast.walk(v):
                    if isinstance(n, ast.Name):
                        if n.id == s0:
                            continue
                        if n.id in params:
                            if n.id not in mirrored:
                                ok = False
                            continue
                        if n.id in rebound:
                            ok = False
                            continue
                        r = self.resolve_name(init.module, n.id)
                        if r is None and not hasattr(_b, n.id):
                            ok = False
                    elif isinstance(n, ast.Call):
                        fn_ = n.func
                        if not ((isinstance(fn_, ast.Name) and fn_.id in self._PURE_CALLS) or
                                (isinstance(fn_, ast.Attribute) and isinstance(fn_.value, ast.Name) and fn_.value.id == "math") or
                                (isinstance(fn_, ast.Attribute) and fn_.attr == "bit_length")):
                            ok = False
                    elif isinstance(n, (ast.List, ast.Dict, ast.Set, ast.ListComp, ast.DictComp, ast.SetComp, ast.GeneratorExp, ast.Lambda, ast.NamedExpr,
                                        ast.Starred, ast.Await, ast.Yield, ast.YieldFrom, ast.JoinedStr)):
                        ok = False
                    elif isinstance(n, ast.Attribute) and isinstance(n.value, ast.Name) and n.value.id == s0:
                        d2 = sites.get(n.attr)
                        if d2 is None or not d2["init_only"] or d2["mutated"] or d2["stores"] == 0:
                            ok = False
                if isinstance(v, (ast.Name, ast.Constant)):
                    ok = False  # a plain mirror / constant: nothing derived
                if ok:
                    defs[a] = (c, s0, mirrored, v, st)
        if not defs:
            return
        self.expanded_attributes = sorted(defs)

        class T(ast.NodeTransformer):
            def __init__(self, skip) -> None:
                self.skip = skip
                self.changed = False

            def visit(self, node):
                if node is self.skip:
                    return node
                return super().visit(node)

            def visit_Attribute(self, n: ast.Attribute):
                self.generic_visit(n)
                if isinstance(n.ctx, ast.Load) and n.attr in defs:
                    recv = n.value
                    t_ = recv
                    while isinstance(t_, ast.Attribute):
                        t_ = t_.value
                    if not isinstance(t_, ast.Name):
                        return n
                    c, s0, mirrored, v, _st = defs[n.attr]

                    class S(ast.NodeTransformer):
                        def visit_Name(self, x: ast.Name):
                            if x.id == s0:
                                return _copy7.deepcopy(recv)
                            if x.id in mirrored:
                                return ast.Attribute(value=_copy7.deepcopy(recv), attr=mirrored[x.id], ctx=ast.Load())
                            return x
                    self.changed = True
                    return ast.copy_location(S().visit(_copy7.deepcopy(v)), n)
                return n

        for f in self.functions.values():
            if not any(isinstance(n, ast.Attribute) and n.attr in defs for n in ast.walk(f.node)):
                continue
            skip = None
            for a, (c, s0, mirrored, v, st) in defs.items():
                if f is c.methods.get("__init__"):
                    skip = st
            node = _copy7.deepcopy(f.node)
            # the defining statement is located again in the copy by position
            skip_copy = None
            if skip is not None:
                for n in ast.walk(node):
                    if type(n) is type(skip) and getattr(n, "lineno", -1) == getattr(skip, "lineno", -2) and getattr(n, "col_offset", -1) == getattr(skip, "col_offset", -2):
                        skip_copy = n
                        break
            t = T(skip_copy)
            node = t.visit(node)
            if t.changed:
                ast.fix_missing_locations(node)
                f.__dict__.setdefault("raw_node", f.node)
                f.node = node

    def _generators_to_lists(self, known: set, short) -> None:
        """A generator function the confirmed tree does not have, whose body only computes (no attribute / subscript stores, no calls
        of methods that are not syntactically pure), yields the same sequence whether it is run lazily or ahead of its consumer: it is
        analysed as the function that returns the list of the yielded values (`yield v` -> `out.append(v)`), which the helper inliner
        and the loop idioms then treat like any collecting loop."""
        from .symflow import _syntactically_pure  # late import
        self.generators_as_lists = []
        for q, f in list(self.functions.items()):
            if short(q) in known:
                continue
            ys = [n for n in ast.walk(f.node) if isinstance(n, (ast.Yield, ast.YieldFrom))]
            if not ys or any(isinstance(n, ast.YieldFrom) for n in ys):
                continue
            ok = True
            parents: dict = {}
            for p_ in ast.walk(f.node):
                for ch in ast.iter_child_nodes(p_):
                    parents[id(ch)] = p_
            for y in ys:
                par = parents.get(id(y))
                if not isinstance(par, ast.Expr) or y.value is None:
                    ok = False  # the value of the yield expression is used (send protocol) / bare yield
            for n in ast.walk(f.node):
                if isinstance(n, (ast.Attribute, ast.Subscript)) and isinstance(n.ctx, (ast.Store, ast.Del)):
                    ok = False
                if isinstance(n, (ast.Global, ast.Nonlocal, ast.Try, ast.With)):
                    ok = False
                if isinstance(n, ast.Call):
                    nm = n.func.attr if isinstance(n.func, ast.Attribute) else n.func.id if isinstance(n.func, ast.Name) else None
                    if nm is None:
                        ok = False
                    elif isinstance(n.func, ast.Attribute) and self.methods_named(nm) and not _syntactically_pure(self, nm):
                        ok = False
                    elif isinstance(n.func, ast.Attribute) and nm in ("append", "insert", "pop", "extend", "remove", "clear", "sort", "reverse", "update",
                                                                        "setdefault", "add", "discard", "popitem", "write", "send"):
                        ok = False
            if not ok:
                # an impure generator is still the list of what it yields when every call of it is consumed on the spot, whole:
                # list(g()), tuple(g()), sorted(g()), "".join(g()) ...
                sites_ok = True
                n_sites = 0
                consumers = {"list", "tuple", "sorted", "set", "frozenset", "sum", "dict", "max", "min", "any", "all"}
                for g_ in self.functions.values():
                    pmap: dict = {}
                    for p_ in ast.walk(g_.node):
                        for ch in ast.iter_child_nodes(p_):
                            pmap[id(ch)] = p_
                    for c_ in ast.walk(g_.node):
                        if isinstance(c_, ast.Call) and ((isinstance(c_.func, ast.Attribute) and c_.func.attr == f.name) or
                                                         (isinstance(c_.func, ast.Name) and c_.func.id == f.name)):
                            n_sites += 1
                            par_ = pmap.get(id(c_))
                            good = isinstance(par_, ast.Call) and len(par_.args) == 1 and par_.args[0] is c_ and (
                                (isinstance(par_.func, ast.Name) and par_.func.id in consumers) or
                                (isinstance(par_.func, ast.Attribute) and par_.func.attr == "join"))
                            if not good:
                                sites_ok = False
                    for c_ in ast.walk(g_.node):
                        if isinstance(c_, ast.Attribute) and c_.attr == f.name and not isinstance(pmap.get(id(c_)), ast.Call):
                            sites_ok = False  # taken as a value
                structural = all(not isinstance(n, (ast.Global, ast.Nonlocal, ast.Try, ast.With)) for n in ast.walk(f.node)) and \
                    all(isinstance(parents.get(id(y)), ast.Expr) and y.value is not None for y in ys)
                if not (sites_ok and n_sites and structural):
                    continue
            import copy as _copy5
            node = _copy5.deepcopy(f.node)
            out_name = "_yielded"

            class T(ast.NodeTransformer):
                def visit_FunctionDef(self, n):
                    return n if n is not node else self.generic_visit(n)

                def visit_Lambda(self, n):
                    return n

                def visit_Expr(self, n: ast.Expr):
                    if isinstance(n.value, ast.Yield):
                        return ast.copy_location(ast.Expr(value=ast.Call(func=ast.Attribute(value=ast.Name(id=out_name, ctx=ast.Load()), attr="append",
                                                                                              ctx=ast.Load()), args=[n.value.value], keywords=[])), n)
                    return n

                def visit_Return(self, n: ast.Return):
                    return ast.copy_location(ast.Return(value=ast.Name(id=out_name, ctx=ast.Load())), n)
            node = T().visit(node)
            doc = [st for st in node.body[:1] if isinstance(st, ast.Expr) and isinstance(st.value, ast.Constant) and isinstance(st.value.value, str)]
            rest = node.body[len(doc):]
            init = ast.Assign(targets=[ast.Name(id=out_name, ctx=ast.Store())], value=ast.List(elts=[], ctx=ast.Load()), lineno=node.lineno)
            node.body = doc + [init] + rest + [ast.Return(value=ast.Name(id=out_name, ctx=ast.Load()))]
            node.returns = None
            ast.fix_missing_locations(node)
            f.__dict__.setdefault("raw_node", f.node)
            f.node = node
            self.generators_as_lists.append(short(q))

    _PURE_CALLS = {"len", "int", "bool", "abs", "min", "max", "pow", "round", "divmod"}

    def _attr_sites(self) -> dict:
        """attribute name -> {"init_only": every store is a plain `x.a = ..` inside some __init__, "mutated": some `.a.<mutator>(` /
        `.a[..] = ` / `del .a[..]` / augmented store exists}  (name-based over the whole package: an over-approximation)"""
        memo = self.__dict__.get("_attr_sites_memo")
        if memo is not None:
            return memo
        memo = {}
        mutators = {"append", "insert", "pop", "extend", "remove", "clear", "sort", "reverse", "update", "setdefault", "popitem", "add", "discard",
                    "__setitem__", "__delitem__"}
        for m in self.modules.values():
            for fn in ast.walk(m.tree):
                if not isinstance(fn, (ast.FunctionDef, ast.AsyncFunctionDef, ast.Module, ast.ClassDef)):
                    continue
                in_init = isinstance(fn, ast.FunctionDef) and fn.name == "__init__"
                for n in ast.iter_child_nodes(fn):
                    stack = [n]
                    while stack:
                        x = stack.pop()
                        if isinstance(x, (ast.FunctionDef, ast.AsyncFunctionDef, ast.ClassDef)) and x is not fn:
                            continue
                        if isinstance(x, ast.Attribute):
                            d = memo.setdefault(x.attr, {"init_only": True, "mutated": False, "stores": 0})
                            if isinstance(x.ctx, (ast.Store, ast.Del)):
                                d["stores"] += 1
                                if not in_init or isinstance(x.ctx, ast.Del):
                                    d["init_only"] = False
                        if isinstance(x, ast.AugAssign) and isinstance(x.target, ast.Attribute):
                            memo.setdefault(x.target.attr, {"init_only": True, "mutated": False, "stores": 0})["init_only"] = False
                        if isinstance(x, ast.Subscript) and isinstance(x.ctx, (ast.Store, ast.Del)) and isinstance(x.value, ast.Attribute):
                            memo.setdefault(x.value.attr, {"init_only": True, "mutated": False, "stores": 0})["mutated"] = True
                        if isinstance(x, ast.Call) and isinstance(x.func, ast.Attribute) and x.func.attr in mutators and isinstance(x.func.value, ast.Attribute):
                            memo.setdefault(x.func.value.attr, {"init_only": True, "mutated": False, "stores": 0})["mutated"] = True
                        if isinstance(x, ast.Call) and isinstance(x.func, ast.Name) and x.func.id in ("setattr", "delattr"):
                            nm = x.args[1].value if len(x.args) > 1 and isinstance(x.args[1], ast.Constant) else None
                            if nm is None:
                                memo["*"] = True
                            else:
                                memo.setdefault(nm, {"init_only": True, "mutated": False, "stores": 0})["init_only"] = False
                        stack.extend(ast.iter_child_nodes(x))
        self.__dict__["_attr_sites_memo"] = memo
        return memo

    def _materialise_property(self, c: ClassInfo, f: FuncInfo) -> bool:
        init = c.methods.get("__init__")
        if init is None or not init.params:
            return False
        sites = self._attr_sites()
        if sites.get("*"):
            return False
        body = body_without_docstring(f.node)
        body = [st for st in body if not isinstance(st, ast.Assert)]
        if len(body) != 1 or not isinstance(body[0], ast.Return) or body[0].value is None:
            return False
        e = body[0].value
        s_get = f.params[0]
        s0 = init.params[0]
        reads: set = set()
        for n in ast.walk(e):
            if isinstance(n, ast.Name):
                if n.id == s_get:
                    continue
                r = self.resolve_name(f.module, n.id)
                import builtins as _b
                if r is None and not hasattr(_b, n.id):
                    return False
                if isinstance(r, tuple) and r[0] == "assign":
                    continue  # a module constant
            if isinstance(n, ast.Call):
                fn_ = n.func
                ok = (isinstance(fn_, ast.Name) and fn_.id in self._PURE_CALLS) or \
                     (isinstance(fn_, ast.Attribute) and isinstance(fn_.value, ast.Name) and fn_.value.id == "math") or \
                     (isinstance(fn_, ast.Attribute) and fn_.attr in ("bit_length",))
                if not ok:
                    return False
            if isinstance(n, (ast.List, ast.Dict, ast.Set, ast.ListComp, ast.DictComp, ast.SetComp, ast.GeneratorExp, ast.Lambda, ast.Await, ast.Yield,
                              ast.YieldFrom, ast.NamedExpr, ast.Starred)):
                return False
        # first-level attributes of self that the expression reads
        class V(ast.NodeVisitor):
            def visit_Attribute(self, n: ast.Attribute):
                if isinstance(n.value, ast.Name) and n.value.id == s_get:
                    reads.add(n.attr)
                else:
                    self.generic_visit(n)
        V().visit(e)
        if any(isinstance(n, ast.Name) and n.id == s_get for n in ast.walk(e)
               if not any(isinstance(p_, ast.Attribute) and p_.value is n for p_ in ast.walk(e))):
            return False  # bare `self`
        for a in reads:
            d = sites.get(a)
            if d is None or not d["init_only"] or d["mutated"] or d["stores"] == 0:
                return False
            if a in {nm for k in self.classes.values() for nm in k.methods}:
                return False
        # mirrored parameters and where the dependencies are stored in __init__
        top = init.node.body
        mirrored: dict = {}
        last = -1
        param_set = set(init.params[1:])
        rebound = {n.id for n in ast.walk(init.node) if isinstance(n, ast.Name) and isinstance(n.ctx, ast.Store)}
        for i, st in enumerate(top):
            t = v = None
            if isinstance(st, ast.Assign) and len(st.targets) == 1:
                t, v = st.targets[0], st.value
            elif isinstance(st, ast.AnnAssign) and st.value is not None:
                t, v = st.target, st.value
            if t is not None and isinstance(t, ast.Attribute) and isinstance(t.value, ast.Name) and t.value.id == s0 and isinstance(v, ast.Name) \
                    and v.id in param_set and v.id not in rebound and sites.get(t.attr, {}).get("stores") == 1:
                mirrored[t.attr] = v.id
            stores_here = {n.attr for n in ast.walk(st) if isinstance(n, ast.Attribute) and isinstance(n.ctx, ast.Store)
                           and isinstance(n.value, ast.Name) and n.value.id == s0}
            is_super = any(isinstance(n, ast.Call) and isinstance(n.func, ast.Attribute) and n.func.attr == "__init__" for n in ast.walk(st))
            if stores_here & reads or (is_super and any(a not in {x.attr for x in ast.walk(init.node) if isinstance(x, ast.Attribute)
                                                                      and isinstance(x.ctx, ast.Store)} for a in reads)):
                last = i
        stored_in_init = {x.attr for x in ast.walk(init.node) if isinstance(x, ast.Attribute) and isinstance(x.ctx, ast.Store)}
        if any(a not in stored_in_init for a in reads) and not any(
                isinstance(n, ast.Call) and isinstance(n.func, ast.Attribute) and n.func.attr == "__init__" for n in ast.walk(init.node)):
            return False
        import copy as _copy4

        class Sub(ast.NodeTransformer):
            def visit_Attribute(self, n: ast.Attribute):
                if isinstance(n.value, ast.Name) and n.value.id == s_get:
                    if n.attr in mirrored:
                        return ast.copy_location(ast.Name(id=mirrored[n.attr], ctx=ast.Load()), n)
                    return ast.copy_location(ast.Attribute(value=ast.Name(id=s0, ctx=ast.Load()), attr=n.attr, ctx=ast.Load()), n)
                return self.generic_visit(n)
        e2 = Sub().visit(_copy4.deepcopy(e))
        at = top[last] if last >= 0 else (top[0] if top else init.node)
        tgt = ast.Attribute(value=ast.Name(id=s0, ctx=ast.Load()), attr=f.name, ctx=ast.Store())
        if f.node.returns is not None:
            # the getter's return annotation is the attribute's annotation (the receiver typing reads it)
            new_st = ast.copy_location(ast.AnnAssign(target=tgt, annotation=_copy4.deepcopy(f.node.returns), value=e2, simple=0), at)
        else:
            new_st = ast.copy_location(ast.Assign(targets=[tgt], value=e2, lineno=getattr(at, "lineno", 0)), at)
        ast.fix_missing_locations(new_st)
        node = _copy4.copy(init.node)
        pos = last + 1
        # keep a leading docstring in front
        if pos == 0 and top and isinstance(top[0], ast.Expr) and isinstance(top[0].value, ast.Constant) and isinstance(top[0].value.value, str):
            pos = 1
        node.body = list(top[:pos]) + [new_st] + list(top[pos:])
        init.__dict__.setdefault("raw_node", init.node)
        init.node = node
        # the getter is gone from the model
        c.methods.pop(f.name, None)
        self.functions.pop(f.qname, None)
        self._attr_sites_memo = None  # type: ignore[assignment]
        self.__dict__.pop("_attr_sites_memo", None)
        return True

    def _inline_new_helpers(self, new_helpers: dict) -> None:
        from .inline import Inliner

        def want(h: FuncInfo) -> bool:
            return h.qname in new_helpers

        # `x = helper(..) if c else y` hides the helper call in a conditional value: written as the `if` statement it abbreviates, so that
        # the call stands at statement level where the inliner can expand it
        helper_names = {h.name for h in new_helpers.values()}

        def calls_helper(e: ast.AST) -> bool:
            for n in ast.walk(e):
                if isinstance(n, ast.Call):
                    nm = n.func.attr if isinstance(n.func, ast.Attribute) else n.func.id if isinstance(n.func, ast.Name) else None
                    if nm in helper_names:
                        return True
            return False

        class SplitIfExp(ast.NodeTransformer):
            def visit_FunctionDef(self, n):
                return self.generic_visit(n)

            def _split(self, st, value, mk):
                if isinstance(value, ast.IfExp) and (calls_helper(value.body) or calls_helper(value.orelse)) and not calls_helper(value.test):
                    new_if = ast.If(test=value.test, body=[mk(value.body)], orelse=[mk(value.orelse)])
                    ast.copy_location(new_if, st)
                    ast.fix_missing_locations(new_if)
                    return new_if
                return st

            def visit_Assign(self, st: ast.Assign):
                import copy as _c
                if len(st.targets) == 1 and isinstance(st.targets[0], (ast.Name, ast.Attribute)):
                    return self._split(st, st.value, lambda v: ast.Assign(targets=[_c.deepcopy(st.targets[0])], value=v, lineno=st.lineno))
                return st

            def visit_Return(self, st: ast.Return):
                return self._split(st, st.value, lambda v: ast.Return(value=v))
        for f in self.functions.values():
            if any(isinstance(n, ast.IfExp) for n in ast.walk(f.node)) and calls_helper(f.node):
                import copy as _c7
                node7 = SplitIfExp().visit(_c7.deepcopy(f.node))
                if ast.dump(node7) != ast.dump(f.node):
                    f.__dict__.setdefault("raw_node", f.node)
                    f.node = node7
        views: dict[str, FuncInfo] = {}
        for q, f in list(self.functions.items()):
            inl = Inliner(self, want)
            g = inl.view(f)
            if g is not f:
                views[q] = g
                self.inlined_into[q] = list(dict.fromkeys(inl.inlined))
        # which helpers still have a call site somewhere outside the candidate set?
        cand = {q for q in new_helpers if any(q in v for v in self.inlined_into.values())}
        while True:
            names = {self.functions[q].name: q for q in cand}
            leftover: set = set()
            roots: list[ast.AST] = []
            for q, f in self.functions.items():
                if q in cand:
                    continue
                roots.append(views[q].node if q in views else f.node)
            for m in self.modules.values():
                for st in m.tree.body:
                    if isinstance(st, ast.ClassDef):
                        roots.extend(b for b in st.body if not isinstance(b, (ast.FunctionDef, ast.AsyncFunctionDef)))
                    elif not isinstance(st, (ast.FunctionDef, ast.AsyncFunctionDef)):
                        roots.append(st)
            for r in roots:
                for n in ast.walk(r):
                    if isinstance(n, ast.Call):
                        nm = n.func.attr if isinstance(n.func, ast.Attribute) else n.func.id if isinstance(n.func, ast.Name) else None
                        if nm in names:
                            leftover.add(names[nm])
                    elif isinstance(n, ast.Attribute) and n.attr in names and not isinstance(getattr(n, "ctx", None), ast.Store):
                        pass
            if not leftover:
                break
            cand -= leftover
        for q, g in views.items():
            f = self.functions[q]
            f.__dict__["raw_node"] = f.node
            f.node = g.node
        for q in cand:
            f = self.functions.pop(q)
            self.absorbed[q] = f
            if f.cls is not None:
                f.cls.methods.pop(f.name, None)
            else:
                f.module.functions.pop(f.name, None)

    def _devirtualise_locals(self, f: FuncInfo) -> None:
        """`h = self.a if c else self.b; h(x)`  ->  `if c: self.a(x) else: self.b(x)`  (and `h = self.a; h(x)` -> `self.a(x)`):
        a call through a local that is bound once to (a choice of) bound methods is written back as direct calls, so the
        call-resolving engines see the callees."""
        import copy as _copy
        node = f.node
        assigns: dict = {}
        uses: dict = {}
        for n in ast.walk(node):
            if isinstance(n, (ast.FunctionDef, ast.AsyncFunctionDef, ast.Lambda)) and n is not node:
                return  # nested scopes: leave alone
        for n in ast.walk(node):
            if isinstance(n, ast.Assign) and len(n.targets) == 1 and isinstance(n.targets[0], ast.Name):
                assigns.setdefault(n.targets[0].id, []).append(n)
            elif isinstance(n, ast.Name) and isinstance(n.ctx, ast.Store):
                assigns.setdefault(n.id, [])
        stores: dict = {}
        for n in ast.walk(node):
            if isinstance(n, ast.Name) and isinstance(n.ctx, (ast.Store, ast.Del)):
                stores[n.id] = stores.get(n.id, 0) + 1
            elif isinstance(n, ast.Name) and isinstance(n.ctx, ast.Load):
                uses.setdefault(n.id, []).append(n)

        def callable_expr(e: ast.AST) -> bool:
            if isinstance(e, ast.Attribute) and isinstance(e.value, ast.Name):
                return True
            if isinstance(e, ast.IfExp):
                return callable_expr(e.body) and callable_expr(e.orelse)
            return False

        cands = {}
        for name, lst in assigns.items():
            if len(lst) == 1 and stores.get(name, 0) == 1 and callable_expr(lst[0].value):
                call_funcs = [c.func for c in ast.walk(node) if isinstance(c, ast.Call) and isinstance(c.func, ast.Name) and c.func.id == name]
                if call_funcs and len(call_funcs) == len(uses.get(name, [])):
                    cands[name] = lst[0]
        if not cands:
            return

        def direct(e: ast.AST, call: ast.Call) -> ast.AST:
            if isinstance(e, ast.IfExp):
                return ast.IfExp(test=_copy.deepcopy(e.test), body=direct(e.body, call), orelse=direct(e.orelse, call))
            return ast.Call(func=_copy.deepcopy(e), args=_copy.deepcopy(call.args), keywords=_copy.deepcopy(call.keywords))

        def stmt_form(e: ast.AST, call: ast.Call, at: ast.AST) -> ast.stmt:
            if isinstance(e, ast.IfExp):
                return ast.If(test=_copy.deepcopy(e.test), body=[stmt_form(e.body, call, at)], orelse=[stmt_form(e.orelse, call, at)])
            return ast.Expr(value=direct(e, call))

        class T(ast.NodeTransformer):
            def visit_Assign(self, n: ast.Assign):
                if any(n is a for a in cands.values()):
                    return None
                return self.generic_visit(n)

            def visit_Expr(self, n: ast.Expr):
                v = n.value
                if isinstance(v, ast.Call) and isinstance(v.func, ast.Name) and v.func.id in cands:
                    new = stmt_form(cands[v.func.id].value, v, n)
                    return ast.fix_missing_locations(ast.copy_location(new, n))
                return self.generic_visit(n)

            def visit_Call(self, n: ast.Call):
                self.generic_visit(n)
                if isinstance(n.func, ast.Name) and n.func.id in cands:
                    return ast.fix_missing_locations(ast.copy_location(direct(cands[n.func.id].value, n), n))
                return n

        new = T().visit(_copy.deepcopy(node))
        for n in ast.walk(new):
            for fld in ("body", "orelse", "finalbody"):
                b = getattr(n, fld, None)
                if isinstance(b, list) and not b and fld == "body":
                    setattr(n, fld, [ast.Pass()])
        ast.fix_missing_locations(new)
        f.__dict__.setdefault("raw_node", f.node)
        f.node = new

    def _index_module(self, m: ModuleInfo) -> None:
        is_pkg = m.path.endswith("__init__.py")
        for st in ast.walk(m.tree):
            if isinstance(st, ast.Import):
                for a in st.names:
                    if a.asname:
                        m.imports[a.asname] = a.name
                    else:
                        m.imports[a.name.split(".")[0]] = a.name.split(".")[0]
            elif isinstance(st, ast.ImportFrom):
                base = st.module or ""
                if st.level:
                    parts = m.name.split(".")
                    if not is_pkg:
                        parts = parts[:-1]
                    if st.level > 1:
                        parts = parts[: -(st.level - 1)]
                    base = ".".join(parts + ([st.module] if st.module else []))
                for a in st.names:
                    m.imports[a.asname or a.name] = base + "." + a.name
        for st in m.tree.body:
            self._index_stmt(m, st)

    def _index_stmt(self, m: ModuleInfo, st: ast.stmt) -> None:
        if isinstance(st, (ast.FunctionDef, ast.AsyncFunctionDef)):
            f = FuncInfo(st.name, f"{m.name}.{st.name}", st, m)
            m.functions[st.name] = f
            self.functions[f.qname] = f
        elif isinstance(st, ast.ClassDef):
            c = ClassInfo(st.name, f"{m.name}.{st.name}", st, m, list(st.bases))
            m.classes[st.name] = c
            self.classes[c.qname] = c
            for b in st.body:
                if isinstance(b, (ast.FunctionDef, ast.AsyncFunctionDef)):
                    f = FuncInfo(b.name, f"{c.qname}.{b.name}", b, m, c)
                    c.methods[b.name] = f
                    self.functions[f.qname] = f
                elif isinstance(b, ast.Assign):
                    for t in b.targets:
                        if isinstance(t, ast.Name):
                            c.assigns[t.id] = b.value
                elif isinstance(b, ast.AnnAssign) and isinstance(b.target, ast.Name):
                    c.anns[b.target.id] = b.annotation
                    if b.value is not None:
                        c.assigns[b.target.id] = b.value
        elif isinstance(st, ast.Assign):
            for t in st.targets:
                if isinstance(t, ast.Name):
                    m.assigns[t.id] = _dict_literal(st.value)
        elif isinstance(st, ast.AnnAssign) and isinstance(st.target, ast.Name):
            if st.value is not None:
                m.assigns[st.target.id] = _dict_literal(st.value)
        elif isinstance(st, ast.If):
            # ``if TYPE_CHECKING:`` blocks only hold imports (already walked)
            for b in st.body + st.orelse:
                self._index_stmt(m, b)

    # --------------------------------------------------------------- resolve
    def resolve_dotted(self, name: str, _depth: int = 0):
        """Resolve a dotted path to ModuleInfo / ClassInfo / FuncInfo /
        ('assign', module, name) / ('ext', name)."""
        if _depth > 8:
            return ("ext", name)
        if name in self.modules:
            return self.modules[name]
        if "." in name:
            head, last = name.rsplit(".", 1)
            if head in self.modules:
                m = self.modules[head]
                if last in m.classes:
                    return m.classes[last]
                if last in m.functions:
                    return m.functions[last]
                if last in m.assigns:
                    return ("assign", m, last)
                if last in m.imports:
                    return self.resolve_dotted(m.imports[last], _depth + 1)
        return ("ext", name)

    def resolve_name(self, m: ModuleInfo, name: str):
        if name in m.classes:
            return m.classes[name]
        if name in m.functions:
            return m.functions[name]
        if name in m.assigns:
            return ("assign", m, name)
        if name in m.imports:
            return self.resolve_dotted(m.imports[name])
        return None

    def resolve_expr(self, m: ModuleInfo, e: ast.AST):
        """Resolve Name / dotted Attribute / Subscript-of-generic to a model object."""
        if isinstance(e, ast.Subscript):
            return self.resolve_expr(m, e.value)
        if isinstance(e, ast.Name):
            return self.resolve_name(m, e.id)
        if isinstance(e, ast.Attribute):
            base = self.resolve_expr(m, e.value)
            if isinstance(base, ModuleInfo):
                if e.attr in base.classes:
                    return base.classes[e.attr]
                if e.attr in base.functions:
                    return base.functions[e.attr]
                if e.attr in base.assigns:
                    return ("assign", base, e.attr)
                if e.attr in base.imports:
                    return self.resolve_dotted(base.imports[e.attr])
                sub = base.name + "." + e.attr
                if sub in self.modules:
                    return self.modules[sub]
                return None
            if isinstance(base, tuple) and base[0] == "ext":
                return ("ext", base[1] + "." + e.attr)
            return None
        return None

    def resolve_class(self, m: ModuleInfo, e: ast.AST) -> Optional[ClassInfo]:
        r = self.resolve_expr(m, e)
        return r if isinstance(r, ClassInfo) else None

    def _resolve_base(self, m: ModuleInfo, e: ast.expr) -> Union[ClassInfo, str]:
        r = self.resolve_expr(m, e)
        if isinstance(r, ClassInfo):
            return r
        if isinstance(r, tuple) and r[0] == "ext":
            return r[1]
        d = _dotted(e.value if isinstance(e, ast.Subscript) else e)
        return d or ast.dump(e)

    # -------------------------------------------------------------- lookups
    def cls(self, name: str) -> ClassInfo:
        if name in self.classes:
            return self.classes[name]
        hits = [c for q, c in self.classes.items() if q.endswith("." + name)]
        if len(hits) == 1:
            return hits[0]
        if not hits:
            raise AnalysisError(f"anchor vanished: class {name}")
        raise AnalysisError(f"ambiguous class name {name}: {[c.qname for c in hits]}")

    def module(self, suffix: str) -> ModuleInfo:
        if suffix in self.modules:
            return self.modules[suffix]
        hits = [m for q, m in self.modules.items() if q.endswith("." + suffix)]
        if len(hits) == 1:
            return hits[0]
        if not hits:
            raise AnalysisError(f"anchor vanished: module {suffix}")
        raise AnalysisError(f"ambiguous module suffix {suffix}")

    def func(self, qname_suffix: str) -> FuncInfo:
        if qname_suffix in self.functions:
            return self.functions[qname_suffix]
        hits = [f for q, f in self.functions.items() if q.endswith("." + qname_suffix)]
        if len(hits) == 1:
            return hits[0]
        if not hits:
            raise AnalysisError(f"anchor vanished: function {qname_suffix}")
        raise AnalysisError(
            f"ambiguous function {qname_suffix}: {[f.qname for f in hits]}"
        )

    def method(self, cls: Union[str, ClassInfo], name: str, own: bool = False) -> FuncInfo:
        c = self.cls(cls) if isinstance(cls, str) else cls
        # own=True prefers the class's own definition; a method pulled up into a base class is still the
        # code that runs for this class, so the inherited definition is the anchor then
        f = c.methods.get(name) if own else None
        if f is None:
            f = self.lookup(c, name)
        if f is None:
            raise AnalysisError(f"anchor vanished: method {c.qname}.{name}")
        return f

    # ------------------------------------------------------------------ MRO
    def mro(self, c: ClassInfo) -> list[ClassInfo]:
        if c in self._mro:
            return self._mro[c]
        self._mro[c] = [c]  # cycle guard
        seqs = [list(self.mro(b)) for b in c.bases if isinstance(b, ClassInfo)]
        seqs.append([b for b in c.bases if isinstance(b, ClassInfo)])
        out = [c]
        seqs = [s for s in seqs if s]
        while seqs:
            for s in seqs:
                cand = s[0]
                if not any(cand in t[1:] for t in seqs):
                    break
            else:
                raise AnalysisError(f"inconsistent MRO for {c.qname}")
            out.append(cand)
            seqs = [[x for x in s if x is not cand] for s in seqs]
            seqs = [s for s in seqs if s]
        self._mro[c] = out
        return out

    def external_bases(self, c: ClassInfo) -> set[str]:
        out: set[str] = set()
        for k in self.mro(c):
            out |= {b for b in k.bases if isinstance(b, str)}
        return out

    def is_subclass(self, c: ClassInfo, base: ClassInfo) -> bool:
        return base in self.mro(c)

    def subclasses(self, c: ClassInfo, strict: bool = False) -> set[ClassInfo]:
        if c not in self._subs:
            self._subs[c] = {k for k in self.classes.values() if c in self.mro(k)}
        s = self._subs[c]
        return s - {c} if strict else set(s)

    def lookup(self, c: ClassInfo, name: str) -> Optional[FuncInfo]:
        for k in self.mro(c):
            if name in k.methods:
                return k.methods[name]
        return None

    def lookup_assign(self, c: ClassInfo, name: str) -> Optional[tuple[ClassInfo, ast.expr]]:
        for k in self.mro(c):
            if name in k.assigns:
                return k, k.assigns[name]
        return None

    def lookup_ann(self, c: ClassInfo, name: str) -> Optional[tuple[ClassInfo, ast.expr]]:
        for k in self.mro(c):
            if name in k.anns:
                return k, k.anns[name]
        return None

    def dispatch(self, c: ClassInfo, name: str) -> set[FuncInfo]:
        """All definitions a call ``x.name()`` may reach when x: c (CHA)."""
        out: set[FuncInfo] = set()
        f = self.lookup(c, name)
        if f is not None:
            out.add(f)
        for k in self.subclasses(c, strict=True):
            if name in k.methods:
                out.add(k.methods[name])
        return out

    def methods_named(self, name: str) -> set[FuncInfo]:
        return {
            c.methods[name] for c in self.classes.values() if name in c.methods
        }

    # --------------------------------------------------------------- digest
    def digest(self, relpaths: Optional[Iterable[str]] = None) -> str:
        h = hashlib.sha256()
        for m in sorted(self.modules.values(), key=lambda x: x.relpath):
            if relpaths is None or m.relpath in relpaths:
                h.update(m.relpath.encode())
                h.update(m.src.encode())
        return h.hexdigest()[:16]


# ---------------------------------------------------------------- ast helpers
def _dict_literal(v: ast.expr) -> ast.expr:
    """`dict(enumerate([A, B, C]))` / `dict(enumerate([..], K))` / `dict(zip([k..], [v..]))` with literal sequences is the dict display
    `{0: A, 1: B, 2: C}`: module-level dispatch tables are read as displays whichever way they are spelled."""
    if not (isinstance(v, ast.Call) and isinstance(v.func, ast.Name) and v.func.id == "dict" and len(v.args) == 1 and not v.keywords):
        return v
    a = v.args[0]
    if isinstance(a, ast.Call) and isinstance(a.func, ast.Name) and a.func.id == "enumerate" and 1 <= len(a.args) <= 2 \
            and isinstance(a.args[0], (ast.List, ast.Tuple)) and not any(isinstance(x, ast.Starred) for x in a.args[0].elts):
        start = 0
        if len(a.args) == 2:
            if not (isinstance(a.args[1], ast.Constant) and isinstance(a.args[1].value, int)):
                return v
            start = a.args[1].value
        for kw in a.keywords:
            if kw.arg == "start" and isinstance(kw.value, ast.Constant) and isinstance(kw.value.value, int):
                start = kw.value.value
            else:
                return v
        elts = a.args[0].elts
        return ast.copy_location(ast.Dict(keys=[ast.Constant(value=start + i) for i in range(len(elts))], values=list(elts)), v)
    if isinstance(a, ast.Call) and isinstance(a.func, ast.Name) and a.func.id == "zip" and len(a.args) == 2 and not a.keywords \
            and all(isinstance(x, (ast.List, ast.Tuple)) and not any(isinstance(y, ast.Starred) for y in x.elts) for x in a.args) \
            and len(a.args[0].elts) == len(a.args[1].elts) and all(isinstance(k, ast.Constant) for k in a.args[0].elts) \
            and len({k.value for k in a.args[0].elts}) == len(a.args[0].elts):
        return ast.copy_location(ast.Dict(keys=list(a.args[0].elts), values=list(a.args[1].elts)), v)
    return v


def walk_no_nested(node: ast.AST) -> Iterable[ast.AST]:
    """ast.walk that does not descend into nested function/class/lambda bodies."""
    stack = list(ast.iter_child_nodes(node))
    while stack:
        n = stack.pop()
        yield n
        if isinstance(n, (ast.FunctionDef, ast.AsyncFunctionDef, ast.ClassDef, ast.Lambda)):
            continue
        stack.extend(ast.iter_child_nodes(n))


def body_without_docstring(fn: Union[ast.FunctionDef, ast.AsyncFunctionDef]) -> list[ast.stmt]:
    b = list(fn.body)
    if b and isinstance(b[0], ast.Expr) and isinstance(b[0].value, ast.Constant) and isinstance(b[0].value.value, str):
        b = b[1:]
    return b


def attr_chain(e: ast.AST) -> Optional[list[str]]:
    """``a.b.c`` -> ['a','b','c'];  subscripts are transparent (``a.b[i].c`` -> a,b,[],c)."""
    out: list[str] = []
    while True:
        if isinstance(e, ast.Attribute):
            out.append(e.attr)
            e = e.value
        elif isinstance(e, ast.Subscript):
            out.append("[]")
            e = e.value
        elif isinstance(e, ast.Name):
            out.append(e.id)
            return out[::-1]
        else:
            return None


def unparse(n: ast.AST) -> str:
    try:
        return ast.unparse(n)
    except Exception:  # pragma: no cover
        return ast.dump(n)
