"""Reference formulation of RiscvParser._convert_label_or_imm (shared by C04 / C14), compared through sa.flowspec."""
from __future__ import annotations

from .flowspec import compare
from .report import Ctx

CONVERT_REF = '''
def _convert_label_or_imm(self, instruction_parsed, labels, address_count, line, line_number):
    if instruction_parsed.get("imm"):
        imm_value = self._literal_to_int(instruction_parsed.imm, line_number, line)
        if imm_value % 2:
            raise ParserOddImmediateException(line_number=line_number, line=line)
        else:
            return imm_value
    else:
        offset = 0
        if instruction_parsed.offset:
            offset = self._literal_to_int(instruction_parsed.offset, line_number, line)
        try:
            return labels[instruction_parsed.label] + offset - address_count
        except KeyError:
            raise ParserLabelException(line_number=line_number, line=line, label=instruction_parsed.label)
'''


def convert_rule(ctx: Ctx, r, key: str = "RiscvParser._convert_label_or_imm") -> None:
    m = ctx.model
    compare(r, m, m.method("RiscvParser", "_convert_label_or_imm"), CONVERT_REF, key,
            what="a branch/jump operand is a literal exactly when the `imm` token is present (whatever its value: 0 is a literal), "
                 "taken unchanged when even; otherwise labels[label] + offset - address")
