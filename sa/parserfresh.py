"""R19.fresh / R04.fresh / R13.fresh -- every load is parsed from the constructor state of the parser.

A parser object carries state that `parse()` does not re-initialise: whatever its `__init__` chain sets up and no method reachable
from `parse()` rebinds with a plain store (today: `Parser.labels`, a dict that `_add_label_mapping` only ever adds to).  Parsing a
second program with the same object therefore sees the symbols of the first: a re-declared name is a DuplicateLabelException, a
reference to a name of the earlier program resolves to a stale address.  The property ("any well-formed program assembles to ..",
"a reload equals a fresh load") needs one of two things, and the rule accepts either:

 * `parse()` itself rebinds every attribute of the constructor state before it is used (then the carried set is empty), or
 * every `<receiver>.parse(..)` call in the package runs on a parser constructed for that call: the receiver is a constructor call of
   the class, or a local bound exactly once in the calling function to such a constructor call.

Slots filled from the repository: the parser classes are the concrete subclasses of `Parser`; the constructor state is read off
the `__init__` methods along the MRO; the closure of `parse` follows `self.<method>()` calls through the class; call sites are every
call spelled `.parse(` whose receiver can be one of these classes.  Reported construct: the call site and the attributes carried.
"""
from __future__ import annotations

import ast
from typing import Optional

from .model import AnalysisError, ClassInfo, FuncInfo, Model
from .report import Ctx


def _self_stores(fn: FuncInfo) -> set:
    out = set()
    selfname = fn.params[0] if fn.params else "self"
    for n in ast.walk(fn.node):
        tgts = []
        if isinstance(n, ast.Assign):
            tgts = n.targets
        elif isinstance(n, ast.AnnAssign) and n.value is not None:
            tgts = [n.target]
        for t in tgts:
            for x in ([t] if not isinstance(t, (ast.Tuple, ast.List)) else list(ast.walk(t))):
                if isinstance(x, ast.Attribute) and isinstance(x.value, ast.Name) and x.value.id == selfname and isinstance(x.ctx, ast.Store):
                    out.add(x.attr)
    return out


def constructor_state(m: Model, c: ClassInfo) -> set:
    out: set = set()
    for k in m.mro(c):
        init = k.methods.get("__init__")
        if init is not None:
            out |= _self_stores(init)
    return out


def parse_closure(m: Model, c: ClassInfo) -> list:
    start = m.lookup(c, "parse")
    if start is None:
        raise AnalysisError(f"anchor vanished: {c.name}.parse")
    seen = {start.qname: start}
    todo = [start]
    while todo:
        f = todo.pop()
        selfname = f.params[0] if f.params else "self"
        for n in ast.walk(f.node):
            if isinstance(n, ast.Call) and isinstance(n.func, ast.Attribute) and isinstance(n.func.value, ast.Name) and n.func.value.id == selfname:
                g = m.lookup(c, n.func.attr)
                if g is not None and g.qname not in seen:
                    seen[g.qname] = g
                    todo.append(g)
    return list(seen.values())


def carried_state(m: Model, c: ClassInfo) -> set:
    """constructor attributes that nothing reachable from parse() rebinds with a plain store"""
    rebound: set = set()
    for f in parse_closure(m, c):
        rebound |= _self_stores(f)
    return constructor_state(m, c) - rebound


def _parser_classes(m: Model) -> list:
    base = m.cls("Parser")
    return sorted((k for k in m.subclasses(base, strict=True) if "parse" in k.methods), key=lambda k: k.qname)


def _ctor_class(m: Model, f: FuncInfo, e: ast.AST, classes: list) -> Optional[ClassInfo]:
    if isinstance(e, ast.Call):
        k = m.resolve_class(f.module, e.func)
        if k is not None and any(k is c or m.is_subclass(k, c) for c in classes):
            return k
    return None


def fresh_rule(ctx: Ctx, rid: str, which: tuple) -> None:
    m = ctx.model
    r = ctx.rule(rid, "every program is parsed from the parser's constructor state (fresh parser per load, or parse() re-initialises it)")
    classes = [c for c in _parser_classes(m) if c.name in which]
    if len(classes) != len(which):
        raise AnalysisError(f"{rid}: parser classes {which} not all found")
    carried = {c.name: carried_state(m, c) for c in classes}
    for c in classes:
        r.inst(f"{c.name}|carried:{','.join(sorted(carried[c.name])) or '-'}", None)
    sites = {c.name: 0 for c in classes}
    for f in sorted(m.functions.values(), key=lambda f: f.qname):
        if f.cls is not None and any(f.cls is c or m.is_subclass(f.cls, c) for c in _parser_classes(m)):
            continue  # the parser's own methods
        binds: dict = {}
        for n in ast.walk(f.node):
            if isinstance(n, ast.Name) and isinstance(n.ctx, (ast.Store, ast.Del)):
                binds[n.id] = binds.get(n.id, 0) + 1
        local_ctor: dict = {}
        for n in ast.walk(f.node):
            if isinstance(n, ast.Assign) and len(n.targets) == 1 and isinstance(n.targets[0], ast.Name) and binds.get(n.targets[0].id) == 1:
                k = _ctor_class(m, f, n.value, _parser_classes(m))
                if k is not None:
                    local_ctor[n.targets[0].id] = k
        for n in ast.walk(f.node):
            if not (isinstance(n, ast.Call) and isinstance(n.func, ast.Attribute) and n.func.attr == "parse"):
                continue
            recv = n.func.value
            k = _ctor_class(m, f, recv, _parser_classes(m))
            fresh = k is not None
            if k is None and isinstance(recv, ast.Name) and recv.id in local_ctor:
                # bound once in this function to a constructor call; inside a loop the same object would serve several loads
                k = local_ctor[recv.id]
                fresh = not _in_loop_without_binding(f, n, recv.id)
            if k is None:
                k = _class_of_receiver(m, f, recv)
            targets = [c for c in classes if k is None or k is c or m.is_subclass(k, c)]
            if k is None and not _could_be_parser(f, n):
                continue
            for c in targets:
                sites[c.name] += 1
                key = f"{c.name}|{f.qname.split('.')[-2] if '.' in f.qname else ''}.{f.name}|parse-site"
                if fresh or not carried[c.name]:
                    r.inst(key, None)
                else:
                    r.check(False, key, f.loc(n),
                            f"`{ast.unparse(n.func)}(..)` runs on a parser that outlives the call (receiver `{ast.unparse(recv)}` is not constructed for "
                            f"this load), and {c.name}.parse() does not re-initialise {sorted(carried[c.name])} (set up in the constructor, only added "
                            "to afterwards): the second program parsed with this object sees the symbols of the first -- a name declared in both is "
                            "rejected as a duplicate, a reference to a name of the earlier program resolves to a stale address")
    for c in classes:
        if sites[c.name] == 0:
            raise AnalysisError(f"{rid}: no `.parse(..)` call site for {c.name} found in the package (the loader's anchor vanished)")


def _could_be_parser(f: FuncInfo, call: ast.Call) -> bool:
    # an unresolved receiver: only calls that pass a program and a state look like the loader
    names = {k.arg for k in call.keywords}
    return "state" in names or "program" in names or len(call.args) >= 2


def _in_loop_without_binding(f: FuncInfo, call: ast.Call, name: str) -> bool:
    for l_ in ast.walk(f.node):
        if isinstance(l_, (ast.For, ast.While)) and any(x is call for x in ast.walk(l_)):
            if not any(isinstance(x, ast.Name) and x.id == name and isinstance(x.ctx, ast.Store) for x in ast.walk(l_)):
                return True
    return False


def _class_of_receiver(m: Model, f: FuncInfo, recv: ast.AST) -> Optional[ClassInfo]:
    """`self._parser` -> the class every store to an attribute of that name constructs (None when it cannot be told)"""
    if not isinstance(recv, ast.Attribute):
        return None
    found: set = set()
    for g in m.functions.values():
        for n in ast.walk(g.node):
            if isinstance(n, (ast.Assign, ast.AnnAssign)):
                tgts = n.targets if isinstance(n, ast.Assign) else [n.target]
                for t in tgts:
                    if isinstance(t, ast.Attribute) and t.attr == recv.attr and n.value is not None:
                        k = _ctor_class(m, g, n.value, _parser_classes(m))
                        if k is None:
                            return None
                        found.add(k)
    return found.pop() if len(found) == 1 else None
