"""Shapes of the shared parser front end, recovered through loop normalisation + symflow."""
from __future__ import annotations

import ast
from typing import Optional

from .loopnorm import normalise_loops
from .model import FuncInfo, Model
from .symflow import Flow, flow_of

TEXT = "_c1.split('#', 1)[0].strip()"
# the two known ways of saying "the line has something before its comment":
KEEP = {
    "BOOL[_c1.strip(); _c1.strip().startswith('#')]#2",   # non-blank and not starting with '#'
    TEXT,                                                  # the comment-stripped text is non-empty
}


def normal_flow(model: Model, f: FuncInfo) -> Flow:
    g = FuncInfo(f.name, f.qname, normalise_loops(f.node), f.module, f.cls)
    return flow_of(g, model)


def sanitize_form(model: Model) -> tuple[FuncInfo, Optional[dict]]:
    """The final value of self.sanitized_program as
       [(NUMBER, TEXT) for (_c0, _c1) in enumerate(self.program.splitlines()) if KEEP]
    -> {'number': str, 'text': str, 'keep': str, 'iter': str} in canonical print, or None when the
    last unconditional store to the attribute is not a single comprehension over enumerate(...)."""
    f = model.method("Parser", "_sanitize")
    fl = normal_flow(model, f)
    stores = [e for e in fl.effects if e.kind == "store" and fl.canon(e.expr.targets[0]) == "P0.sanitized_program"]  # type: ignore[attr-defined]
    if not stores or fl.canon_cond(stores[-1].cond) != "TRUE":
        return f, None
    v = stores[-1].expr.value  # type: ignore[attr-defined]
    while isinstance(v, ast.Call) and isinstance(v.func, ast.Name) and v.func.id == "list" and len(v.args) == 1 and not v.keywords \
            and isinstance(v.args[0], (ast.ListComp, ast.GeneratorExp, ast.Call)):
        v = v.args[0]  # list(<list built by a comprehension>) is that list
    if isinstance(v, ast.GeneratorExp):
        v = ast.ListComp(elt=v.elt, generators=v.generators)
    if not (isinstance(v, ast.ListComp) and len(v.generators) == 1 and isinstance(v.elt, ast.Tuple) and len(v.elt.elts) == 2):
        return f, None
    g = v.generators[0]
    if not (isinstance(g.target, ast.Tuple) and len(g.target.elts) == 2 and all(isinstance(x, ast.Name) for x in g.target.elts)):
        return f, None
    # print number / text / keep with the comprehension variables named _c0, _c1
    from .symflow import Printer
    ren = {g.target.elts[0].id: "_c0", g.target.elts[1].id: "_c1"}  # type: ignore[attr-defined]
    pr = Printer(model, f.params, ren, canonical=True)
    keep = "TRUE"
    if g.ifs:
        keep = pr.show_test(ast.BoolOp(op=ast.And(), values=list(g.ifs)) if len(g.ifs) > 1 else g.ifs[0])
    return f, {"number": pr.show(v.elt.elts[0]), "text": pr.show(v.elt.elts[1]), "keep": keep, "iter": pr.show(g.iter)}
