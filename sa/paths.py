"""Structured path sets of a function body (no CFG library needed).

A *path* is the ordered list of events one execution can produce plus how it
ends.  Tests are not correlated (``hit = x is not None`` and a later ``if not
hit`` are independent): that only *adds* paths, which is conservative for
"on every path" rules.  Loops contribute their 0- and 1-iteration unfoldings.
"""
from __future__ import annotations

import ast
from dataclasses import dataclass, field
from typing import Callable, Iterable, Optional, Sequence

from .model import AnalysisError

PATH_BOUND = 20000


@dataclass
class Event:
    kind: str  # stmt | test | loop | except | case | assert | return | raise | with
    node: ast.AST
    pol: Optional[bool] = None  # test polarity / loop entered
    extra: object = None

    def label(self) -> str:
        try:
            s = ast.unparse(self.node)
        except Exception:
            s = type(self.node).__name__
        s = " ".join(s.split())
        if len(s) > 70:
            s = s[:67] + "..."
        if self.kind == "test":
            return f"[{'T' if self.pol else 'F'}] {s}"
        if self.kind == "loop":
            return f"[loop {'enter' if self.pol else 'skip'}] line {getattr(self.node, 'lineno', 0)}"
        if self.kind == "loopend":
            return f"[loop end] line {getattr(self.node, 'lineno', 0)}"
        if self.kind == "except":
            return f"[except] line {getattr(self.node, 'lineno', 0)}"
        if self.kind == "case":
            return f"[case] {s}"
        return s


@dataclass
class Path:
    events: list[Event] = field(default_factory=list)
    term: str = "fall"  # fall | return | raise | break | continue
    term_node: Optional[ast.AST] = None

    def extend(self, other: "Path") -> "Path":
        return Path(self.events + other.events, other.term, other.term_node)

    def assumptions(self) -> list[str]:
        return [e.label() for e in self.events if e.kind in ("test", "loop", "except", "case")]

    def labels(self) -> list[str]:
        return [e.label() for e in self.events]


class _Counter:
    def __init__(self) -> None:
        self.n = 0

    def tick(self, k: int = 1) -> None:
        self.n += k
        if self.n > PATH_BOUND:
            raise AnalysisError(f"path explosion (> {PATH_BOUND} paths)")


def paths_of(stmts: Sequence[ast.stmt], _ctr: Optional[_Counter] = None) -> list[Path]:
    ctr = _ctr or _Counter()
    live: list[Path] = [Path()]
    done: list[Path] = []
    for st in stmts:
        if not live:
            break
        sub = _stmt_paths(st, ctr)
        nxt: list[Path] = []
        for p in live:
            for q in sub:
                r = p.extend(q)
                ctr.tick()
                (nxt if r.term == "fall" else done).append(r)
        live = nxt
    return live + done


def _stmt_paths(st: ast.stmt, ctr: _Counter) -> list[Path]:
    if isinstance(st, ast.If):
        out = []
        for pol, branch in ((True, st.body), (False, st.orelse)):
            head = Event("test", st.test, pol)
            for p in paths_of(branch, ctr) if branch else [Path()]:
                out.append(Path([head] + p.events, p.term, p.term_node))
        return out
    if isinstance(st, (ast.For, ast.AsyncFor, ast.While)):
        out = []
        it = st.iter if not isinstance(st, ast.While) else st.test
        # 0 iterations
        skip = Path([Event("loop", st, False, it)])
        tails = paths_of(st.orelse, ctr) if st.orelse else [Path()]
        for t in tails:
            out.append(skip.extend(t))
        # 1 iteration
        for p in paths_of(st.body, ctr):
            ev = [Event("loop", st, True, it)] + p.events
            if p.term in ("fall", "continue"):
                for t in tails:
                    out.append(Path(ev + [Event("loopend", st)] + t.events, t.term, t.term_node))
            elif p.term == "break":
                out.append(Path(ev + [Event("loopend", st)], "fall"))
            else:
                out.append(Path(ev, p.term, p.term_node))
        return out
    if isinstance(st, ast.Try) or (hasattr(ast, "TryStar") and isinstance(st, getattr(ast, "TryStar"))):
        out = []
        fin = paths_of(st.finalbody, ctr) if st.finalbody else [Path()]
        body = paths_of(st.body, ctr)
        for p in body:
            if p.term == "fall" and st.orelse:
                for q in paths_of(st.orelse, ctr):
                    out.append(p.extend(q))
            else:
                out.append(p)
        for h in st.handlers:
            head = [Event("stmt", st, extra="try-partial"), Event("except", h)]
            for q in paths_of(h.body, ctr):
                out.append(Path(head + q.events, q.term, q.term_node))
        res = []
        for p in out:
            for f in fin:
                if f.term == "fall":
                    res.append(Path(p.events + f.events, p.term, p.term_node))
                else:
                    res.append(Path(p.events + f.events, f.term, f.term_node))
        return res
    if isinstance(st, (ast.With, ast.AsyncWith)):
        head = Event("with", st)
        return [Path([head] + p.events, p.term, p.term_node) for p in paths_of(st.body, ctr)]
    if isinstance(st, ast.Match):
        out = []
        total = False
        for i, c in enumerate(st.cases):
            head = Event("case", c.pattern, True, (st.subject, i))
            for p in paths_of(c.body, ctr):
                out.append(Path([head] + p.events, p.term, p.term_node))
            if isinstance(c.pattern, ast.MatchAs) and c.pattern.pattern is None and c.guard is None:
                total = True
        if not total:
            out.append(Path([Event("case", st.subject, False, (st.subject, -1))]))
        return out
    if isinstance(st, ast.Return):
        return [Path([Event("return", st)], "return", st)]
    if isinstance(st, ast.Raise):
        return [Path([Event("raise", st)], "raise", st)]
    if isinstance(st, ast.Break):
        return [Path([], "break", st)]
    if isinstance(st, ast.Continue):
        return [Path([], "continue", st)]
    if isinstance(st, ast.Assert):
        return [Path([Event("assert", st)])]
    if isinstance(st, ast.Pass):
        return [Path()]
    if isinstance(st, ast.Expr) and isinstance(st.value, ast.Constant) and isinstance(st.value.value, str):
        return [Path()]  # docstring / string statement
    return [Path([Event("stmt", st)])]


def function_paths(fn: ast.FunctionDef, prune: bool = True) -> list[Path]:
    ps = paths_of(fn.body)
    if prune:
        ps = [p for p in ps if feasible(p)]
    return ps


# ------------------------------------------------------------------ constant flags
_UNKNOWN = object()


def _truth(e: ast.AST, env: dict):
    """Truth value of a test under known constant locals; None when unknown."""
    if isinstance(e, ast.Constant):
        return bool(e.value)
    if isinstance(e, ast.Name):
        v = env.get(e.id, _UNKNOWN)
        return None if v is _UNKNOWN else bool(v)
    if isinstance(e, ast.UnaryOp) and isinstance(e.op, ast.Not):
        t = _truth(e.operand, env)
        return None if t is None else not t
    if isinstance(e, ast.BoolOp):
        ts = [_truth(v, env) for v in e.values]
        if isinstance(e.op, ast.And):
            if any(t is False for t in ts):
                return False
            return True if all(t is True for t in ts) else None
        if any(t is True for t in ts):
            return True
        return False if all(t is False for t in ts) else None
    if isinstance(e, ast.Compare) and len(e.ops) == 1 and isinstance(e.left, ast.Name) and isinstance(e.comparators[0], ast.Constant):
        v = env.get(e.left.id, _UNKNOWN)
        if v is _UNKNOWN:
            return None
        c = e.comparators[0].value
        op = e.ops[0]
        try:
            if isinstance(op, ast.Is):
                return v is c
            if isinstance(op, ast.IsNot):
                return v is not c
            if isinstance(op, ast.Eq):
                return v == c
            if isinstance(op, ast.NotEq):
                return v != c
        except Exception:
            return None
    return None


def _assign_then_leave(loop: ast.AST, name: str) -> bool:
    def stores(st: ast.AST) -> bool:
        return any(isinstance(x, ast.Name) and isinstance(x.ctx, ast.Store) and x.id == name for x in ast.walk(st))

    def block_ok(stmts) -> bool:
        for i, st in enumerate(stmts):
            if isinstance(st, (ast.Assign, ast.AnnAssign, ast.AugAssign)) and stores(st):
                rest = stmts[i + 1:]
                j = next((k for k, r in enumerate(rest) if isinstance(r, (ast.Break, ast.Return, ast.Raise))), None)
                if j is None or not all(isinstance(r, (ast.Assign, ast.AnnAssign, ast.Assert, ast.Expr)) for r in rest[:j]):
                    return False
            elif stores(st):
                for fld in ("body", "orelse", "finalbody"):
                    sub = getattr(st, fld, None)
                    if isinstance(sub, list) and sub and isinstance(sub[0], ast.stmt) and not block_ok(sub):
                        return False
                if isinstance(st, (ast.For, ast.While, ast.With, ast.Try, ast.Match)) and not isinstance(st, ast.If):
                    return False
        return True

    body = getattr(loop, "body", [])
    tgt = getattr(loop, "target", None)
    if tgt is not None and stores(tgt):
        return False
    return block_ok(body)


def feasible(path: Path) -> bool:
    """False when a test on the path contradicts a constant the path itself assigned to a local
    (flag variables: `found = False ... found = True; break ... if not found:`)."""
    env: dict = {}

    def kill(t: ast.AST) -> None:
        for n in ast.walk(t):
            if isinstance(n, ast.Name):
                env.pop(n.id, None)

    for e in path.events:
        n = e.node
        if e.kind == "test":
            t = _truth(n, env)
            if t is not None and t != bool(e.pol):
                return False
        elif e.kind == "stmt":
            if isinstance(n, ast.Assign):
                if len(n.targets) == 1 and isinstance(n.targets[0], ast.Name) and isinstance(n.value, ast.Constant):
                    env[n.targets[0].id] = n.value.value
                else:
                    for t in n.targets:
                        kill(t)
            elif isinstance(n, (ast.AugAssign, ast.AnnAssign)):
                if isinstance(n, ast.AnnAssign) and isinstance(n.target, ast.Name) and isinstance(n.value, ast.Constant):
                    env[n.target.id] = n.value.value
                else:
                    kill(n.target)
            elif isinstance(n, ast.Try):
                env.clear()
            else:
                for x in ast.walk(n):
                    if isinstance(x, ast.NamedExpr):
                        kill(x.target)
                    elif isinstance(x, ast.Name) and isinstance(x.ctx, (ast.Store, ast.Del)):
                        env.pop(x.id, None)
        elif e.kind == "loop":
            if hasattr(n, "target"):
                kill(n.target)  # type: ignore[attr-defined]
        elif e.kind == "loopend":
            # one unfolding stands for any number of iterations: what the body assigned is unknown afterwards
            for x in ast.walk(n):
                if isinstance(x, ast.Name) and isinstance(x.ctx, ast.Store) and x.id in env:
                    vals = {repr(a.value.value) if isinstance(a.value, ast.Constant) else "?" for a in ast.walk(n)
                            if isinstance(a, ast.Assign) and any(isinstance(t, ast.Name) and t.id == x.id for t in a.targets)}
                    same = len(vals) == 1 and "?" not in vals and repr(env[x.id]) in vals
                    # (a) whatever iteration assigned it, it assigned this constant; or
                    # (b) assigning it always leaves the loop, so falling out normally means it was never assigned
                    if not (same or _assign_then_leave(n, x.id)):
                        env.pop(x.id, None)
        elif e.kind in ("with", "case", "except"):
            for x in ast.walk(n):
                if isinstance(x, ast.Name) and isinstance(x.ctx, ast.Store):
                    env.pop(x.id, None)
                elif isinstance(x, (ast.MatchAs, ast.MatchStar)) and getattr(x, "name", None):
                    env.pop(x.name, None)
            if e.kind == "except":
                env.clear()
    return True


# ------------------------------------------------------------------ queries
def index_of(path: Path, pred: Callable[[Event], bool]) -> list[int]:
    return [i for i, e in enumerate(path.events) if pred(e)]


def has_before(path: Path, idx: int, pred: Callable[[Event], bool]) -> bool:
    return any(pred(e) for e in path.events[:idx])


def event_exprs(e: Event) -> Iterable[ast.AST]:
    """Expression roots evaluated by an event (for scanning calls etc.)."""
    n = e.node
    if e.kind == "test":
        yield n
    elif e.kind == "loop":
        if e.extra is not None:
            yield e.extra  # iterable / while-test
    elif e.kind == "with":
        for it in n.items:  # type: ignore[attr-defined]
            yield it.context_expr
    elif e.kind in ("case", "loopend"):
        pass
    elif e.kind == "except":
        pass
    elif e.kind in ("stmt", "assert", "return", "raise"):
        if isinstance(n, ast.Try):
            return
        yield n


def calls_in(node: ast.AST) -> list[ast.Call]:
    out = []
    stack = [node]
    while stack:
        n = stack.pop()
        if isinstance(n, (ast.FunctionDef, ast.AsyncFunctionDef, ast.ClassDef, ast.Lambda)) and n is not node:
            continue
        if isinstance(n, ast.Call):
            out.append(n)
        stack.extend(ast.iter_child_nodes(n))
    out.sort(key=lambda c: (c.lineno, c.col_offset))
    return out
