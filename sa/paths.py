"""Structured path sets of a function body (no CFG library needed).

A *path* is the ordered list of events one execution can produce plus how it
ends.  Tests are not correlated (``hit = x is not None`` and a later ``if not
hit`` are independent): that only *adds* paths, which is conservative for
"on every path" rules.  Loops contribute their 0- and 1-iteration unfoldings.
"""
from __future__ import annotations

import ast
from dataclasses import dataclass, field
from typing import Callable, Iterable, Optional, Sequence

from .model import AnalysisError

PATH_BOUND = 20000


@dataclass
class Event:
    kind: str  # stmt | test | loop | except | case | assert | return | raise | with
    node: ast.AST
    pol: Optional[bool] = None  # test polarity / loop entered
    extra: object = None

    def label(self) -> str:
        try:
            s = ast.unparse(self.node)
        except Exception:
            s = type(self.node).__name__
        s = " ".join(s.split())
        if len(s) > 70:
            s = s[:67] + "..."
        if self.kind == "test":
            return f"[{'T' if self.pol else 'F'}] {s}"
        if self.kind == "loop":
            return f"[loop {'enter' if self.pol else 'skip'}] line {getattr(self.node, 'lineno', 0)}"
        if self.kind == "loopend":
            return f"[loop end] line {getattr(self.node, 'lineno', 0)}"
        if self.kind == "except":
            return f"[except] line {getattr(self.node, 'lineno', 0)}"
        if self.kind == "case":
            return f"[case] {s}"
        return s


@dataclass
class Path:
    events: list[Event] = field(default_factory=list)
    term: str = "fall"  # fall | return | raise | break | continue
    term_node: Optional[ast.AST] = None

    def extend(self, other: "Path") -> "Path":
        return Path(self.events + other.events, other.term, other.term_node)

    def assumptions(self) -> list[str]:
        return [e.label() for e in self.events if e.kind in ("test", "loop", "except", "case")]

    def labels(self) -> list[str]:
        return [e.label() for e in self.events]


class _Counter:
    def __init__(self) -> None:
        self.n = 0

    def tick(self, k: int = 1) -> None:
        self.n += k
        if self.n > PATH_BOUND:
            raise AnalysisError(f"path explosion (> {PATH_BOUND} paths)")


def paths_of(stmts: Sequence[ast.stmt], _ctr: Optional[_Counter] = None) -> list[Path]:
    ctr = _ctr or _Counter()
    live: list[Path] = [Path()]
    done: list[Path] = []
    for st in stmts:
        if not live:
            break
        sub = _stmt_paths(st, ctr)
        nxt: list[Path] = []
        for p in live:
            for q in sub:
                r = p.extend(q)
                ctr.tick()
                (nxt if r.term == "fall" else done).append(r)
        live = nxt
    return live + done


def _stmt_paths(st: ast.stmt, ctr: _Counter) -> list[Path]:
    if isinstance(st, ast.If):
        out = []
        for pol, branch in ((True, st.body), (False, st.orelse)):
            head = Event("test", st.test, pol)
            for p in paths_of(branch, ctr) if branch else [Path()]:
                out.append(Path([head] + p.events, p.term, p.term_node))
        return out
    if isinstance(st, (ast.For, ast.AsyncFor, ast.While)):
        out = []
        it = st.iter if not isinstance(st, ast.While) else st.test
        # 0 iterations
        skip = Path([Event("loop", st, False, it)])
        tails = paths_of(st.orelse, ctr) if st.orelse else [Path()]
        for t in tails:
            out.append(skip.extend(t))
        # 1 iteration
        for p in paths_of(st.body, ctr):
            ev = [Event("loop", st, True, it)] + p.events
            if p.term in ("fall", "continue"):
                for t in tails:
                    out.append(Path(ev + [Event("loopend", st)] + t.events, t.term, t.term_node))
            elif p.term == "break":
                out.append(Path(ev + [Event("loopend", st)], "fall"))
            else:
                out.append(Path(ev, p.term, p.term_node))
        return out
    if isinstance(st, ast.Try) or (hasattr(ast, "TryStar") and isinstance(st, getattr(ast, "TryStar"))):
        out = []
        fin = paths_of(st.finalbody, ctr) if st.finalbody else [Path()]
        body = paths_of(st.body, ctr)
        for p in body:
            if p.term == "fall" and st.orelse:
                for q in paths_of(st.orelse, ctr):
                    out.append(p.extend(q))
            else:
                out.append(p)
        for h in st.handlers:
            head = [Event("stmt", st, extra="try-partial"), Event("except", h)]
            for q in paths_of(h.body, ctr):
                out.append(Path(head + q.events, q.term, q.term_node))
        res = []
        for p in out:
            for f in fin:
                if f.term == "fall":
                    res.append(Path(p.events + f.events, p.term, p.term_node))
                else:
                    res.append(Path(p.events + f.events, f.term, f.term_node))
        return res
    if isinstance(st, (ast.With, ast.AsyncWith)):
        head = Event("with", st)
        return [Path([head] + p.events, p.term, p.term_node) for p in paths_of(st.body, ctr)]
    if isinstance(st, ast.Match):
        out = []
        total = False
        for i, c in enumerate(st.cases):
            head = Event("case", c.pattern, True, (st.subject, i))
            for p in paths_of(c.body, ctr):
                out.append(Path([head] + p.events, p.term, p.term_node))
            if isinstance(c.pattern, ast.MatchAs) and c.pattern.pattern is None and c.guard is None:
                total = True
        if not total:
            out.append(Path([Event("case", st.subject, False, (st.subject, -1))]))
        return out
    if isinstance(st, ast.Return):
        return [Path([Event("return", st)], "return", st)]
    if isinstance(st, ast.Raise):
        return [Path([Event("raise", st)], "raise", st)]
    if isinstance(st, ast.Break):
        return [Path([], "break", st)]
    if isinstance(st, ast.Continue):
        return [Path([], "continue", st)]
    if isinstance(st, ast.Assert):
        return [Path([Event("assert", st)])]
    if isinstance(st, ast.Pass):
        return [Path()]
    if isinstance(st, ast.Expr) and isinstance(st.value, ast.Constant) and isinstance(st.value.value, str):
        return [Path()]  # docstring / string statement
    return [Path([Event("stmt", st)])]


def function_paths(fn: ast.FunctionDef) -> list[Path]:
    return paths_of(fn.body)


# ------------------------------------------------------------------ queries
def index_of(path: Path, pred: Callable[[Event], bool]) -> list[int]:
    return [i for i, e in enumerate(path.events) if pred(e)]


def has_before(path: Path, idx: int, pred: Callable[[Event], bool]) -> bool:
    return any(pred(e) for e in path.events[:idx])


def event_exprs(e: Event) -> Iterable[ast.AST]:
    """Expression roots evaluated by an event (for scanning calls etc.)."""
    n = e.node
    if e.kind == "test":
        yield n
    elif e.kind == "loop":
        if e.extra is not None:
            yield e.extra  # iterable / while-test
    elif e.kind == "with":
        for it in n.items:  # type: ignore[attr-defined]
            yield it.context_expr
    elif e.kind in ("case", "loopend"):
        pass
    elif e.kind == "except":
        pass
    elif e.kind in ("stmt", "assert", "return", "raise"):
        if isinstance(n, ast.Try):
            return
        yield n


def calls_in(node: ast.AST) -> list[ast.Call]:
    out = []
    stack = [node]
    while stack:
        n = stack.pop()
        if isinstance(n, (ast.FunctionDef, ast.AsyncFunctionDef, ast.ClassDef, ast.Lambda)) and n is not node:
            continue
        if isinstance(n, ast.Call):
            out.append(n)
        stack.extend(ast.iter_child_nodes(n))
    out.sort(key=lambda c: (c.lineno, c.col_offset))
    return out
