"""Per-path substitution of locals (companion of `sa.paths`).

`sym_events(path, keep)` replays a path and yields, for every event, the event's node with the
locals that were assigned earlier *on that path* replaced by their defining expressions, so rules
can ask "what is added to the counter on this path" or "under which tests does this path raise"
without caring about aliases (`mnemonic = entry.mnemonic`, `cls = table[mnemonic.lower()]`, ...).

Names in `keep` (loop-carried variables such as counters and accumulators), loop targets, names
bound by `with`/`except`/`case` and augmented locals stay symbolic.

`disjunction(paths, select, tests)` builds the boolean function "some selected path is taken" as
OR over the selected paths of AND over their (substituted) tests; comparing it with a required
function as a truth table (symflow.Printer) makes the nesting / order / spelling of the tests
irrelevant.
"""
from __future__ import annotations

import ast
import copy
from dataclasses import dataclass
from typing import Callable, Iterable, Optional

from .paths import Event, Path


class _Sub(ast.NodeTransformer):
    def __init__(self, env: dict) -> None:
        self.env = env

    def visit_Name(self, n: ast.Name):
        if isinstance(n.ctx, ast.Load) and n.id in self.env:
            return copy.deepcopy(self.env[n.id])
        return n

    def _comp(self, node):
        bound = {x.id for g in node.generators for x in ast.walk(g.target) if isinstance(x, ast.Name)}
        inner = _Sub({k: v for k, v in self.env.items() if k not in bound})
        new = copy.copy(node)
        new.generators = []
        for g in node.generators:
            g2 = copy.copy(g)
            g2.iter = self.visit(copy.deepcopy(g.iter))
            g2.ifs = [inner.visit(copy.deepcopy(i)) for i in g.ifs]
            new.generators.append(g2)
        for fld in ("elt", "key", "value"):
            if hasattr(node, fld):
                setattr(new, fld, inner.visit(copy.deepcopy(getattr(node, fld))))
        return new

    visit_ListComp = visit_SetComp = visit_GeneratorExp = visit_DictComp = _comp

    def visit_Lambda(self, n):
        return n


def subst(e: ast.AST, env: dict) -> ast.AST:
    return _Sub(env).visit(copy.deepcopy(e)) if env else copy.deepcopy(e)


@dataclass
class SymEvent:
    event: Event
    node: ast.AST  # substituted copy (for `test`: the test expression; for statements: the statement)
    index: int


def _kill(env: dict, t: ast.AST) -> None:
    for n in ast.walk(t):
        if isinstance(n, ast.Name):
            env.pop(n.id, None)


def sym_events(path: Path, keep: Iterable[str] = ()) -> list[SymEvent]:
    keep = set(keep)
    env: dict = {}
    out: list[SymEvent] = []
    for i, e in enumerate(path.events):
        n = e.node
        if e.kind == "test":
            out.append(SymEvent(e, subst(n, env), i))
        elif e.kind == "loop":
            it = subst(e.extra, env) if e.extra is not None else None
            if hasattr(n, "target"):
                _kill(env, n.target)  # type: ignore[attr-defined]
            # whatever the loop body assigns is loop-carried
            for x in ast.walk(n):
                if isinstance(x, ast.Name) and isinstance(x.ctx, ast.Store):
                    if not e.pol:
                        continue
                    env.pop(x.id, None)
            out.append(SymEvent(e, it if it is not None else n, i))
        elif e.kind == "loopend":
            for x in ast.walk(n):
                if isinstance(x, ast.Name) and isinstance(x.ctx, ast.Store):
                    env.pop(x.id, None)
            out.append(SymEvent(e, n, i))
        elif e.kind in ("stmt", "assert", "return", "raise"):
            if isinstance(n, ast.Try):
                env.clear()
                out.append(SymEvent(e, n, i))
                continue
            if isinstance(n, ast.Assign) and len(n.targets) == 1 and isinstance(n.targets[0], ast.Name):
                v = subst(n.value, env)
                name = n.targets[0].id
                new = ast.copy_location(ast.Assign(targets=n.targets, value=v, lineno=n.lineno), n)
                out.append(SymEvent(e, new, i))
                if name in keep:
                    env.pop(name, None)
                else:
                    env[name] = v
                continue
            if isinstance(n, ast.AnnAssign) and isinstance(n.target, ast.Name) and n.value is not None:
                v = subst(n.value, env)
                out.append(SymEvent(e, ast.copy_location(ast.Assign(targets=[n.target], value=v, lineno=n.lineno), n), i))
                if n.target.id in keep:
                    env.pop(n.target.id, None)
                else:
                    env[n.target.id] = v
                continue
            if isinstance(n, ast.AugAssign) and isinstance(n.target, ast.Name):
                v = subst(n.value, env)
                out.append(SymEvent(e, ast.copy_location(ast.AugAssign(target=n.target, op=n.op, value=v), n), i))
                if n.target.id in env and n.target.id not in keep:
                    # a local with a known value on this path: x op= v  is  x = <value> op v
                    env[n.target.id] = ast.BinOp(left=env[n.target.id], op=n.op, right=v)
                else:
                    env.pop(n.target.id, None)  # loop-carried / kept: stays symbolic from here on
                continue
            new = subst(n, env)
            out.append(SymEvent(e, new, i))
            for x in ast.walk(n):
                if isinstance(x, ast.Name) and isinstance(x.ctx, (ast.Store, ast.Del)):
                    env.pop(x.id, None)
                elif isinstance(x, ast.NamedExpr) and isinstance(x.target, ast.Name):
                    env.pop(x.target.id, None)
        elif e.kind in ("with", "except", "case"):
            for x in ast.walk(n):
                if isinstance(x, ast.Name) and isinstance(x.ctx, ast.Store):
                    env.pop(x.id, None)
            if e.kind == "except":
                env.clear()
            out.append(SymEvent(e, n, i))
        else:
            out.append(SymEvent(e, n, i))
    return out


def tests_of(evs: list[SymEvent], lo: int = 0, hi: Optional[int] = None, mention: Optional[Callable[[ast.AST], bool]] = None) -> list[ast.AST]:
    """The tests passed between event indices [lo, hi) as expressions that hold on the path (negated when the
    false branch was taken); `mention` filters tests by a predicate on the substituted expression."""
    out = []
    for se in evs:
        if se.event.kind != "test" or se.index < lo or (hi is not None and se.index >= hi):
            continue
        if mention is not None and not mention(se.node):
            continue
        out.append(se.node if se.event.pol else ast.UnaryOp(op=ast.Not(), operand=se.node))
    return out


def conj(parts: list) -> ast.AST:
    if not parts:
        return ast.Constant(value=True)
    return parts[0] if len(parts) == 1 else ast.BoolOp(op=ast.And(), values=list(parts))


def disj(parts: list) -> ast.AST:
    if not parts:
        return ast.Constant(value=False)
    return parts[0] if len(parts) == 1 else ast.BoolOp(op=ast.Or(), values=list(parts))


def iteration(path: Path, loop: ast.AST) -> Optional[tuple[int, int]]:
    """Event index range (start, end) of the unfolded iteration of `loop` on this path, or None when the
    loop is not entered."""
    start = next((i for i, e in enumerate(path.events) if e.kind == "loop" and e.node is loop and e.pol), None)
    if start is None:
        return None
    end = next((i for i, e in enumerate(path.events) if i > start and e.kind == "loopend" and e.node is loop), len(path.events))
    return start, end


def _assume(pr, b, facts: dict):
    if b[0] == "lit":
        if b[1] in facts:
            return ("const", facts[b[1]] == b[2])
        return b
    if b[0] in ("and", "or"):
        return pr._mk(b[0], [_assume(pr, x, facts) for x in b[1]])
    return b


def same_function(model, got: ast.AST, want_src: str, aliases: dict, assume: Optional[dict] = None) -> tuple[bool, str]:
    """Truth-table comparison of a formula recovered from the code with a required one (written over the alias names).
    `assume` fixes atoms (canonical print -> bool) on both sides before comparing."""
    from .symflow import Printer, parse_expr
    pr = Printer(model, [], aliases, canonical=True)
    sp = Printer(model, [], {}, canonical=True)
    g, w = pr._bool(got), sp._bool(parse_expr(want_src))
    if assume:
        g, w = _assume(pr, g, assume), _assume(pr, w, assume)
    t = pr._tables([g, w])
    return (t is not None and t[1][0] == t[1][1]), Printer(model, [], aliases)._show_bool(g)


def iteration_paths(fn_node: ast.AST, loop: ast.AST, keep: Iterable[str] = ()):
    """For every (feasible) path that enters `loop`: (path, [SymEvent] of the unfolded iteration, condition of the iteration)."""
    from .paths import function_paths
    seen: set = set()
    for p in function_paths(fn_node):
        it = iteration(p, loop)
        if it is None:
            continue
        sig = tuple((id(e.node), e.pol, e.kind) for e in p.events[it[0]:it[1]]) + (p.term if it[1] >= len(p.events) else "",)
        if sig in seen:
            continue
        seen.add(sig)
        evs = sym_events(p, keep=keep)
        body = [se for se in evs if it[0] < se.index < it[1]]
        yield p, body, conj(tests_of(evs, it[0] + 1, it[1])), it[1] >= len(p.events)
