"""Structural constants of the five-stage pipeline (shared by C02 / C07 / C08)."""
from __future__ import annotations

import ast
from typing import Optional

from .common import const_int, seg, short
from .consteval import Unknown, fold_in
from .model import AnalysisError, ClassInfo, FuncInfo, walk_no_nested
from .paths import calls_in, function_paths
from .report import Ctx

STAGE_ROLE = {
    "InstructionFetchStage": "IF", "InstructionDecodeStage": "ID", "ExecuteStage": "EX",
    "MemoryAccessStage": "MEM", "RegisterWritebackStage": "WB",
}


def five_stage_config(ctx: Ctx) -> dict:
    """Stage list (classes, constructor calls) and execution order of the pipeline RiscvArchitecturalState.__init__ builds in
    five-stage mode: read off the normal form of __init__ -- the value stored in self.pipeline with the conditional values
    resolved under `pipeline_mode == "five_stage_pipeline"` -- so locals, a helper, an if/else or a guard clause are one thing."""
    cache = ctx.__dict__.setdefault("_five_stage_cfg", None)
    if cache is not None:
        return cache
    from .parsershape import normal_flow
    m = ctx.model
    f = m.method("RiscvArchitecturalState", "__init__", own=True)
    fl = normal_flow(m, f)
    pr = fl.cprinter
    if "pipeline_mode" not in f.params:
        raise AnalysisError("anchor vanished: pipeline_mode parameter of RiscvArchitecturalState.__init__")
    five = ast.Compare(left=ast.Name(id="pipeline_mode", ctx=ast.Load()), ops=[ast.Eq()], comparators=[ast.Constant(value="five_stage_pipeline")])
    fb = pr._bool(five)
    found = None
    for e in fl.effects:
        if e.kind != "store" or not isinstance(e.expr, ast.Assign) or pr.show(e.expr.targets[0]).split("@")[0] != "P0.pipeline":
            continue
        cb = pr._mk("and", [fb] + [pr._bool(t, pol) for t, pol in e.cond])
        t = pr._tables([cb])
        if t is not None and t[1][0] == 0:
            continue  # not in five-stage mode
        v = pr.resolve_under(e.expr.value, cb)
        if isinstance(v, ast.Call) and m.resolve_class(f.module, v.func) is m.cls("Pipeline"):
            found = (e, v)
    if found is None:
        raise AnalysisError("anchor vanished: RiscvArchitecturalState.__init__ no longer stores Pipeline(..) in self.pipeline in five-stage mode")
    e, call = found
    pinit = m.method("Pipeline", "__init__")
    names = pinit.params[1:]
    given = {names[i]: a for i, a in enumerate(call.args) if i < len(names)}
    given.update({k.arg: k.value for k in call.keywords if k.arg})
    st_e, ord_e = given.get("stages"), given.get("execution_ordering")

    def _project(x):
        # `(a, b)[0]` is `a`; `(p if c else q)[0]` is `p[0] if c else q[0]`, resolved under the five-stage condition (a helper that
        # returns the stage list and the order as one tuple)
        import copy as _c
        for _ in range(4):
            if isinstance(x, ast.Subscript) and isinstance(x.slice, ast.Constant) and isinstance(x.slice.value, int):
                v_ = x.value
                if isinstance(v_, (ast.Tuple, ast.List)) and -len(v_.elts) <= x.slice.value < len(v_.elts) and not any(isinstance(y, ast.Starred) for y in v_.elts):
                    x = v_.elts[x.slice.value]
                    continue
                if isinstance(v_, ast.IfExp):
                    x = pr.resolve_under(ast.IfExp(test=v_.test, body=ast.Subscript(value=v_.body, slice=_c.deepcopy(x.slice), ctx=ast.Load()),
                                                   orelse=ast.Subscript(value=v_.orelse, slice=_c.deepcopy(x.slice), ctx=ast.Load())), cb_found)
                    continue
            break
        return x
    cb_found = pr._mk("and", [fb] + [pr._bool(t, pol) for t, pol in e.cond])
    st_e, ord_e = (_project(st_e) if st_e is not None else None), (_project(ord_e) if ord_e is not None else None)
    if not isinstance(st_e, ast.List) or ord_e is None:
        raise AnalysisError("five-stage branch no longer binds `stages` (a list of stage constructor calls) and `execution_ordering`")
    stages, stage_calls = [], []
    for x in st_e.elts:
        c = m.resolve_class(f.module, x.func) if isinstance(x, ast.Call) else None
        if c is None:
            raise AnalysisError(f"{f.loc(e.node)}: stage list element `{ast.unparse(x)}` is not a constructor call")
        stages.append(c)
        stage_calls.append(x)
    oe = ord_e
    if isinstance(oe, ast.Call) and isinstance(oe.func, ast.Name) and oe.func.id in ("list", "tuple") and len(oe.args) == 1:
        oe = oe.args[0]
    try:
        order = fold_in(m, f.module, oe)
    except Unknown as exc:
        raise AnalysisError(f"{f.loc(e.node)}: execution_ordering does not fold: {exc}")
    order = list(order) if isinstance(order, (list, tuple)) else order
    out = {"func": f, "node": e.node, "stages": stages, "order": order, "stage_calls": stage_calls}
    ctx.__dict__["_five_stage_cfg"] = out
    return out


def order_rule(ctx: Ctx, rid: str) -> dict:
    cfg = five_stage_config(ctx)
    r = ctx.rule(rid, "stage list is IF,ID,EX,MEM,WB; execution order is a permutation with WB before ID")
    f = cfg["func"]
    roles = [STAGE_ROLE.get(c.name, c.name) for c in cfg["stages"]]
    r.check(roles == ["IF", "ID", "EX", "MEM", "WB"], "stages", f.loc(cfg["node"]),
            f"five-stage stage list is {roles}, expected IF, ID, EX, MEM, WB", roles)
    order = cfg["order"]
    okp = isinstance(order, list) and sorted(order) == list(range(len(roles)))
    r.check(okp, "execution_ordering|permutation", f.loc(cfg["node"]),
            f"execution_ordering {order} is not a permutation of the stage indices", order)
    if okp and "WB" in roles and "ID" in roles:
        ok = order.index(roles.index("WB")) < order.index(roles.index("ID"))
        r.check(ok, "execution_ordering|write-before-read", f.loc(cfg["node"]),
                f"execution_ordering {order} runs ID before WB: registers are read before the same cycle's "
                "write-back (the documented register file writes first)")
        # the redirecting stage must not run after a younger stage has already consumed pc
        ok2 = order[0] == roles.index("IF")
        r.check(ok2, "execution_ordering|fetch-first", f.loc(cfg["node"]),
                f"execution_ordering {order} does not start with IF")
    if okp and "WB" in roles and "MEM" in roles and rid == "R02.order":
        # Pipeline.step abandons the cycle at the stage that raises.  A load/store faults in MEM; the instruction in front of it
        # is in WB in that cycle and has retired in single-cycle mode, so its register write must already have happened.
        ok3 = order.index(roles.index("WB")) < order.index(roles.index("MEM"))
        r.check(ok3, "execution_ordering|retire-before-fault", f.loc(cfg["node"]),
                f"execution_ordering {order} runs MEM before WB: when a load/store faults in MEM the cycle is abandoned before the older "
                "instruction in WB has written its register, so the registers at the fault differ from single-cycle mode")
    return cfg


def chain_rule(ctx: Ctx, rid: str) -> None:
    """Consecutive stages agree on the pipeline-register class (docs/pipeline.md)."""
    m = ctx.model
    cfg = five_stage_config(ctx)
    r = ctx.rule(rid, "stage B tests isinstance(input, X) for the X stage A constructs on every return")
    stages: list[ClassInfo] = cfg["stages"]
    produced = []
    expected = []
    for c in stages:
        beh = m.method(c, "behavior")
        rets = set()
        for n in walk_no_nested(beh.node):
            if isinstance(n, ast.Return) and isinstance(n.value, ast.Call):
                k = m.resolve_class(beh.module, n.value.func)
                rets.add(k.name if k else ast.unparse(n.value.func))
            elif isinstance(n, ast.Return):
                rets.add(ast.unparse(n.value) if n.value else "None")
        produced.append(rets)
        tests = set()
        for n in walk_no_nested(beh.node):
            if isinstance(n, ast.Call) and isinstance(n.func, ast.Name) and n.func.id == "isinstance" and len(n.args) == 2 \
                    and isinstance(n.args[0], ast.Name) and n.args[0].id == "pipeline_register":
                k = m.resolve_class(beh.module, n.args[1])
                tests.add(k.name if k else ast.unparse(n.args[1]))
        expected.append(tests)
    for i in range(len(stages) - 1):
        a, b = stages[i], stages[i + 1]
        key = f"{a.name}->{b.name}"
        ok = len(produced[i]) == 1 and produced[i] == expected[i + 1]
        r.check(ok, key, m.method(b, "behavior").loc(),
                f"{a.name}.behavior returns {sorted(produced[i])} but {b.name}.behavior accepts {sorted(expected[i + 1])}",
                {"returns": sorted(produced[i]), "accepts": sorted(expected[i + 1])})
    r.floor(4)


def _stall_consts(f: FuncInfo) -> list[tuple[ast.Call, Optional[int]]]:
    out = []
    for c in calls_in(f.node):
        if isinstance(c.func, ast.Name) and c.func.id == "StallSignal":
            v = const_int(c.args[0]) if c.args else None
            for k in c.keywords:
                if k.arg == "duration":
                    v = const_int(k.value)
            out.append((c, v))
    return out


def depth_rule(ctx: Ctx, rid: str) -> None:
    m = ctx.model
    cfg = five_stage_config(ctx)
    r = ctx.rule(rid, "interlock constants agree: StallSignal(k) = stages_until_writeback = distance(ID,WB)-1")
    roles = [STAGE_ROLE.get(c.name, c.name) for c in cfg["stages"]]
    if "ID" not in roles or "WB" not in roles:
        raise AnalysisError("stage list lost ID or WB")
    dist = roles.index("WB") - roles.index("ID") - 1
    idc = m.cls("InstructionDecodeStage")
    init = m.method(idc, "__init__", own=True)
    env_default = None
    a = init.node.args
    pos = a.posonlyargs + a.args
    for p, d in zip(pos[len(pos) - len(a.defaults):], a.defaults):
        if p.arg == "stages_until_writeback":
            env_default = const_int(d)
    # explicit argument at the construction site overrides the default
    for call in cfg["stage_calls"]:
        if m.resolve_class(cfg["func"].module, call.func) is idc:
            for k in call.keywords:
                if k.arg == "stages_until_writeback":
                    env_default = const_int(k.value)
            if call.args:
                env_default = const_int(call.args[0])
    r.check(env_default == dist, "stages_until_writeback", init.loc(),
            f"stages_until_writeback is {env_default} but {dist} stages lie strictly between ID and WB "
            "(WB runs before ID in the same cycle, so exactly those producers are still in flight)",
            {"stages_until_writeback": env_default, "distance": dist})
    beh = m.method(idc, "behavior", own=True)
    sc = _stall_consts(beh)
    if not sc:
        raise AnalysisError("anchor vanished: StallSignal(..) in InstructionDecodeStage.behavior")
    for c, v in sc:
        r.check(v == dist, "ID.StallSignal", beh.loc(c),
                f"decode interlock stalls for {v} cycles but the producer needs {dist} more stages to write back",
                {"duration": v, "distance": dist})
    # the looked-at producers are registers own+1 .. own+stages_until_writeback
    # every latch the interlock reads is pipeline_registers[own + c + i] for i in range(a, b) with own+c+a = own+1 and
    # own+c+b-1 = own+stages_until_writeback (linear forms, single-assigned locals substituted)
    from .linear import linform as _lf
    from .pathsym import subst as _subst
    own = beh.params[2] if len(beh.params) > 2 else "index_of_own_input_register"
    regs = beh.params[1] if len(beh.params) > 1 else "pipeline_registers"
    N = f"{beh.params[0]}.stages_until_writeback"
    single: dict = {}
    counts: dict = {}
    for n in ast.walk(beh.node):
        if isinstance(n, ast.Name) and isinstance(n.ctx, ast.Store):
            counts[n.id] = counts.get(n.id, 0) + 1
    for n in ast.walk(beh.node):
        if isinstance(n, ast.Assign) and len(n.targets) == 1 and isinstance(n.targets[0], ast.Name) and counts.get(n.targets[0].id) == 1:
            single[n.targets[0].id] = n.value
    for _ in range(4):
        single = {k: _subst(v, {k2: v2 for k2, v2 in single.items() if k2 != k}) for k, v in single.items()}
    windows = []
    for n in ast.walk(beh.node):
        gens = []
        if isinstance(n, (ast.ListComp, ast.GeneratorExp, ast.SetComp)):
            gens = [(g.target, g.iter, [n.elt] + list(g.ifs)) for g in n.generators]
        elif isinstance(n, ast.For):
            gens = [(n.target, n.iter, n.body)]
        for tgt, it, scope in gens:
            it = _subst(it, single)
            if not (isinstance(tgt, ast.Name) and isinstance(it, ast.Call) and isinstance(it.func, ast.Name) and it.func.id == "range" and 1 <= len(it.args) <= 2):
                continue
            lo = ast.Constant(value=0) if len(it.args) == 1 else it.args[0]
            hi = it.args[-1]
            for sc in scope:
                for x in ast.walk(sc):
                    if isinstance(x, ast.Subscript) and isinstance(x.value, ast.Name) and x.value.id == regs and not isinstance(x.slice, ast.Slice):
                        idx = _lf(_subst(x.slice, single))
                        a_, b_ = _lf(_subst(lo, single)), _lf(_subst(hi, single))
                        if idx is None or a_ is None or b_ is None or idx.get(tgt.id) != 1:
                            windows.append(None)
                            continue
                        base = {k: v for k, v in idx.items() if k != tgt.id}

                        def add(u: dict, v: dict, sign: int = 1) -> dict:
                            o = dict(u)
                            for k, c in v.items():
                                o[k] = o.get(k, 0) + sign * c
                            return {k: c for k, c in o.items() if c != 0}
                        first = add(base, a_)
                        last = add(add(base, b_), {"": 1}, -1)
                        windows.append((first, last))
    want_w = ({own: 1, "": 1}, {own: 1, N: 1})
    ok = bool(windows) and all(w == want_w for w in windows)
    r.check(ok, "ID.window", beh.loc(),
            f"decode interlock no longer inspects exactly pipeline_registers[own+1 .. own+stages_until_writeback] (windows found: {windows})")


def drain_rule(ctx: Ctx, rid: str) -> None:
    """ECALL drain: EX holds an ecall while any latch between EX's output and WB's input is non-empty,
    asks for a stall as long as that window, and runs process_ecall only once the window is empty.

    The latch fields stall_signal / exit_code / flush_signal and the two effects are compared with the
    stage table as normal forms (a search loop, `any(...)`, a flag or a helper all reduce to the same
    form); the window itself is folded to concrete latch indices for the two values of
    is_of_stalled_value."""
    from .stagespec import datapath_rule, stage_flow
    m = ctx.model
    datapath_rule(ctx, rid, section="drain", desc="ECALL drain window is pipeline_registers[own+1(+stalled) : -1]; duration = window size; "
                                                  "process_ecall only once it is empty (normal forms vs stage table)")
    r = ctx.rule(rid, "")
    beh = m.method("ExecuteStage", "behavior", own=True)
    fl = stage_flow(ctx, "ExecuteStage")
    full = [x for x in fl.returns if isinstance(x.value, ast.Call) and x.value.keywords]
    sl = None
    if len(full) == 1:
        kw = {k.arg: k.value for k in full[0].value.keywords}  # type: ignore[union-attr]
        for n in ast.walk(kw.get("stall_signal", ast.Constant(value=None))):
            if isinstance(n, ast.comprehension) and isinstance(n.iter, ast.Subscript) and isinstance(n.iter.slice, ast.Slice):
                sl = n.iter.slice
    if sl is None:
        r.check(False, "EX.drain-window", beh.loc(), "the ECALL drain no longer scans a slice of pipeline_registers")
        return
    res = {}
    for stalled in (0, 1):
        try:
            lo = fold_in(m, beh.module, _subst_stalled(sl.lower, stalled), extra={beh.params[2]: 1}) if sl.lower else None
            hi = fold_in(m, beh.module, _subst_stalled(sl.upper, stalled), extra={beh.params[2]: 1}) if sl.upper else None
        except Unknown as exc:
            raise AnalysisError(f"{beh.loc()}: drain slice does not fold: {exc}")
        res[stalled] = list(range(5))[lo:hi]
    ok = res[0] == [2, 3] and res[1] == [3]
    r.check(ok, "EX.drain-window", beh.loc(),
            f"drain loop scans latches {res[0]} (not stalled) / {res[1]} (stalled); expected [2, 3] / [3]: "
            "the ecall must wait for every older instruction still in MEM or WB", res)
    for c, v in _stall_consts(beh):
        r.check(v == len(res[0]), "EX.StallSignal", beh.loc(c),
                f"ecall drain requests a {v}-cycle stall but its window holds {len(res[0])} latches",
                {"duration": v, "window": res[0]})


def _subst_stalled(e: ast.AST, v: int) -> ast.AST:
    class T(ast.NodeTransformer):
        def visit_Call(self, n: ast.Call):
            if isinstance(n.func, ast.Name) and n.func.id == "int" and n.args and "is_of_stalled_value" in ast.unparse(n.args[0]):
                return ast.Constant(value=v)
            return self.generic_visit(n)

        def visit_Attribute(self, n: ast.Attribute):
            if n.attr == "is_of_stalled_value":
                return ast.Constant(value=v)
            return self.generic_visit(n)

    return T().visit(ast.parse(ast.unparse(e), mode="eval").body)


def stallpair_rule(ctx: Ctx, rid: str) -> None:
    m = ctx.model
    r = ctx.rule(rid, "stall state is cleared as a pair; a flush cancels the stall of flushed stages")
    step = m.method("Pipeline", "step", own=True)
    sn = step.params[0]

    # On the normal form of Pipeline.step: every store `self.stalled = None` has a twin `self.stalled_pipeline_regs = None` under the
    # same condition (truth tables), wherever the two statements sit.  (That the flush branch cancels a stall exactly when its
    # stalling stage was flushed, clears the latches in front of the flushing stage and redirects the pc is part of the
    # reference comparison of Pipeline.step, R0x.step.)
    from .flowspec import table
    from .parsershape import normal_flow
    fl = normal_flow(m, step)
    _rets, effs = table(fl)
    import re as _re
    a = sorted(c for k, t, c, _e in effs if k == "store" and _re.sub(r"@\d+", "", t) == "P0.stalled := None")
    b = sorted(c for k, t, c, _e in effs if k == "store" and _re.sub(r"@\d+", "", t) == "P0.stalled_pipeline_regs := None")
    r.check(a == b, "Pipeline.step|clear-pairs", step.loc(), "`self.stalled = None` and `self.stalled_pipeline_regs = None` do not happen under the same "
            f"conditions ({a} vs {b}): the next stall would reuse stale preserved inputs")
    if len(a) < 2:
        r.viol("Pipeline.step|pairs", step.loc(), f"only {len(a)} stall-clearing site(s) left (end of stall, flush)")


def _block_label(n: ast.AST) -> str:
    if isinstance(n, ast.If):
        return "if " + " ".join(ast.unparse(n.test).split())[:50]
    return type(n).__name__


def src_rule(ctx: Ctx, rid: str) -> None:
    """The decode interlock asks for a stall exactly when an in-flight destination R is a real register
    (not None, not x0) and equals one of the two read addresses.

    The stall condition is recovered as a boolean function of the atoms {R is None, R == 0, A1 == R,
    A2 == R}: from the paths through one iteration of the search loop (the disjunction, over the paths
    that reach StallSignal, of the tests they passed), or from the generator condition of an
    `any(...)`; it is compared with the required function as a truth table, so the way the tests are
    nested, ordered or named does not matter (an extracted helper is inlined by the model)."""
    from .symflow import Printer, parse_expr
    m = ctx.model
    r = ctx.rule(rid, "decode stall  <=>  producer is a real register and equals read address 1 or 2 (truth table)")
    beh = m.method("InstructionDecodeStage", "behavior", own=True)
    addr_names: list[str] = []
    for n in walk_no_nested(beh.node):
        if isinstance(n, ast.Assign) and isinstance(n.value, ast.Call) and isinstance(n.value.func, ast.Attribute) \
                and n.value.func.attr == "access_register_file" and isinstance(n.targets[0], ast.Tuple):
            addr_names = [e.id for e in n.targets[0].elts[:2] if isinstance(e, ast.Name)]
    if len(addr_names) != 2:
        raise AnalysisError("anchor vanished: unpacking of access_register_file in ID.behavior")
    a1, a2 = addr_names

    def is_stall(node: ast.AST) -> bool:
        return any(isinstance(c.func, ast.Name) and c.func.id == "StallSignal" for c in calls_in(node))

    want_src = "R is not None and R != 0 and (A1 == R or A2 == R)"
    formulas: list[tuple[ast.AST, dict, ast.AST]] = []  # (formula, alias map, location)
    # (1) search loops
    loops = [n for n in walk_no_nested(beh.node) if isinstance(n, (ast.For, ast.While))
             and any(isinstance(x, ast.Name) and x.id in (a1, a2) for x in ast.walk(n))]
    for loop in loops:
        if not (isinstance(loop, ast.For) and isinstance(loop.target, ast.Name)):
            r.check(False, "ID.hazard-loop", beh.loc(loop), "the interlock's search loop does not bind one producer per iteration")
            continue
        rn = loop.target.id
        disj: list[ast.AST] = []
        seen: set = set()
        for p in function_paths(beh.node):
            ent = [k for k, e in enumerate(p.events) if e.kind == "loop" and e.node is loop]
            if not ent:
                continue
            if not p.events[ent[0]].pol:
                if any(e.kind == "stmt" and is_stall(e.node) for e in p.events[ent[0]:]):
                    r.check(False, "ID.hazard-loop|empty", beh.loc(loop), "a stall is requested although no producer was examined", None, p.labels()[:12])
                continue
            end = next((k for k, e in enumerate(p.events) if k > ent[0] and e.kind == "loopend" and e.node is loop), len(p.events))
            if not any(e.kind == "stmt" and is_stall(e.node) for e in p.events[ent[0]:]):
                continue
            conj = []
            for e in p.events[ent[0] + 1:end]:
                if e.kind == "test" and any(isinstance(x, ast.Name) and x.id == rn for x in ast.walk(e.node)):
                    conj.append(e.node if e.pol else ast.UnaryOp(op=ast.Not(), operand=e.node))
            key = tuple(ast.dump(c) for c in conj)
            if key in seen:
                continue
            seen.add(key)
            disj.append(ast.BoolOp(op=ast.And(), values=conj) if len(conj) > 1 else conj[0] if conj else ast.Constant(value=True))
        f = ast.BoolOp(op=ast.Or(), values=disj) if len(disj) > 1 else disj[0] if disj else ast.Constant(value=False)
        formulas.append((f, {rn: "R", a1: "A1", a2: "A2"}, loop))
    # (2) any(<cond> for R in producers)
    for n in walk_no_nested(beh.node):
        if isinstance(n, ast.Call) and isinstance(n.func, ast.Name) and n.func.id == "any" and len(n.args) == 1 \
                and isinstance(n.args[0], (ast.GeneratorExp, ast.ListComp)) and len(n.args[0].generators) == 1 \
                and any(isinstance(x, ast.Name) and x.id in (a1, a2) for x in ast.walk(n)):
            g = n.args[0].generators[0]
            if isinstance(g.target, ast.Name):
                parts = list(g.ifs) + [n.args[0].elt]
                f = ast.BoolOp(op=ast.And(), values=parts) if len(parts) > 1 else parts[0]
                formulas.append((f, {g.target.id: "R", a1: "A1", a2: "A2"}, n))
    if not formulas:
        raise AnalysisError("anchor vanished: the interlock's comparison of read addresses with in-flight destinations")
    spec_p = Printer(m, [], {}, canonical=True)
    want_b = spec_p._bool(parse_expr(want_src))
    for f, al, at in formulas:
        pr = Printer(m, [], al, canonical=True)
        got_b = pr._bool(f)
        t = pr._tables([got_b, want_b])
        ok = t is not None and t[1][0] == t[1][1]
        r.check(ok, "ID.hazard-compare", beh.loc(at),
                f"the decode stall condition is `{Printer(m, [], al).show_test(f)}`; required: `{want_src}` "
                f"(R = in-flight destination, A1/A2 = {a1}/{a2})")
    txt = " ".join(ast.unparse(beh.node).split())
    r.check(".instruction.get_write_register()" in txt, "ID.producers", beh.loc(),
            "in-flight destinations are no longer taken from get_write_register() of later latches")


def flushres_rule(ctx: Ctx, rid: str) -> None:
    """Control transfers are resolved in MEM: only MEM (branch/jump/jalr/exit) and EX/WB
    (exit only) construct flush signals, all non-inclusive; IF predicts not-taken."""
    m = ctx.model
    r = ctx.rule(rid, "flush signals: who constructs them, inclusive=False, redirect target")
    allowed = {"MemoryAccessStage": {"pc_plus_imm", "result", "pc_plus_instruction_length"},
               "ExecuteStage": {"pc_plus_instruction_length"},
               "RegisterWritebackStage": {"pc_plus_instruction_length"}}
    n = 0
    for f in m.functions.values():
        if ".cli." in f.qname:
            continue
        for c in calls_in(f.node):
            if isinstance(c.func, ast.Name) and c.func.id == "FlushSignal":
                n += 1
                cn = f.cls.name if f.cls else ""
                args = list(c.args) + [None, None]
                inc, addr = args[0], args[1]
                for k in c.keywords:
                    if k.arg == "inclusive":
                        inc = k.value
                    if k.arg == "address":
                        addr = k.value
                key = f"{cn}|{ast.unparse(addr) if addr is not None else '?'}"
                ok = cn in allowed and isinstance(inc, ast.Constant) and inc.value is False \
                    and isinstance(addr, ast.Attribute) and addr.attr in allowed.get(cn, set())
                r.check(ok, key, f.loc(c), f"unexpected flush signal `{seg(f, c)}` in {short(f.qname)}")
    if n < 5:
        raise AnalysisError(f"{rid}: only {n} FlushSignal constructions found (5 confirmed by hand)")
    # MEM: which condition redirects where
    mem = m.method("MemoryAccessStage", "behavior", own=True)
    pairs = 0
    for k in ast.walk(mem.node):
        if isinstance(k, ast.If):
            direct = [c for st in k.body if isinstance(st, ast.Assign) for c in calls_in(st)
                      if isinstance(c.func, ast.Name) and c.func.id == "FlushSignal"]
            if not direct:
                continue
            t = " ".join(ast.unparse(k.test).split())
            addr = None
            c = direct[0]
            if len(c.args) >= 2:
                addr = c.args[1]
            for kw in c.keywords:
                if kw.arg == "address":
                    addr = kw.value
            a = addr.attr if isinstance(addr, ast.Attribute) else None
            if "alu_to_pc" in t:
                want = "result"
            elif "exit_code" in t:
                want = "pc_plus_instruction_length"
            elif "jump" in t or "branch" in t:
                want = "pc_plus_imm"
            else:
                continue
            pairs += 1
            r.check(a == want, f"MEM|{want}", mem.loc(c),
                    f"MemoryAccessStage: under `{t[:60]}` fetch is redirected to `{a}`, expected `{want}`")
    if pairs < 3:
        r.viol("MEM|redirect-branches", mem.loc(), f"only {pairs} of the 3 redirect branches (taken branch/jump, "
               "jalr, exit) recognised in MemoryAccessStage.behavior")
    # static not-taken prediction in IF
    beh = m.method("InstructionFetchStage", "behavior", own=True)
    ok = any(isinstance(k, ast.keyword) and k.arg == "branch_prediction" and isinstance(k.value, ast.Constant)
             and k.value.value is False for k in ast.walk(beh.node))
    r.check(ok, "IF.prediction", beh.loc(), "IF no longer predicts not-taken (branch_prediction=False)")
    r.floor(6)


def _handler_raises(m, h: ast.ExceptHandler) -> list[tuple[str, dict]]:
    """Raises of a handler body in symflow normal form: [(path condition, {kw: canonical value})] for
    InstructionExecutionException(...), and ('cond', {'<reraise>': ''}) for a bare raise."""
    from .model import FuncInfo as _FI
    from .symflow import flow_of
    fn = ast.FunctionDef(name="_handler", args=ast.arguments(posonlyargs=[], args=[], kwonlyargs=[], kw_defaults=[], defaults=[]),
                         body=list(h.body), decorator_list=[], lineno=h.lineno, col_offset=0)
    ast.fix_missing_locations(fn)
    fl = flow_of(_FI("_handler", "_handler", fn, None, None), m)  # type: ignore[arg-type]
    out = []
    for e in fl.effects:
        if e.kind != "raise":
            continue
        x = e.expr
        if isinstance(x, ast.Call) and isinstance(x.func, ast.Name) and x.func.id == "InstructionExecutionException":
            sig = ["address", "instruction_repr", "error_message"]
            kw = {sig[i]: fl.canon(a) for i, a in enumerate(x.args[:3])}
            kw.update({k.arg: fl.canon(k.value) for k in x.keywords if k.arg})
            out.append((fl.canon_cond(e.cond), kw))
        else:
            out.append((fl.canon_cond(e.cond), {"<other>": fl.canon(x)}))
    return out


def _wraps(m, h: ast.ExceptHandler, latch: str) -> tuple[bool, object]:
    """Every InstructionExecutionException the handler raises names `latch`'s address and instruction."""
    rs = [kw for _, kw in _handler_raises(m, h) if "<other>" not in kw]
    if not rs:
        return False, None
    ok = all(kw.get("address") == f"{latch}.address_of_instruction" and
             kw.get("instruction_repr") in (f"{latch}.instruction.__repr__()", f"repr({latch}.instruction)") for kw in rs)
    return ok, rs


def fault_rule(ctx: Ctx, rid: str) -> None:
    """Run-time failures are wrapped, broadly, with the failing instruction's address."""
    m = ctx.model
    r = ctx.rule(rid, "stage exceptions are wrapped into InstructionExecutionException(address, repr) of the failing stage's input")
    step = m.method("Pipeline", "step", own=True)
    parents: dict = {}
    for n in ast.walk(step.node):
        for c in ast.iter_child_nodes(n):
            parents[id(c)] = n
    dispatch = [c for c in calls_in(step.node) if isinstance(c.func, ast.Attribute) and c.func.attr == "behavior"]
    if not dispatch:
        # the dispatch sits in a helper the model could not write back into step(): decide the one case that matters here -- a helper
        # that restores the substituted input register in a `finally`, i.e. also on the way to step()'s handler, which then reads the
        # regular register instead of the one the failing stage worked on
        pl = m.cls("Pipeline")
        for h in pl.methods.values():
            if h is step or not any(isinstance(c.func, ast.Attribute) and c.func.attr == "behavior" for c in calls_in(h.node)):
                continue
            for t in (n for n in ast.walk(h.node) if isinstance(n, ast.Try) and n.finalbody):
                in_body = any(isinstance(c.func, ast.Attribute) and c.func.attr == "behavior" for st in t.body for c in calls_in(st))
                rewrites = any(isinstance(tg, ast.Subscript) and "pipeline_registers" in ast.unparse(tg.value)
                               for st in t.finalbody for x in ast.walk(st) if isinstance(x, (ast.Assign, ast.AugAssign))
                               for tg in (x.targets if isinstance(x, ast.Assign) else [x.target]))
                if in_body and rewrites:
                    r.check(False, f"Pipeline.{h.name}|finally-restores-input", h.loc(t),
                            f"Pipeline.{h.name} runs the stage inside `try .. finally` and the `finally` rewrites pipeline_registers: when the stage "
                            "fails, the substituted input register is put back before Pipeline.step's handler reads pipeline_registers[index - 1], so "
                            "the InstructionExecutionException names the wrong instruction")
        if r.violations if hasattr(r, "violations") else False:
            return
        if any(f_.rule == rid for f_ in ctx.findings):
            return
        raise AnalysisError(f"{rid}: no stage dispatch site (`<stage>.behavior(...)`) in Pipeline.step")
    for c in dispatch:
        key = f"Pipeline.step|dispatch@{_enclosing_test(step, c)}"
        # the loop that walks the stages binds the index the handler uses
        idx = None
        n: ast.AST = c
        chain = []
        while id(n) in parents:
            p = parents[id(n)]
            chain.append((p, n))
            n = p
        for p, child in chain:
            if isinstance(p, ast.For) and isinstance(p.target, ast.Name):
                idx = p.target.id
                break
        ok = False
        detail = None
        between_finally = None
        for p, child in chain:
            if isinstance(p, ast.Try) and any(child is s for s in p.body):
                hs = [h for h in p.handlers if (ast.unparse(h.type) if h.type is not None else "BaseException") in ("Exception", "BaseException")]
                if hs and idx is not None:
                    ok, detail = _wraps(m, hs[0], f"self.pipeline_registers[Sub({idx}, 1)]")
                    break
                if p.finalbody and any(isinstance(t, ast.Subscript) and "pipeline_registers" in ast.unparse(t.value)
                                       for s in p.finalbody for x in ast.walk(s) if isinstance(x, (ast.Assign, ast.AugAssign))
                                       for t in (x.targets if isinstance(x, ast.Assign) else [x.target])):
                    between_finally = p
        if ok and between_finally is not None:
            ok = False
            detail = "a `finally` between the dispatch and the wrapping handler rewrites pipeline_registers before the handler reads the failing input"
        r.check(ok, key, step.loc(c), "a stage dispatch is not inside a try whose `except Exception` handler raises "
                "InstructionExecutionException(address/instruction_repr of pipeline_registers[index - 1])", detail)
    ss = m.method("SingleStage", "behavior", own=True)
    tries = [n for n in walk_no_nested(ss.node) if isinstance(n, ast.Try)]
    ok = False
    latch = None
    for t in tries:
        names = [c.func.attr for st in t.body for c in calls_in(st) if isinstance(c.func, ast.Attribute)]
        if "behavior" in names:
            for h in t.handlers:
                tn = ast.unparse(h.type) if h.type is not None else "BaseException"
                if tn in ("Exception", "BaseException"):
                    rs = [kw for _, kw in _handler_raises(m, h) if "<other>" not in kw]
                    if rs and all(kw.get("address", "").endswith(".address_of_instruction") for kw in rs):
                        latch = rs[0]["address"][: -len(".address_of_instruction")]
                        ok, _ = _wraps(m, h, latch)
    r.check(ok, "SingleStage.behavior|wrap", ss.loc(), "behavior()/memory_access() of the single stage are not wrapped by "
            "`except Exception` into InstructionExecutionException(<latch>.address_of_instruction, repr(<latch>.instruction))")
    # ... and no execution of the instruction happens outside that try
    wrapped_ids: set = set()
    for t in tries:
        if any((ast.unparse(h.type) if h.type is not None else "BaseException") in ("Exception", "BaseException") for h in t.handlers):
            for st in t.body:
                for c in calls_in(st):
                    wrapped_ids.add(id(c))
    for c in calls_in(ss.node):
        if isinstance(c.func, ast.Attribute) and c.func.attr in ("behavior", "memory_access", "process_ecall") \
                and "instruction" in ast.unparse(c.func.value):
            r.check(id(c) in wrapped_ids, f"SingleStage.behavior|wrapped:{c.func.attr}", ss.loc(c),
                    f"`{seg(ss, c)}` executes the instruction outside the try that turns run-time faults into InstructionExecutionException")
    # <latch>.address_of_instruction is the fetch address
    ok = False
    if latch is not None:
        for n in walk_no_nested(ss.node):
            if isinstance(n, ast.Assign) and len(n.targets) == 1 and ast.unparse(n.targets[0]) == f"{latch}.address_of_instruction" \
                    and ast.unparse(n.value) == "state.program_counter":
                ok = True
            if isinstance(n, ast.Call) and any(k.arg == "address_of_instruction" and ast.unparse(k.value) == "state.program_counter" for k in n.keywords):
                ok = True
    r.check(ok, "SingleStage.behavior|address", ss.loc(), "the reported address is not the program counter at fetch")
    # the exception type itself
    ex = m.cls("InstructionExecutionException")
    r.check({"address", "instruction_repr", "error_message"} <= set(ex.anns), "InstructionExecutionException|fields", ex.loc(),
            "InstructionExecutionException lost one of address / instruction_repr / error_message")
    r.floor(4)


def _enclosing_test(f: FuncInfo, node: ast.AST) -> str:
    best = "plain"
    for n in ast.walk(f.node):
        if isinstance(n, ast.If):
            for blk, lab in ((n.body, "T"), (n.orelse, "F")):
                if any(node is x for st in blk if not isinstance(st, ast.If) for x in ast.walk(st)):
                    best = " ".join(ast.unparse(n.test).split())[:40] + ":" + lab
    return best
