"""Reference formulation of Pipeline.step (the pipeline controller), compared through sa.flowspec.

The text below is the confirmed reading of the controller: stage dispatch in execution order with the stalled-stage
input substitution, the wrap of stage exceptions, stall pick-up (youngest-first scan of the new latches), flush handling
(latches in front of the flushing stage are emptied, a stall whose stalling stage was flushed is cancelled, the pc is
redirected) and the stall count-down.  `sa.flowspec.compare` reduces both sides to the multiset of effects with their path
conditions (truth tables) in symflow's normal form -- extracted helpers, renamed locals, early exits, `index - 1` written
as `stalled[0]` where the branch condition says they are equal, etc. do not matter; which latch is handed to which stage
under which condition does.
"""
from __future__ import annotations

from .flowspec import compare
from .report import Ctx

STEP_REF = '''
def step(self):
    self.state.performance_metrics.cycles += 1
    next_pipeline_registers = [None] * self.num_stages
    for index in self.execution_ordering:
        try:
            if self.stalled is not None:
                if index == 0:
                    next_pipeline_registers[0] = self.pipeline_registers[0]
                    continue
                elif index == self.stalled[0] + 1:
                    tmp = self.pipeline_registers[self.stalled[0]]
                    self.pipeline_registers[self.stalled[0]] = PipelineRegister()
                    next_pipeline_registers[index] = self.stages[index].behavior(pipeline_registers=self.pipeline_registers, index_of_own_input_register=index - 1, state=self.state)
                    self.pipeline_registers[self.stalled[0]] = tmp
                    continue
                elif index <= self.stalled[0]:
                    tmp = self.pipeline_registers[index - 1]
                    self.pipeline_registers[index - 1] = self.stalled_pipeline_regs[index - 1]
                    next_pipeline_registers[index] = self.stages[index].behavior(pipeline_registers=self.pipeline_registers, index_of_own_input_register=index - 1, state=self.state)
                    self.pipeline_registers[index - 1] = tmp
                    continue
            next_pipeline_registers[index] = self.stages[index].behavior(pipeline_registers=self.pipeline_registers, index_of_own_input_register=index - 1, state=self.state)
        except Exception as e:
            if index - 1 >= 0:
                raise InstructionExecutionException(address=self.pipeline_registers[index - 1].address_of_instruction, instruction_repr=self.pipeline_registers[index - 1].instruction.__repr__(), error_message=e.__repr__())
            else:
                raise
    for index, pipeline_register in reversed(list(enumerate(next_pipeline_registers))):
        if pipeline_register is not None and pipeline_register.stall_signal is not None and (self.stalled is None or index > self.stalled[0]):
            self.stalled = [index, pipeline_register.stall_signal.duration + 1]
            self.state.performance_metrics.stalls += 1
            break
    if self.stalled and self.stalled_pipeline_regs is None:
        self.stalled_pipeline_regs = self.pipeline_registers[:self.stalled[0]]
        for reg in self.stalled_pipeline_regs:
            reg.is_of_stalled_value = True
    self.pipeline_registers = next_pipeline_registers
    if self.stalled is not None:
        self.stalled[1] -= 1
        if self.stalled[1] == 0:
            self.stalled = None
            self.stalled_pipeline_regs = None
    for index, pipeline_register in reversed(list(enumerate(self.pipeline_registers))):
        flush_signal = pipeline_register.flush_signal
        if flush_signal is not None:
            self.state.performance_metrics.flushes += 1
            num_to_flush = index + flush_signal.inclusive
            self.pipeline_registers[:num_to_flush] = [PipelineRegister()] * num_to_flush
            self.state.program_counter = flush_signal.address
            if self.stalled is not None and self.stalled[0] < num_to_flush:
                self.stalled = None
                self.stalled_pipeline_regs = None
            break
'''


def step_rule(ctx: Ctx, rid: str, raises_only: bool = False) -> None:
    m = ctx.model
    if raises_only:
        r = ctx.rule(rid, "Pipeline.step wraps every stage failure (normal form of its raise effects and their conditions vs the reference)")
        compare(r, m, m.method("Pipeline", "step"), STEP_REF, "Pipeline.step", keep=lambda k, t: k == "raise", returns=False,
                what="a failing stage is reported as InstructionExecutionException(address, text of the stage's input latch, message) for every stage "
                     "behind the first and every address (0 included); only a failure of the first stage is re-raised as it is")
        return
    r = ctx.rule(rid, "Pipeline.step is the confirmed controller (normal form of all effects and their conditions vs the reference)")
    compare(r, m, m.method("Pipeline", "step"), STEP_REF, "Pipeline.step",
            what="the pipeline controller (dispatch / stall pick-up / flush / stall count-down)")
