"""pyparsing grammars evaluated from the AST of the parser class bodies.

The class body of a ``Parser`` subclass is a straight-line sequence of
assignments built from a small combinator subset.  ``evaluate`` turns it into
a grammar IR without importing pyparsing or the repository.  On the IR:

  token_nfa(g)        regular language of the *text* one element can match
                      (Combine-style, no inner whitespace) as an NFA
  Dfa / difference    subset construction, product, shortest witness
  named(g)            results-name -> elements carrying that name
  shape(alt)          flattened item list of an instruction alternative

Any combinator outside the subset raises AnalysisError ("unmodelled
construct"): never a guess.
"""
from __future__ import annotations

import ast
import string
from dataclasses import dataclass, field
from typing import Iterable, Optional, Union

from .consteval import Folder, Unknown
from .model import AnalysisError, ClassInfo, Model

ALPHAS = string.ascii_letters
NUMS = string.digits
HEXNUMS = string.hexdigits
ALPHANUMS = ALPHAS + NUMS
PP_CONST = {"alphas": ALPHAS, "nums": NUMS, "hexnums": HEXNUMS, "alphanums": ALPHANUMS,
            "printables": "".join(c for c in string.printable if c not in string.whitespace)}


# ----------------------------------------------------------------------- IR
@dataclass(frozen=True)
class G:
    kind: str  # lit word seq alt opt group combine sup oneof dlist quoted end
    items: tuple = ()
    s: str = ""
    chars: str = ""  # word: initial chars
    body: str = ""  # word: body chars
    caseless: bool = False
    longest: bool = False
    name: Optional[str] = None  # results name
    src: Optional[str] = None  # the class attribute this element was bound to (diagnostics)

    def named(self, name: str) -> "G":
        return G(self.kind, self.items, self.s, self.chars, self.body, self.caseless, self.longest, name, self.src)

    def with_src(self, src: str) -> "G":
        return G(self.kind, self.items, self.s, self.chars, self.body, self.caseless, self.longest, self.name, src)


def lit(s: str, caseless: bool = False) -> G:
    return G("lit", s=s, caseless=caseless)


def seq(items: Iterable[G]) -> G:
    flat: list[G] = []
    for it in items:
        if it.kind == "seq" and it.name is None:
            flat.extend(it.items)
        else:
            flat.append(it)
    return G("seq", tuple(flat))


def alt(items: Iterable[G], longest: bool) -> G:
    flat: list[G] = []
    for it in items:
        if it.kind == "alt" and it.longest == longest and it.name is None:
            flat.extend(it.items)
        else:
            flat.append(it)
    return G("alt", tuple(flat), longest=longest)


class GrammarEval:
    def __init__(self, model: Model, cls: ClassInfo) -> None:
        self.model, self.cls = model, cls
        self.env: dict[str, Union[G, object]] = {}
        self.folder = Folder(model, cls.module, cls)
        self._run()

    def _run(self) -> None:
        for st in self.cls.node.body:
            if isinstance(st, ast.Assign) and len(st.targets) == 1 and isinstance(st.targets[0], ast.Name):
                name = st.targets[0].id
                try:
                    v = self.ev(st.value)
                except AnalysisError as exc:
                    raise AnalysisError(f"{self.cls.loc(st)}: {name}: {exc}")
                if isinstance(v, G):
                    v = v.with_src(name)
                self.env[name] = v

    def _pp(self, e: ast.AST) -> Optional[str]:
        if isinstance(e, ast.Attribute) and isinstance(e.value, ast.Name) and e.value.id in ("pp", "pyparsing"):
            return e.attr
        return None

    def as_g(self, v: object) -> G:
        if isinstance(v, G):
            return v
        if isinstance(v, str):
            return lit(v)
        raise AnalysisError(f"expected a grammar element, got {type(v).__name__}")

    def ev(self, e: ast.AST):
        if isinstance(e, ast.Constant) and isinstance(e.value, str):
            return e.value
        if isinstance(e, ast.Name):
            if e.id in self.env:
                return self.env[e.id]
            try:
                return self.folder.fold(e)
            except Unknown as exc:
                raise AnalysisError(f"name {e.id} is neither a grammar element nor a constant ({exc})")
        pa = self._pp(e)
        if pa is not None:
            if pa in PP_CONST:
                return PP_CONST[pa]
            if pa == "quoted_string" or pa == "quotedString":
                return G("quoted")
            raise AnalysisError(f"unmodelled pyparsing attribute pp.{pa}")
        if isinstance(e, ast.BinOp):
            l, r = self.ev(e.left), self.ev(e.right)
            if not isinstance(l, G) and not isinstance(r, G) and not isinstance(e.op, ast.Add):
                try:
                    return self.folder.fold(e)  # plain constant arithmetic (a numeric class attribute)
                except Unknown as exc:
                    raise AnalysisError(f"constant expression does not fold: {exc}")
            if isinstance(e.op, ast.Add):
                if not isinstance(l, G) and not isinstance(r, G):
                    try:
                        return l + r  # type: ignore[operator]
                    except Exception as exc:
                        raise AnalysisError(f"constant + failed: {exc}")
                return seq([self.as_g(l), self.as_g(r)])
            if isinstance(e.op, ast.BitOr):
                return alt([self.as_g(l), self.as_g(r)], longest=False)
            if isinstance(e.op, ast.BitXor):
                return alt([self.as_g(l), self.as_g(r)], longest=True)
            raise AnalysisError(f"unmodelled operator {type(e.op).__name__} on grammar elements")
        if isinstance(e, ast.Call):
            fa = self._pp(e.func)
            kw = {k.arg: k.value for k in e.keywords}
            if fa is not None:
                args = [self.ev(a) for a in e.args]
                if fa == "Literal":
                    return lit(str(args[0]))
                if fa == "CaselessLiteral":
                    return lit(str(args[0]), caseless=True)
                if fa == "Word":
                    init = str(args[0])
                    body = str(args[1]) if len(args) > 1 else init
                    for k in kw:
                        raise AnalysisError(f"unmodelled Word keyword {k}")
                    return G("word", chars=init, body=body)
                if fa == "Combine":
                    return G("combine", (self.as_g(args[0]),))
                if fa == "Optional":
                    return G("opt", (self.as_g(args[0]),))
                if fa == "Group":
                    return G("group", (self.as_g(args[0]),))
                if fa in ("oneOf", "one_of"):
                    strs = args[0]
                    if isinstance(strs, str):
                        strs = strs.split()
                    cl = False
                    if "caseless" in kw:
                        cl = bool(self.folder.fold(kw["caseless"]))
                    if not isinstance(strs, list) or not all(isinstance(s, str) for s in strs):
                        raise AnalysisError("oneOf argument does not fold to a list of strings")
                    return G("oneof", s="\x00".join(strs), caseless=cl)
                if fa in ("delimitedList", "delimited_list", "DelimitedList"):
                    d = self.ev(kw["delim"]) if "delim" in kw else (args[1] if len(args) > 1 else ",")
                    return G("dlist", (self.as_g(args[0]), self.as_g(d)))
                if fa == "StringEnd":
                    return G("end")
                if fa == "quoted_string":
                    g = G("quoted")
                    return g.named(str(args[0])) if args else g
                raise AnalysisError(f"unmodelled pyparsing combinator pp.{fa}")
            # method call on an element, or element("name")
            if isinstance(e.func, ast.Attribute):
                base = self.ev(e.func.value)
                if isinstance(base, G):
                    if e.func.attr == "suppress" and not e.args:
                        return G("sup", (base,))
                    if e.func.attr in ("set_results_name", "setResultsName"):
                        return base.named(str(self.ev(e.args[0])))
                    raise AnalysisError(f"unmodelled element method .{e.func.attr}()")
                # constant method such as list(d.keys())
                try:
                    return self.folder.fold(e)
                except Unknown as exc:
                    raise AnalysisError(f"call does not fold: {exc}")
            callee = None
            try:
                callee = self.ev(e.func)
            except AnalysisError:
                callee = None
            if isinstance(callee, G) and len(e.args) == 1 and not e.keywords:
                return callee.named(str(self.ev(e.args[0])))
            try:
                return self.folder.fold(e)
            except Unknown as exc:
                raise AnalysisError(f"call does not fold: {ast.unparse(e)[:60]} ({exc})")
        try:
            return self.folder.fold(e)
        except Unknown as exc:
            raise AnalysisError(f"unmodelled expression {ast.unparse(e)[:60]} ({exc})")

    def get(self, name: str) -> G:
        v = self.env.get(name)
        if not isinstance(v, G):
            raise AnalysisError(f"anchor vanished: grammar element {self.cls.name}.{name}")
        return v


def oneof_strings(g: G) -> list[str]:
    return g.s.split("\x00") if g.s else []


# ------------------------------------------------------------------ helpers
def walk(g: G) -> Iterable[G]:
    yield g
    for it in g.items:
        if isinstance(it, G):
            yield from walk(it)


def find_named(g: G, name: str) -> list[G]:
    return [x for x in walk(g) if x.name == name]


def alternatives(g: G) -> list[G]:
    """Top-level alternatives of an element (through a name / group wrapper)."""
    if g.kind == "alt":
        return list(g.items)
    return [g]


# ----------------------------------------------------------------------- NFA
class Nfa:
    def __init__(self) -> None:
        self.n = 0
        self.trans: list[tuple[int, frozenset, int]] = []
        self.eps: list[tuple[int, int]] = []

    def new(self) -> int:
        self.n += 1
        return self.n - 1


def _cs(chars: str, caseless: bool = False) -> frozenset:
    s = set(chars)
    if caseless:
        s |= {c.lower() for c in chars} | {c.upper() for c in chars}
    return frozenset(s)


def build(nfa: Nfa, g: G, start: int) -> int:
    """Adds g's *text* language (no whitespace skipping: what a Combine would join /
    what a single token matches) and returns the end state."""
    k = g.kind
    if k == "lit":
        cur = start
        for ch in g.s:
            nx = nfa.new()
            nfa.trans.append((cur, _cs(ch, g.caseless), nx))
            cur = nx
        return cur
    if k == "word":
        a = nfa.new()
        nfa.trans.append((start, _cs(g.chars), a))
        nfa.trans.append((a, _cs(g.body), a))
        return a
    if k == "oneof":
        end = nfa.new()
        for s in oneof_strings(g):
            cur = start
            for ch in s:
                nx = nfa.new()
                nfa.trans.append((cur, _cs(ch, g.caseless), nx))
                cur = nx
            nfa.eps.append((cur, end))
        return end
    if k == "seq":
        cur = start
        for it in g.items:
            cur = build(nfa, it, cur)
        return cur
    if k == "alt":
        end = nfa.new()
        for it in g.items:
            s0 = nfa.new()
            nfa.eps.append((start, s0))
            nfa.eps.append((build(nfa, it, s0), end))
        return end
    if k == "opt":
        end = build(nfa, g.items[0], start)
        nfa.eps.append((start, end))
        return end
    if k in ("group", "combine"):
        return build(nfa, g.items[0], start)
    if k == "sup":
        # suppressed text is matched but dropped from the token value
        return start
    if k == "end":
        return start
    raise AnalysisError(f"no text language for grammar element kind {k}")


class Dfa:
    def __init__(self, atoms: list[frozenset], trans: dict, start: int, accept: set, n: int) -> None:
        self.atoms, self.trans, self.start, self.accept, self.n = atoms, trans, start, accept, n


def partition(charsets: Iterable[frozenset]) -> list[frozenset]:
    """Coarsest partition of the union of charsets such that each charset is a union of blocks."""
    blocks: list[set] = []
    for cs in charsets:
        rest = set(cs)
        nxt: list[set] = []
        for b in blocks:
            i = b & rest
            if i and i != b:
                nxt.append(i)
                nxt.append(b - i)
            else:
                nxt.append(b)
            rest -= b
        if rest:
            nxt.append(rest)
        blocks = nxt
    return [frozenset(b) for b in blocks]


def determinize(nfa: Nfa, start: int, accept: int, atoms: list[frozenset]) -> Dfa:
    eps: dict[int, list[int]] = {}
    for a, b in nfa.eps:
        eps.setdefault(a, []).append(b)
    by_src: dict[int, list[tuple[frozenset, int]]] = {}
    for a, cs, b in nfa.trans:
        by_src.setdefault(a, []).append((cs, b))

    def closure(states: frozenset) -> frozenset:
        out = set(states)
        stack = list(states)
        while stack:
            s = stack.pop()
            for t in eps.get(s, []):
                if t not in out:
                    out.add(t)
                    stack.append(t)
        return frozenset(out)

    s0 = closure(frozenset({start}))
    ids = {s0: 0}
    work = [s0]
    trans: dict = {}
    while work:
        cur = work.pop()
        for ai, atom in enumerate(atoms):
            rep = next(iter(atom))
            nxt = set()
            for s in cur:
                for cs, b in by_src.get(s, []):
                    if rep in cs:
                        nxt.add(b)
            if not nxt:
                continue
            ns = closure(frozenset(nxt))
            if ns not in ids:
                ids[ns] = len(ids)
                work.append(ns)
            trans[(ids[cur], ai)] = ids[ns]
    acc = {i for s, i in ids.items() if accept in s}
    return Dfa(atoms, trans, 0, acc, len(ids))


def language_dfa(g: G, atoms: Optional[list[frozenset]] = None, extra_sets: Iterable[frozenset] = ()) -> tuple[Nfa, int, int]:
    nfa = Nfa()
    s = nfa.new()
    e = build(nfa, g, s)
    return nfa, s, e


def difference_witness(a: G, b: G, max_len: int = 64) -> Optional[str]:
    """Shortest string in L(a) \\ L(b), or None if L(a) is a subset of L(b)."""
    na, sa, ea = language_dfa(a)
    nb, sb, eb = language_dfa(b)
    atoms = partition([cs for _, cs, _ in na.trans] + [cs for _, cs, _ in nb.trans])
    da = determinize(na, sa, ea, atoms)
    db = determinize(nb, sb, eb, atoms)
    # BFS over the product (da state, db state or -1 for dead)
    start = (da.start, db.start)
    seen = {start: ""}
    queue = [start]
    while queue:
        nq = []
        for st in queue:
            x, y = st
            w = seen[st]
            if x in da.accept and (y == -1 or y not in db.accept):
                return w
            if len(w) >= max_len:
                continue
            for ai, atom in enumerate(atoms):
                nx = da.trans.get((x, ai))
                if nx is None:
                    continue
                ny = db.trans.get((y, ai), -1) if y != -1 else -1
                key = (nx, ny)
                if key not in seen:
                    seen[key] = w + min(atom)
                    nq.append(key)
        queue = nq
    return None


def unbounded_digit_run(g: G, digits: str = NUMS) -> bool:
    """Does L(g) contain arbitrarily long runs made only of the given digit characters
    (a cycle in the automaton through digit transitions only)?"""
    nfa, s, e = language_dfa(g)
    atoms = partition([cs for _, cs, _ in nfa.trans])
    d = determinize(nfa, s, e, atoms)
    dig = {ai for ai, a in enumerate(atoms) if a <= frozenset(digits)}
    # states that can reach acceptance
    rev: dict[int, set] = {}
    for (x, ai), y in d.trans.items():
        rev.setdefault(y, set()).add(x)
    live = set(d.accept)
    stack = list(d.accept)
    while stack:
        y = stack.pop()
        for x in rev.get(y, ()):
            if x not in live:
                live.add(x)
                stack.append(x)
    # cycle detection restricted to digit edges among live states
    graph: dict[int, set] = {}
    for (x, ai), y in d.trans.items():
        if ai in dig and x in live and y in live:
            graph.setdefault(x, set()).add(y)
    color: dict[int, int] = {}

    def dfs(u: int) -> bool:
        color[u] = 1
        for v in graph.get(u, ()):
            if color.get(v) == 1:
                return True
            if color.get(v) is None and dfs(v):
                return True
        color[u] = 2
        return False

    return any(color.get(u) is None and dfs(u) for u in list(graph))


# --------------------------------------------- CPython integer literal syntax
def int_accept(base: int) -> G:
    """The strings int(s, base) accepts, restricted to strings without whitespace or '_'."""
    sign = G("opt", (alt([lit("-"), lit("+")], False),))
    if base == 0:
        body = alt([
            seq([alt([lit("0x"), lit("0X")], False), G("word", chars=HEXNUMS, body=HEXNUMS)]),
            seq([alt([lit("0b"), lit("0B")], False), G("word", chars="01", body="01")]),
            seq([alt([lit("0o"), lit("0O")], False), G("word", chars="01234567", body="01234567")]),
            G("word", chars="123456789", body=NUMS),
            G("word", chars="0", body="0"),
        ], False)
    elif base == 10:
        body = G("word", chars=NUMS, body=NUMS)
    elif base == 16:
        body = alt([seq([alt([lit("0x"), lit("0X")], False), G("word", chars=HEXNUMS, body=HEXNUMS)]),
                    G("word", chars=HEXNUMS, body=HEXNUMS)], False)
    else:
        raise AnalysisError(f"int base {base} not modelled")
    return seq([sign, body])


# ------------------------------------------------------- DFA algebra context
class Langs:
    """A family of regular languages over one partitioned alphabet."""

    def __init__(self, gs: Iterable[G], extra_chars: str = "") -> None:
        self._nfas: dict[int, tuple[Nfa, int, int]] = {}
        sets: list[frozenset] = []
        self._gs = list(gs)
        for g in self._gs:
            n, s, e = language_dfa(g)
            self._nfas[id(g)] = (n, s, e)
            sets += [cs for _, cs, _ in n.trans]
        for ch in extra_chars:
            sets.append(frozenset(ch))
        self.atoms = partition(sets)

    def dfa(self, g: G) -> Dfa:
        if id(g) not in self._nfas:
            raise AnalysisError("language not registered in this context")
        n, s, e = self._nfas[id(g)]
        return determinize(n, s, e, self.atoms)

    def atom_of(self, ch: str) -> Optional[int]:
        for i, a in enumerate(self.atoms):
            if ch in a:
                return i
        return None

    def quotient(self, d: Dfa, prefix: str) -> Dfa:
        """{w : prefix+w in L(d)}"""
        cur: Optional[int] = d.start
        for ch in prefix:
            ai = self.atom_of(ch)
            cur = d.trans.get((cur, ai)) if (cur is not None and ai is not None) else None
            if cur is None:
                return Dfa(self.atoms, {}, 0, set(), 1)
        return Dfa(self.atoms, d.trans, cur, d.accept, d.n)

    def with_prefix(self, d: Dfa, prefix: str, keep: bool) -> Dfa:
        """L(d) restricted to strings that do (keep) / do not start with prefix."""
        # product with the prefix automaton: states 0..len(prefix) (matching), 'Y' matched, 'N' failed
        n = len(prefix)
        ids: dict = {}
        trans: dict = {}
        acc: set = set()
        start = (d.start, 0 if n else "Y")
        ids[start] = 0
        work = [start]
        while work:
            cur = work.pop()
            x, p = cur
            good = (p == "Y") if keep else (p != "Y")
            if x in d.accept and good:
                acc.add(ids[cur])
            for ai, atom in enumerate(self.atoms):
                nx = d.trans.get((x, ai))
                if nx is None:
                    continue
                if p in ("Y", "N"):
                    np_ = p
                else:
                    np_ = (p + 1 if p + 1 < n else "Y") if prefix[p] in atom and len(atom) == 1 else ("N" if prefix[p] not in atom else None)
                    if np_ is None:
                        raise AnalysisError("alphabet partition too coarse for prefix split")
                key = (nx, np_)
                if key not in ids:
                    ids[key] = len(ids)
                    work.append(key)
                trans[(ids[cur], ai)] = ids[key]
        return Dfa(self.atoms, trans, 0, acc, len(ids))

    def witness_not_in(self, a: Dfa, b: Dfa, max_len: int = 64) -> Optional[str]:
        start = (a.start, b.start)
        seen = {start: ""}
        queue = [start]
        while queue:
            nq = []
            for st in queue:
                x, y = st
                w = seen[st]
                if x in a.accept and (y == -1 or y not in b.accept):
                    return w
                if len(w) >= max_len:
                    continue
                for ai, atom in enumerate(self.atoms):
                    nx = a.trans.get((x, ai))
                    if nx is None:
                        continue
                    ny = b.trans.get((y, ai), -1) if y != -1 else -1
                    key = (nx, ny)
                    if key not in seen:
                        seen[key] = w + min(atom)
                        nq.append(key)
            queue = nq
        return None

    def unbounded_run(self, d: Dfa, digits: str = NUMS) -> bool:
        dig = {ai for ai, a in enumerate(self.atoms) if a <= frozenset(digits)}
        rev: dict[int, set] = {}
        for (x, ai), y in d.trans.items():
            rev.setdefault(y, set()).add(x)
        live = set(d.accept)
        stack = list(d.accept)
        while stack:
            y = stack.pop()
            for x in rev.get(y, ()):
                if x not in live:
                    live.add(x)
                    stack.append(x)
        # reachable from start
        reach = {d.start}
        stack = [d.start]
        fw: dict[int, set] = {}
        for (x, ai), y in d.trans.items():
            fw.setdefault(x, set()).add(y)
        while stack:
            x = stack.pop()
            for y in fw.get(x, ()):
                if y not in reach:
                    reach.add(y)
                    stack.append(y)
        graph: dict[int, set] = {}
        for (x, ai), y in d.trans.items():
            if ai in dig and x in live and y in live and x in reach:
                graph.setdefault(x, set()).add(y)
        color: dict[int, int] = {}

        def dfs(u: int) -> bool:
            color[u] = 1
            for v in graph.get(u, ()):
                if color.get(v) == 1:
                    return True
                if color.get(v) is None and dfs(v):
                    return True
            color[u] = 2
            return False

        return any(color.get(u) is None and dfs(u) for u in list(graph))
