"""Value-range facts read off the source, and a small linear-arithmetic feasibility test.

Two things live here, both used by the truth-table comparison of `sa.symflow.Printer`:

* `attr_elem_nonneg(model, attr, i)` -- *every* store to an attribute named `attr` anywhere in the package stores `None` or a
  list / tuple display whose element `i` is syntactically non-negative (a loop index of `enumerate` / `range`, `len(..)`, a
  non-negative constant, sums of those), element `i` is never stored to on its own, the list is never mutated through a method and
  never escapes into a local or an argument.  Then `X.attr[i] >= 0` whenever it can be read.  (Who-may-write rule over the whole
  package; fails closed: anything unrecognised means "no fact".)
* `infeasible(constraints)` -- Fourier-Motzkin elimination over the rationals for systems `sum(c_k * t_k) <= b` with integer
  coefficients.  Rational infeasibility implies integer infeasibility, so "infeasible" is sound; "feasible" may be wrong for
  integers, which only means a combination of atoms is *not* treated as a don't-care (conservative).
"""
from __future__ import annotations

import ast
from fractions import Fraction
from typing import Optional

_MUTATORS = {"append", "insert", "pop", "extend", "remove", "clear", "sort", "reverse", "__setitem__", "__delitem__", "__iadd__"}


def _strip_iter(it: ast.AST) -> ast.AST:
    while isinstance(it, ast.Call) and isinstance(it.func, ast.Name) and it.func.id in ("reversed", "list", "tuple", "sorted") and len(it.args) == 1 \
            and not it.keywords:
        it = it.args[0]
    return it


def _nonneg_const(e: ast.AST) -> bool:
    return isinstance(e, ast.Constant) and isinstance(e.value, int) and not isinstance(e.value, bool) and e.value >= 0


def _index_target(target: ast.AST, it: ast.AST) -> Optional[str]:
    """The name a `for` binds to a non-negative index: `for i, x in enumerate(..)` / `for i in range(..)` (also under reversed/list)."""
    it = _strip_iter(it)
    if isinstance(it, ast.Call) and isinstance(it.func, ast.Name):
        if it.func.id == "enumerate" and isinstance(target, (ast.Tuple, ast.List)) and target.elts and isinstance(target.elts[0], ast.Name):
            start = it.args[1] if len(it.args) > 1 else next((k.value for k in it.keywords if k.arg == "start"), None)
            if start is None or _nonneg_const(start):
                return target.elts[0].id
        if it.func.id == "range" and isinstance(target, ast.Name) and not it.keywords:
            a = it.args
            if len(a) == 1 or (len(a) == 2 and _nonneg_const(a[0])) or (len(a) == 3 and _nonneg_const(a[0]) and _nonneg_const(a[2])):
                return target.id

            def _int(e):
                if isinstance(e, ast.UnaryOp) and isinstance(e.op, ast.USub) and isinstance(e.operand, ast.Constant) and isinstance(e.operand.value, int):
                    return -e.operand.value
                if isinstance(e, ast.Constant) and isinstance(e.value, int) and not isinstance(e.value, bool):
                    return e.value
                return None
            # a count-down that stops before it passes -1: range(X, -1, -1), range(X, 0, -2) .. -- every value is >= 0
            if len(a) == 3 and _int(a[2]) is not None and _int(a[2]) < 0 and _int(a[1]) is not None and _int(a[1]) >= -1:
                return target.id
    return None


def _binds(stmt: ast.AST, name: str) -> bool:
    """Does anything inside `stmt` (re)bind `name` other than as the target of the `for` itself?"""
    for n in ast.walk(stmt):
        if n is stmt:
            continue
        ts: list = []
        if isinstance(n, ast.Assign):
            ts = n.targets
        elif isinstance(n, (ast.AugAssign, ast.AnnAssign, ast.NamedExpr)):
            ts = [n.target]
        elif isinstance(n, (ast.For, ast.comprehension)):
            ts = [n.target]
        elif isinstance(n, (ast.With, ast.AsyncWith)):
            ts = [i.optional_vars for i in n.items if i.optional_vars is not None]
        elif isinstance(n, ast.ExceptHandler) and n.name == name:
            return True
        for t in ts:
            if any(isinstance(x, ast.Name) and x.id == name for x in ast.walk(t)):
                return True
    return False


def _loop_index_names(node: ast.AST, parents: dict) -> set:
    """Names that, at `node`, hold a non-negative loop index: the innermost enclosing `for` that binds the name binds it as the index
    of `enumerate` / `range`, and nothing in that loop's body rebinds it."""
    out: set = set()
    decided: set = set()
    cur = parents.get(id(node))
    while cur is not None:
        if isinstance(cur, ast.For):
            names = {x.id for x in ast.walk(cur.target) if isinstance(x, ast.Name)}
            ix = _index_target(cur.target, cur.iter)
            for nm in names - decided:
                decided.add(nm)
                if nm == ix and not any(_binds(st, nm) for st in cur.body):
                    out.add(nm)
        cur = parents.get(id(cur))
    return out


def expr_nonneg(e: ast.AST, idx_names: set) -> bool:
    if isinstance(e, ast.Constant):
        return isinstance(e.value, int) and not isinstance(e.value, bool) and e.value >= 0
    if isinstance(e, ast.Name):
        return e.id in idx_names
    if isinstance(e, ast.Call) and isinstance(e.func, ast.Name) and e.func.id == "len" and len(e.args) == 1:
        return True
    if isinstance(e, ast.BinOp) and isinstance(e.op, (ast.Add, ast.Mult)):
        return expr_nonneg(e.left, idx_names) and expr_nonneg(e.right, idx_names)
    return False


def attr_elem_nonneg(model, attr: str, i: int) -> bool:
    memo = model.__dict__.setdefault("_ranges_attr_elem", {})
    key = (attr, i)
    if key in memo:
        return memo[key]
    memo[key] = False  # recursion guard / default
    stores = 0
    ok = True
    for f in model.functions.values():
        fnode = f.node
        if not any(isinstance(n, ast.Attribute) and n.attr == attr for n in ast.walk(fnode)):
            continue
        parents: dict = {}
        for p in ast.walk(fnode):
            for ch in ast.iter_child_nodes(p):
                parents[id(ch)] = p

        def is_attr(n: ast.AST) -> bool:
            return isinstance(n, ast.Attribute) and n.attr == attr

        for n in ast.walk(fnode):
            if not is_attr(n):
                continue
            par = parents.get(id(n))
            if isinstance(n.ctx, (ast.Store, ast.Del)):
                # whole-attribute store: find the value
                val = None
                if isinstance(par, ast.Assign) and len(par.targets) == 1 and par.targets[0] is n:
                    val = par.value
                elif isinstance(par, ast.AnnAssign) and par.target is n:
                    val = par.value
                    if val is None:
                        continue
                else:
                    ok = False
                    break
                stores += 1
                if isinstance(val, ast.Constant) and val.value is None:
                    continue
                if isinstance(val, (ast.List, ast.Tuple)) and len(val.elts) > i and not any(isinstance(x, ast.Starred) for x in val.elts[: i + 1]) \
                        and expr_nonneg(val.elts[i], _loop_index_names(par, parents)):
                    continue
                ok = False
                break
            # a load of X.attr: allowed uses
            if isinstance(par, ast.Subscript) and par.value is n:
                if isinstance(par.ctx, ast.Load):
                    gp = parents.get(id(par))
                    # X.attr[..] read -- fine, unless the element (a list?) is mutated: elements are ints, nothing to mutate
                    if isinstance(gp, ast.AugAssign) and gp.target is par:
                        pass
                    continue
                # element store / delete
                sl = par.slice
                if isinstance(par.ctx, ast.Store) and isinstance(sl, ast.Constant) and isinstance(sl.value, int) and sl.value >= 0 and sl.value != i:
                    continue
                ok = False
                break
            if isinstance(par, ast.Compare) and all(isinstance(o, (ast.Is, ast.IsNot)) for o in par.ops):
                continue
            if isinstance(par, (ast.BoolOp, ast.If, ast.While, ast.IfExp, ast.Assert)) and (not isinstance(par, (ast.If, ast.While, ast.IfExp, ast.Assert)) or par.test is n):
                continue
            if isinstance(par, ast.UnaryOp) and isinstance(par.op, ast.Not):
                continue
            if isinstance(par, ast.Call) and isinstance(par.func, ast.Name) and par.func.id in ("len", "bool", "str", "repr", "tuple") and n in par.args:
                continue
            if isinstance(par, ast.Attribute) and par.value is n:
                gp = parents.get(id(par))
                if isinstance(gp, ast.Call) and gp.func is par and par.attr not in _MUTATORS and par.attr in ("copy", "index", "count", "__len__"):
                    continue
            if isinstance(par, ast.FormattedValue):
                continue
            ok = False  # escapes (alias, argument, return, iteration target we do not follow)
            break
        if not ok:
            break
    # setattr(x, "<attr>", ..) anywhere
    if ok:
        for f in model.functions.values():
            for n in ast.walk(f.node):
                if isinstance(n, ast.Call) and isinstance(n.func, ast.Name) and n.func.id == "setattr":
                    if len(n.args) < 2 or not isinstance(n.args[1], ast.Constant) or n.args[1].value == attr:
                        ok = False
    memo[key] = ok and stores > 0
    return memo[key]


# ---------------------------------------------------------------------------------------------------------------------------

def infeasible(cons: list) -> bool:
    """cons: list of (coeffs: dict var -> int, bound: int) meaning sum(coeffs[v] * v) <= bound.  True when the system has no rational
    (hence no integer) solution."""
    sys_ = [({v: Fraction(c) for v, c in co.items() if c != 0}, Fraction(b)) for co, b in cons]
    variables = sorted({v for co, _ in sys_ for v in co})
    for v in variables:
        pos = [(co, b) for co, b in sys_ if co.get(v, 0) > 0]
        neg = [(co, b) for co, b in sys_ if co.get(v, 0) < 0]
        rest = [(co, b) for co, b in sys_ if co.get(v, 0) == 0]
        for cp, bp in pos:
            for cn, bn in neg:
                a, c = cp[v], -cn[v]
                # cp/a : v <= ..., cn/c : -v <= ...   add
                co: dict = {}
                for k, x in cp.items():
                    if k != v:
                        co[k] = co.get(k, 0) + x / a
                for k, x in cn.items():
                    if k != v:
                        co[k] = co.get(k, 0) + x / c
                co = {k: x for k, x in co.items() if x != 0}
                rest.append((co, bp / a + bn / c))
        sys_ = rest
        if len(sys_) > 400:
            return False  # give up: "feasible" is the conservative answer
    return any(b < 0 for co, b in sys_ if not co)


def linear_clashes(atoms: dict, max_atoms: int = 7) -> list:
    """atoms: printed atom -> (terms ((key, coeff), ..), K, kind 'lt' | 'eq', nonneg keys).  `lt`: sum < K, `eq`: sum == K.
    Returns minimal partial valuations [(atom, value), ..] that no integer assignment of the terms satisfies."""
    names = sorted(atoms)
    # connected components by shared terms
    comp: list = []
    for a in names:
        ks = {k for k, _ in atoms[a][0]}
        merged = [c for c in comp if c[1] & ks]
        for c in merged:
            comp.remove(c)
        comp.append(([a] + [x for c in merged for x in c[0]], ks.union(*[c[1] for c in merged]) if merged else ks))
    out: list = []
    for members, ks in comp:
        members = sorted(members)
        nonneg = set()
        for a in members:
            nonneg |= set(atoms[a][3])
        if len(members) > max_atoms or (len(members) < 2 and not nonneg):
            continue
        base = [({k: -1}, 0) for k in sorted(nonneg)]

        def systems(valuation):
            """the disjunction of conjunctive systems a valuation stands for (an `eq` atom that is false splits in two)"""
            alts = [list(base)]
            for a, val in valuation:
                terms, K, kind, _ = atoms[a]
                co = dict(terms)
                neg = {k: -c for k, c in co.items()}
                if kind == "lt":
                    add = [[(co, K - 1)]] if val else [[(neg, -K)]]
                elif val:
                    add = [[(co, K), (neg, -K)]]
                else:
                    add = [[(co, K - 1)], [(neg, -K - 1)]]
                alts = [s + extra for s in alts for extra in add]
            return alts

        found: list = []
        import itertools
        for size in range(1, len(members) + 1):
            for subset in itertools.combinations(members, size):
                for vals in itertools.product((True, False), repeat=size):
                    valuation = list(zip(subset, vals))
                    vs = set(valuation)
                    if any(set(f) <= vs for f in found):
                        continue
                    if all(infeasible(s) for s in systems(valuation)):
                        found.append(valuation)
        out.extend(found)
    return out
