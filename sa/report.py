"""Verdicts, evidence files, known findings, exit codes."""
from __future__ import annotations

import json
import os
import re
import sys
import time
from dataclasses import dataclass, field
from typing import Any, Optional

from .model import AnalysisError, Model

VERIF = os.path.dirname(os.path.dirname(os.path.abspath(__file__)))
EVIDENCE_DIR = os.path.join(VERIF, "evidence")
REPLAY_DIR = os.path.join(VERIF, "replays")
KNOWN_FILE = os.path.join(VERIF, "KNOWN_FINDINGS.txt")

EXIT_OK, EXIT_VIOLATION, EXIT_ERROR = 0, 1, 2


@dataclass
class Finding:
    prop: str
    rule: str
    key: str  # construct key: class.method / table row / path label -- never a line number
    loc: str  # file:line (diagnostic only)
    msg: str
    path: Optional[list[str]] = None  # for path / call-chain rules

    @property
    def fkey(self) -> str:
        return f"{self.rule}|{self.key}"


@dataclass
class RuleStat:
    rid: str
    desc: str
    instances: int = 0
    constructs: set = field(default_factory=set)
    samples: list = field(default_factory=list)
    violations: int = 0
    floor: int = 0


class Rule:
    def __init__(self, ctx: "Ctx", rid: str, desc: str) -> None:
        self.ctx, self.rid = ctx, rid
        self.stat = ctx.rules.setdefault(rid, RuleStat(rid, desc))

    def inst(self, key: str, detail: Any = None, nontrivial: bool = True) -> None:
        """Record that the rule examined (and had something to decide on) ``key``."""
        self.stat.instances += 1
        if nontrivial:
            self.stat.constructs.add(key)
        if detail is not None and len(self.stat.samples) < 6:
            self.stat.samples.append({"instance": key, "detail": detail})
        elif detail is None and len(self.stat.samples) < 3:
            self.stat.samples.append({"instance": key})

    def viol(self, key: str, loc: str, msg: str, path: Optional[list[str]] = None) -> None:
        self.stat.violations += 1
        self.ctx.findings.append(Finding(self.ctx.prop, self.rid, key, loc, msg, path))

    def check(self, cond: bool, key: str, loc: str, msg: str, detail: Any = None,
              path: Optional[list[str]] = None) -> bool:
        self.inst(key, detail)
        if not cond:
            self.viol(key, loc, msg, path)
        return cond

    def floor(self, n: int) -> None:
        """Fail closed when fewer instances matched than were confirmed by hand."""
        self.stat.floor = n
        if self.stat.instances < n:
            # decided at the end of the run: with a violation already reported the missing
            # instance is explained; without one the rule would pass vacuously -> exit 2
            self.ctx.floor_misses.append(
                f"rule {self.rid}: matched {self.stat.instances} instance(s), "
                f"floor confirmed by hand is {n} -- anchors moved or vanished"
            )


class Ctx:
    def __init__(self, prop: str, tier: str, model: Model) -> None:
        self.prop, self.tier, self.model = prop, tier, model
        self.findings: list[Finding] = []
        self.rules: dict[str, RuleStat] = {}
        self.notes: list[str] = []
        self.floor_misses: list[str] = []
        self.extra: dict[str, Any] = {}
        self.t0 = time.time()

    def rule(self, rid: str, desc: str) -> Rule:
        return Rule(self, rid, desc)

    @property
    def thorough(self) -> bool:
        return self.tier == "thorough"


# ------------------------------------------------------------ known findings
def load_known() -> tuple[dict[str, str], list[str]]:
    known: dict[str, str] = {}
    fixed: list[str] = []
    if not os.path.exists(KNOWN_FILE):
        return known, fixed
    with open(KNOWN_FILE, encoding="utf-8") as fh:
        for line in fh:
            line = line.strip()
            if not line or line.startswith("#"):
                continue
            if line.startswith("known:"):
                m = re.match(r"known:\s+property=(\S+)\s+key=(\S+)\s+what=(.*)$", line)
                if m:
                    known[f"{m.group(1)}|{m.group(2)}"] = m.group(3)
            elif line.startswith("fixed:"):
                fixed.append(line)
    return known, fixed


# ------------------------------------------------------------------- output
def finish(ctx: Ctx, explanation: str, assumptions: list[str], trusted: list[str],
           error: Optional[str] = None, quiet: bool = False) -> int:
    known, _fixed = load_known()
    if quiet:
        # in-process self-test run: no output, no evidence, no replay files
        if error:
            return EXIT_ERROR
        unl = [f for f in ctx.findings if f"{f.prop}|{f.fkey}" not in known]
        return EXIT_VIOLATION if unl else EXIT_OK
    unlisted: list[Finding] = []
    listed: list[Finding] = []
    seen_keys: set = set()
    uniq = []
    for f in ctx.findings:
        if f.fkey not in seen_keys:
            seen_keys.add(f.fkey)
            uniq.append(f)
    for f in uniq:
        (listed if f"{f.prop}|{f.fkey}" in known else unlisted).append(f)

    for f in listed:
        print(f"KNOWN-FINDING: property={f.prop} {f.fkey} at {f.loc}: {f.msg}")

    replay_paths = []
    global REPLAY_DIR
    if os.environ.get("SA_NO_EVIDENCE"):
        REPLAY_DIR = os.path.join("/tmp", "sa_replays_scratch")
    if unlisted:
        os.makedirs(REPLAY_DIR, exist_ok=True)
    for i, f in enumerate(unlisted):
        rp = os.path.join(REPLAY_DIR, f"{f.prop}-{i}.json")
        with open(rp, "w", encoding="utf-8") as fh:
            json.dump(
                {
                    "property": f.prop,
                    "rule": f.rule,
                    "key": f.key,
                    "loc": f.loc,
                    "msg": f.msg,
                    "path": f.path,
                    "tier": ctx.tier,
                    "source_digest": ctx.model.digest(),
                },
                fh,
                indent=1,
            )
        replay_paths.append(rp)
        print(f"{f.loc}: [{f.rule}] {f.key} -- {f.msg}")
        if f.path:
            for step in f.path:
                print(f"    {step}")
        print(f"VIOLATION property={f.prop} replay={rp}")

    obligations = sum(r.instances for r in ctx.rules.values())
    distinct = len({(r.rid, c) for r in ctx.rules.values() for c in r.constructs})
    samples: list = []
    for r in ctx.rules.values():
        for s in r.samples[:3]:
            samples.append({"rule": r.rid, **s})
    wall = round(time.time() - ctx.t0, 3)
    ev = {
        "property_id": ctx.prop,
        "tier": ctx.tier,
        "seed": int(os.environ.get("VERIF_SEED", "0") or 0),
        "level": "other",
        "coverage": {
            "explanation": explanation,
            "evaluations": obligations,
            "distinct_nontrivial": distinct,
            "rule": "one evaluation = one rule instance (function, path, call site or table row) "
                    "examined on /repo's current source; distinct_nontrivial counts distinct "
                    "(rule, construct) pairs on which the rule had something to decide",
            "obligations": obligations,
            "discharged": obligations - sum(r.violations for r in ctx.rules.values()),
            "samples": samples or [{"note": "no instance examined"}],
            "rules": [
                {
                    "id": r.rid,
                    "what": r.desc,
                    "instances": r.instances,
                    "distinct_constructs": len(r.constructs),
                    "floor": r.floor,
                    "violations": r.violations,
                }
                for r in ctx.rules.values()
            ],
            "trusted_base": trusted,
            "exhaustive": True,
            "modules_parsed": len(ctx.model.modules),
            "functions_indexed": len(ctx.model.functions),
            "source_digest": ctx.model.digest(),
            "known_findings_matched": [f.fkey for f in listed],
            "notes": ctx.notes,
            **ctx.extra,
        },
        "assumptions": assumptions,
        "wall_s": wall,
        "violations": len(unlisted),
    }
    if error:
        ev["coverage"]["analysis_error"] = error
    if not os.environ.get("SA_NO_EVIDENCE"):
        os.makedirs(EVIDENCE_DIR, exist_ok=True)
        with open(os.path.join(EVIDENCE_DIR, f"{ctx.prop}.json"), "w", encoding="utf-8") as fh:
            json.dump(ev, fh, indent=1, sort_keys=False)
            fh.write("\n")

    if error:
        print(f"ANALYSIS-ERROR property={ctx.prop} {error}")
        return EXIT_ERROR
    if unlisted:
        return EXIT_VIOLATION
    print(
        f"OK property={ctx.prop} tier={ctx.tier} rules={len(ctx.rules)} "
        f"instances={obligations} distinct={distinct} known={len(listed)} wall={wall}s"
    )
    return EXIT_OK
