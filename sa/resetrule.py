"""Reset completeness: ``K.reset`` must restore the tabled fields.

kinds:
  empty        the field is rebound to an empty container literal / ``dict()``
  init         the field is rebound to the same constant its __init__ assigns
  reconstruct  the field is rebound to a constructor call structurally equal to
               the one in __init__ after replacing each ctor parameter ``p`` by
               the attribute ``self.<a>`` that __init__ stores it in
  delegate     ``self.<field>.reset()`` is called
Also: every self attribute that any method other than __init__/reset writes
(directly) must be in the table or in ``exempt`` -- a new mutable field cannot
dodge the rule.
"""
from __future__ import annotations

import ast
from typing import Optional

from .common import store_targets
from .model import AnalysisError, walk_no_nested
from .report import Ctx, Rule


def _self_attr(t: ast.AST, selfname: str) -> Optional[str]:
    while isinstance(t, ast.Subscript):
        t = t.value
    if isinstance(t, ast.Attribute) and isinstance(t.value, ast.Name) and t.value.id == selfname:
        return t.attr
    return None


def _init_assigns(f) -> dict[str, ast.AST]:
    out: dict[str, ast.AST] = {}
    sn = f.params[0]
    for n in walk_no_nested(f.node):
        if isinstance(n, (ast.Assign, ast.AnnAssign)) and getattr(n, "value", None) is not None:
            tg = n.targets if isinstance(n, ast.Assign) else [n.target]
            for t in tg:
                if isinstance(t, ast.Attribute) and isinstance(t.value, ast.Name) and t.value.id == sn:
                    out[t.attr] = n.value
    return out


class _Subst(ast.NodeTransformer):
    def __init__(self, mapping: dict[str, str], selfname: str) -> None:
        self.mapping, self.selfname = mapping, selfname

    def visit_Name(self, n: ast.Name):
        if n.id in self.mapping:
            return ast.Attribute(value=ast.Name(id=self.selfname, ctx=ast.Load()), attr=self.mapping[n.id], ctx=ast.Load())
        return n


def check_reset(ctx: Ctx, r: Rule, clsname: str, fields: dict[str, str], exempt: tuple = ("performance_metrics",)) -> None:
    m = ctx.model
    c = m.cls(clsname)
    reset = c.methods.get("reset")
    if reset is None:
        raise AnalysisError(f"anchor vanished: {clsname}.reset")
    init = m.lookup(c, "__init__")
    sn = reset.params[0]
    # every (non-raising) path through reset() must restore every field: a restoring statement that an
    # early return can skip restores nothing on that path
    from .paths import function_paths
    ra: dict[str, ast.AST] = {}
    delegated: Optional[set] = None
    cleared: Optional[set] = None
    assigned_all: Optional[set] = None
    for p in function_paths(reset.node):
        if p.term == "raise":
            continue
        pa: dict[str, ast.AST] = {}
        pd: set = set()
        pcl: set = set()
        for e in p.events:
            if e.kind != "stmt":
                continue
            n = e.node
            if isinstance(n, (ast.Assign, ast.AnnAssign)) and getattr(n, "value", None) is not None:
                tg = n.targets if isinstance(n, ast.Assign) else [n.target]
                for t in tg:
                    if isinstance(t, ast.Attribute) and isinstance(t.value, ast.Name) and t.value.id == sn:
                        pa[t.attr] = n.value
            for c_ in ast.walk(n):
                if isinstance(c_, ast.Call) and isinstance(c_.func, ast.Attribute) and c_.func.attr in ("reset", "clear"):
                    a = _self_attr(c_.func.value, sn)
                    if a and c_.func.attr == "reset":
                        pd.add(a)
                    elif a:
                        pcl.add(a)
        ra.update(pa)
        assigned_all = set(pa) if assigned_all is None else assigned_all & set(pa)
        delegated = pd if delegated is None else delegated & pd
        cleared = pcl if cleared is None else cleared & pcl
    delegated = delegated or set()
    cleared = cleared or set()
    ra = {k: v for k, v in ra.items() if k in (assigned_all or set())}
    ia = _init_assigns(init) if init is not None else {}
    # dataclass defaults
    if init is None:
        for k in m.mro(c):
            for name, v in k.assigns.items():
                ia.setdefault(name, v)
    # ctor param -> attribute it is stored in
    stored = {}
    if init is not None:
        for a, v in ia.items():
            if isinstance(v, ast.Name) and v.id in init.params:
                stored.setdefault(v.id, a)
    for fld, kind in fields.items():
        key = f"{clsname}.reset|{fld}"
        loc = reset.loc()
        if kind == "delegate":
            r.check(fld in delegated, key, loc, f"{clsname}.reset does not call self.{fld}.reset()")
        elif kind == "empty":
            v = ra.get(fld)
            ok = fld in cleared or v is not None and (
                (isinstance(v, (ast.Dict, ast.List, ast.Set)) and not (getattr(v, "keys", None) or getattr(v, "elts", None)))
                or (isinstance(v, ast.Call) and isinstance(v.func, ast.Name) and v.func.id in ("dict", "list", "set") and not v.args and not v.keywords))
            r.check(ok, key, loc, f"{clsname}.reset does not rebind self.{fld} to an empty container")
        elif kind == "init":
            v, iv = ra.get(fld), ia.get(fld)
            if iv is None:
                raise AnalysisError(f"{clsname}.__init__ no longer initialises {fld}")
            ok = v is not None and ast.dump(v) == ast.dump(iv) and isinstance(iv, ast.Constant)
            r.check(ok, key, loc, f"{clsname}.reset does not restore self.{fld} to its initial value "
                    f"`{ast.unparse(iv)}`")
        elif kind == "reconstruct":
            v, iv = ra.get(fld), ia.get(fld)
            if iv is None:
                raise AnalysisError(f"{clsname}.__init__ no longer initialises {fld}")
            want = _Subst(stored, sn).visit(ast.parse(ast.unparse(iv), mode="eval").body)
            ok = v is not None and _call_equal(v, want)
            r.check(ok, key, loc, f"{clsname}.reset does not rebuild self.{fld} like __init__ does "
                    f"(expected `{ast.unparse(want)}`)")
        else:
            raise AnalysisError(f"unknown reset kind {kind}")
    # no other field is mutated by non-init/non-reset methods
    written: dict[str, str] = {}
    for k in m.subclasses(c):
        for name, f in k.methods.items():
            if name in ("__init__", "reset") or not f.params:
                continue
            for n in walk_no_nested(f.node):
                for t in store_targets(n):
                    a = _self_attr(t, f.params[0])
                    if a:
                        written.setdefault(a, f"{k.name}.{name}")
                if isinstance(n, ast.Call) and isinstance(n.func, ast.Attribute) and n.func.attr in (
                        "append", "extend", "insert", "pop", "remove", "clear", "update", "add", "setdefault"):
                    a = _self_attr(n.func.value, f.params[0])
                    if a:
                        written.setdefault(a, f"{k.name}.{name}")
    for a, who in sorted(written.items()):
        if a in fields or a in exempt:
            continue
        # data-cache counters: tabled observation, see DESIGN section 4 (no property requires it)
        if clsname == "BaseCacheMemorySystem" and a in ("hits", "accesses", "last_was_hit"):
            continue
        r.check(False, f"{clsname}.reset|{a}", reset.loc(),
                f"self.{a} is mutated by {who} but {clsname}.reset does not restore it")


def _call_equal(a: ast.AST, b: ast.AST) -> bool:
    """Structural equality of two constructor calls, keyword order insensitive."""
    if not (isinstance(a, ast.Call) and isinstance(b, ast.Call)):
        return ast.dump(a) == ast.dump(b)
    if ast.dump(a.func) != ast.dump(b.func):
        return False
    if [ast.dump(x) for x in a.args] != [ast.dump(x) for x in b.args]:
        return False
    ka = {k.arg: ast.dump(k.value) for k in a.keywords}
    kb = {k.arg: ast.dump(k.value) for k in b.keywords}
    return ka == kb
