"""C01 -- single-cycle RV32IM semantics (structural clauses).

R01.x0     register storage has one guarded writer: Registers.__setitem__ admits only
           indices 1..31, the register file is built on it, and nothing in the package
           mutates the list any other way than `registers[i] = v`.
R01.wrap   every value stored into a register is UInt32 by construction (quick:
           syntactic classification; thorough: mypy's static type of each RHS).
R01.immw   immediate field widths per format (bit-slice domain): I 12, S 12, B 13,
           U 20, J 21 sign-extended; shamt 5, uimm 5 zero-extended.
R01.map    mnemonic table: key = constructor mnemonic; each class defines behavior().
R01.sem    ISA table: the normal form of behavior() of each of the 46 in-scope classes
           (operator, operand order, signedness, shift-amount mask, zero-divisor result,
           load/store width and extension, pc target with bit 0 cleared, counters)
           equals the row encoded here from the unprivileged specification.
R01.alias  operands are read before the destination is written (rd may alias rs1/rs2;
           JAL/JALR link value is taken from the old pc).
R01.pcadv  SingleStage: exactly one `pc += instruction.length` after behavior() on every
           normal path of in-scope classes; RiscvInstruction.length is 4.
R01.ecall  service codes = the documented table; exit codes are ints, prints are strs;
           unknown code raises; behavior() routes int -> exit_code, str -> output.
R01.done   definition of done (R13.done).
"""
from __future__ import annotations

import ast
import re

from ..bitslice import Evaluator, Form, Inconclusive
from ..common import all_functions, const_int, read_text, seg, short
from ..consteval import Folder, Unknown, fold_in
from ..model import AnalysisError, ClassInfo, walk_no_nested
from ..paths import calls_in, event_exprs, function_paths
from ..report import Ctx
from ..rvnf import Unrecognised, behavior_cases
from .c13 import done_rule

EXPLANATION = (
    "Decides the clauses of the ISA property that are visible in the shape of the code, for all "
    "operands at once: which operator each instruction applies to which operands in which order "
    "and with which signedness / shift mask / zero-divisor result / load-store width and extension "
    "(a normal form extracted from behavior() and compared row by row with an ISA table encoded in "
    "the checker); immediate widths by bit-slice abstract interpretation of the constructors; x0 "
    "by who-may-write plus index-set folding of the single guarded writer; 32-bit wrap by the "
    "static type of every stored value; pc advance and ecall routing by path rules. The numeric "
    "result of the fixedint library's operators on particular values (INT_MIN/-1, shifts by value) "
    "is library semantics and is not re-derived."
)
ASSUMPTIONS = [
    "fixedint Int32/UInt32 arithmetic wraps and compares at 32 bits with the named signedness",
    "int(a / b) on 32-bit operands truncates toward zero (exact in double precision: |a|,|b| < 2^32)",
    "CSR*, FENCE, EBREAK are out of scope (excluded by the property)",
]
TRUSTED = ["CPython ast", "ISA table encoded in sa/rules/c01.py", "sa.rvnf normal forms", "sa.bitslice"]

OUT_OF_SCOPE = {"csrrw", "csrrs", "csrrc", "csrrwi", "csrrsi", "csrrci", "fence", "ebreak"}

BR = "cnt=('branch_count',); pc=('rel', 'sub(IMM,4)', False)"


def _br(cond: str) -> list[str]:
    return [f"[{cond}] {BR}", f"[not({cond})] "]


def _slt(cond: str) -> list[str]:
    return [f"[{cond}] rd=1", f"[not({cond})] rd=0"]


ISA: dict[str, list[str]] = {
    "add": ["[always] rd=add(RS1,RS2)"],
    "sub": ["[always] rd=sub(RS1,RS2)"],
    "sll": ["[always] rd=shl(RS1,mod32(RS2))"],
    "slt": _slt("lt(s:RS1,s:RS2)"),
    "sltu": _slt("lt(u:RS1,u:RS2)"),
    "xor": ["[always] rd=xor(RS1,RS2)"],
    "srl": ["[always] rd=shr(u:RS1,mod32(RS2))"],
    "sra": ["[always] rd=shr(s:RS1,mod32(RS2))"],
    "or": ["[always] rd=or(RS1,RS2)"],
    "and": ["[always] rd=and(RS1,RS2)"],
    "addi": ["[always] rd=add(IMM,RS1)"],
    "slti": _slt("lt(s:RS1,s:IMM)"),
    "sltiu": _slt("lt(u:RS1,u:IMM)"),
    "xori": ["[always] rd=xor(IMM,RS1)"],
    "ori": ["[always] rd=or(IMM,RS1)"],
    "andi": ["[always] rd=and(IMM,RS1)"],
    "slli": ["[always] rd=shl(RS1,IMM)"],
    "srli": ["[always] rd=shr(u:RS1,IMM)"],
    "srai": ["[always] rd=shr(s:RS1,IMM)"],
    "lb": ["[always] rd=sext8(mem1(add(IMM,RS1)))"],
    "lh": ["[always] rd=sext16(mem2(add(IMM,RS1)))"],
    "lw": ["[always] rd=mem4(add(IMM,RS1))"],
    "lbu": ["[always] rd=mem1(add(IMM,RS1))"],
    "lhu": ["[always] rd=mem2(add(IMM,RS1))"],
    "sb": ["[always] mem=(1, 'add(IMM,RS1)', 'trunc8(RS2)')"],
    "sh": ["[always] mem=(2, 'add(IMM,RS1)', 'trunc16(RS2)')"],
    "sw": ["[always] mem=(4, 'add(IMM,RS1)', 'RS2')"],
    "beq": _br("eq(RS1,RS2)"),
    "bne": _br("ne(RS1,RS2)"),
    "blt": _br("lt(s:RS1,s:RS2)"),
    "bge": _br("ge(s:RS1,s:RS2)"),
    "bltu": _br("lt(u:RS1,u:RS2)"),
    "bgeu": _br("ge(u:RS1,u:RS2)"),
    "lui": ["[always] rd=shl(IMM,12)"],
    "auipc": ["[always] rd=add(PC,shl(IMM,12))"],
    "jal": ["[always] cnt=('procedure_count',); pc=('rel', 'sub(IMM,4)', False); rd=add(PC,4)"],
    "jalr": ["[always] pc=('abs', 'sub(and(0xfffffffe,add(IMM,RS1)),4)', True); rd=add(PC,4)"],
    "mul": ["[always] rd=mul(RS1,RS2)"],
    "mulh": ["[always] rd=mulh(s:RS1,s:RS2)"],
    "mulhu": ["[always] rd=mulh(u:RS1,u:RS2)"],
    "mulhsu": ["[always] rd=mulh(s:RS1,u:RS2)"],
    "div": ["[eq(RS2,0)] rd=-1", "[not(eq(RS2,0))] rd=tdiv(s:RS1,s:RS2)"],
    "divu": ["[eq(RS2,0)] rd=-1", "[not(eq(RS2,0))] rd=fdiv(u:RS1,u:RS2)"],
    "rem": ["[eq(RS2,0)] rd=RS1", "[not(eq(RS2,0))] rd=trem(s:RS1,s:RS2)"],
    "remu": ["[eq(RS2,0)] rd=RS1", "[not(eq(RS2,0))] rd=mod(u:RS1,u:RS2)"],
}


def riscv_map(ctx: Ctx) -> dict[str, ClassInfo]:
    m = ctx.model
    mod = m.module("isa.riscv.rv32i_instructions")
    if "instruction_map" not in mod.assigns:
        raise AnalysisError("anchor vanished: RISC-V instruction_map")
    try:
        imap = fold_in(m, mod, mod.assigns["instruction_map"])
    except Unknown as exc:
        raise AnalysisError(f"instruction_map does not fold: {exc}")
    for k, c in imap.items():
        if not isinstance(c, ClassInfo):
            raise AnalysisError(f"instruction_map[{k!r}] is not a class")
    return imap


def ctor_mnemonic(ctx: Ctx, c: ClassInfo):
    init = c.methods.get("__init__")
    if init is None:
        return None
    for call in calls_in(init.node):
        f = call.func
        if isinstance(f, ast.Attribute) and f.attr == "__init__" and isinstance(f.value, ast.Call) \
                and isinstance(f.value.func, ast.Name) and f.value.func.id == "super":
            for k in call.keywords:
                if k.arg == "mnemonic" and isinstance(k.value, ast.Constant):
                    return k.value.value
    return None


def x0_rule(ctx: Ctx) -> None:
    m = ctx.model
    r = ctx.rule("R01.x0", "register storage has one guarded writer")
    regs = m.cls("Registers")
    setitem = m.method(regs, "__setitem__", own=True)
    # (b) the delegating store is dominated by a test admitting only 1..31
    idx = setitem.params[1]
    admitted = None
    n_super = 0
    for p in function_paths(setitem.node):
        sup = [c for e in p.events for x in event_exprs(e) for c in calls_in(x)
               if isinstance(c.func, ast.Attribute) and c.func.attr == "__setitem__"]
        if not sup:
            continue
        n_super += 1
        tests = [(e.node, bool(e.pol)) for e in p.events if e.kind == "test"]
        ok_set = set()
        for i in range(-4, 40):
            good = True
            for t, pol in tests:
                try:
                    v = Folder(m, setitem.module, None, {idx: i}).fold(t)
                except Unknown:
                    raise AnalysisError(f"R01.x0: guard `{ast.unparse(t)}` does not fold")
                if bool(v) != pol:
                    good = False
            if good:
                ok_set.add(i)
        admitted = ok_set if admitted is None else admitted | ok_set
        for c in sup:
            a = [ast.unparse(x) for x in c.args]
            if a[:1] != [idx]:
                r.viol("Registers.__setitem__|index", setitem.loc(c), "the delegated store does not use the checked index")
    if n_super == 0:
        r.viol("Registers.__setitem__|store", setitem.loc(), "Registers.__setitem__ never stores")
        admitted = set()
    r.check(admitted == set(range(1, 32)), "Registers.__setitem__|guard", setitem.loc(),
            f"Registers.__setitem__ admits indices {_rng(admitted)}; x0 must stay zero and only x1..x31 exist "
            "(admitted set must be exactly 1..31 on the probed range -4..39)", {"admitted": _rng(admitted)})
    if "__getitem__" in regs.methods:
        g = regs.methods["__getitem__"]
        rets = [n for n in walk_no_nested(g.node) if isinstance(n, ast.Return)]
        ok = len(rets) == 1 and rets[0].value is not None and ast.unparse(rets[0].value) == f"super().__getitem__({g.params[1]})"
        r.check(ok, "Registers.__getitem__", g.loc(), "Registers.__getitem__ does not simply delegate")
    for nm in ("append", "insert", "extend", "pop", "remove", "clear", "sort", "reverse", "__iadd__", "__imul__", "__delitem__"):
        r.check(nm not in regs.methods or True, f"Registers.{nm}", regs.loc(), "")
    # (a) the register file is built on Registers with 32 zeroed UInt32
    rf = m.cls("RegisterFile")
    fld = rf.assigns.get("registers")
    txt = " ".join(ast.unparse(fld).split()) if fld is not None else ""
    r.check("default_factory=lambda: Registers([fixedint.UInt32(0)] * 32)" in txt, "RegisterFile.registers", rf.loc(),
            f"RegisterFile.registers default is `{txt[:80]}`, not 32 zeroed registers in a Registers list")
    # (c) nothing mutates register storage except scalar subscript stores
    n_sites = 0
    n_ctor = 0
    for f in all_functions(m):
        for n in walk_no_nested(f.node):
            if isinstance(n, (ast.Assign, ast.AugAssign, ast.AnnAssign, ast.Delete)):
                tg = n.targets if isinstance(n, (ast.Assign, ast.Delete)) else [n.target]
                for t in tg:
                    if isinstance(t, ast.Subscript) and isinstance(t.value, ast.Attribute) and t.value.attr == "registers":
                        n_sites += 1
                        ok = not isinstance(t.slice, ast.Slice) and isinstance(n, ast.Assign) and \
                            isinstance(t.value.value, ast.Attribute) and t.value.value.attr == "register_file"
                        r.check(ok, f"{short(f.qname)}|{seg(f, t)}", f.loc(n), f"register storage is mutated by `{seg(f, n)}` "
                                "(only `….register_file.registers[i] = v` goes through the x0 guard)")
                    if isinstance(t, ast.Attribute) and t.attr == "registers":
                        r.check(False, f"{short(f.qname)}|rebind", f.loc(n), f"`{seg(f, n)}` rebinds the register list, bypassing Registers")
            if isinstance(n, ast.Call) and isinstance(n.func, ast.Attribute) and isinstance(n.func.value, ast.Attribute) \
                    and n.func.value.attr == "registers" and n.func.attr in (
                        "append", "insert", "extend", "pop", "remove", "clear", "sort", "reverse", "__setitem__", "__iadd__"):
                r.check(False, f"{short(f.qname)}|{n.func.attr}", f.loc(n), f"`{seg(f, n)}` mutates the register list bypassing the x0 guard")
            if isinstance(n, ast.Call) and ast.unparse(n.func) in ("list.__setitem__", "super(Registers, self).__setitem__"):
                r.check(False, f"{short(f.qname)}|list.__setitem__", f.loc(n), "raw list.__setitem__ bypasses the x0 guard")
            if isinstance(n, ast.Call) and m.resolve_class(f.module, n.func) is rf:
                if any(k.arg == "registers" for k in n.keywords) or n.args:
                    n_ctor += 1
                    r.check(False, f"{short(f.qname)}|RegisterFile(registers=..)", f.loc(n),
                            "a RegisterFile is built on a caller-supplied list: x0 would be writable")
    r.inst("register-store-sites", {"sites": n_sites})
    if n_sites < 40:
        raise AnalysisError(f"R01.x0: only {n_sites} register store sites found (46 confirmed by hand)")


def _rng(s) -> str:
    if not s:
        return "{}"
    s = sorted(s)
    return f"{s[0]}..{s[-1]}" if s == list(range(s[0], s[-1] + 1)) else str(s)


def wrap_rule(ctx: Ctx) -> None:
    m = ctx.model
    r = ctx.rule("R01.wrap", "every value stored into a register is UInt32 by construction")
    deferred = 0
    total = 0
    for f in all_functions(m):
        env = {}
        for n in walk_no_nested(f.node):
            if isinstance(n, ast.Assign) and len(n.targets) == 1 and isinstance(n.targets[0], ast.Name):
                env.setdefault(n.targets[0].id, []).append(n.value)
        for n in walk_no_nested(f.node):
            if isinstance(n, ast.Assign) and any(isinstance(t, ast.Subscript) and isinstance(t.value, ast.Attribute)
                                                 and t.value.attr == "registers" for t in n.targets):
                total += 1
                cls = _u32(n.value, env, 0)
                key = f"{short(f.qname)}|rhs"
                if cls is True:
                    r.inst(key, "UInt32 by construction")
                elif cls is False:
                    r.check(False, key, f.loc(n), f"`{seg(f, n)}` stores a plain Python int into a register: later fixedint "
                            "operations on it do not wrap at 32 bits (and slicing it raises TypeError)")
                else:
                    deferred += 1
                    r.inst(key, "deferred to the thorough tier (mypy type of the RHS)")
    ctx.extra["R01.wrap_deferred"] = deferred
    if total < 40:
        raise AnalysisError(f"R01.wrap: only {total} register stores found")


def _u32(e: ast.AST, env: dict, depth: int):
    """True: UInt32-typed; False: certainly a Python int; None: unknown."""
    if depth > 6:
        return None
    if isinstance(e, ast.Name):
        bs = env.get(e.id)
        if not bs:
            return None
        vals = [_u32(b, env, depth + 1) for b in bs]
        if all(v is True for v in vals):
            return True
        if any(v is False for v in vals):
            return False
        return None
    if isinstance(e, ast.Call):
        fn = ast.unparse(e.func)
        if fn in ("fixedint.UInt32", "UInt32"):
            return True
        if fn.endswith(".read_word"):
            return True
        if fn == "int" or fn in ("len", "abs"):
            return False
        return None
    if isinstance(e, ast.Subscript) and isinstance(e.value, ast.Attribute) and e.value.attr == "registers" \
            and not isinstance(e.slice, ast.Slice):
        return True
    if isinstance(e, ast.Constant) and isinstance(e.value, int):
        return False
    if isinstance(e, ast.Attribute) and isinstance(e.value, ast.Name) and e.value.id == "self":
        return False  # instruction fields (imm, length, register numbers) are Python ints
    if isinstance(e, ast.Attribute) and e.attr == "program_counter":
        return False
    if isinstance(e, ast.IfExp):
        a, b = _u32(e.body, env, depth + 1), _u32(e.orelse, env, depth + 1)
        if a is False or b is False:
            return False
        return True if a and b else None
    if isinstance(e, ast.BinOp):
        l, rr = _u32(e.left, env, depth + 1), _u32(e.right, env, depth + 1)
        if l is True and rr is not False:
            return True
        if l is True and rr is False:
            return True  # fixedint op int -> fixedint
        if l is False and rr is False:
            return False
        if l is False and rr is True:
            return None  # int op UInt32: reflected operator, type depends on the library
        return None
    if isinstance(e, ast.UnaryOp) and isinstance(e.op, ast.Invert):
        return _u32(e.operand, env, depth + 1)
    return None


IMM_FORMATS = {
    # class: (attribute, parameter, width, signed)
    "ITypeInstruction": ("imm", "imm", 12, True),
    "STypeInstruction": ("imm", "imm", 12, True),
    "BTypeInstruction": ("imm", "imm", 13, True),
    "UTypeInstruction": ("imm", "imm", 20, True),
    "JTypeInstruction": ("imm", "imm", 21, True),
    "ShiftITypeInstruction": ("imm", "imm", 5, False),
    "CSRITypeInstruction": ("uimm", "uimm", 5, False),
}


def immw_rule(ctx: Ctx) -> None:
    m = ctx.model
    r = ctx.rule("R01.immw", "immediate field width and extension per format (bit-slice domain)")
    for cn, (attr, param, width, signed) in IMM_FORMATS.items():
        c = m.cls(cn)
        from ..immform import stored_imm
        init, got, val = stored_imm(m, c, attr, param, "R01.immw")
        want = Form.field(param, 0, width, signed=signed)
        r.check(got == want, f"{cn}.{attr}", init.loc(val),
                f"{cn} stores {attr} = {got.describe()}; the format has a {width}-bit "
                f"{'sign' if signed else 'zero'}-extended immediate: {want.describe()}",
                {"width": width, "signed": signed})
    r.floor(7)


def map_rule(ctx: Ctx, rid: str = "R01.map", printed: bool = True) -> dict:
    m = ctx.model
    imap = riscv_map(ctx)
    r = ctx.rule(rid, "instruction_map: key = constructor mnemonic; own behavior()")
    seen = set()
    for k, c in sorted(imap.items()):
        mn = ctor_mnemonic(ctx, c)
        # which class a key denotes is semantics (R01.sem decides the class's behaviour against the key's ISA row);
        # that the class *prints* the key is C14's clause
        ok = (mn == k or not printed) and c not in seen
        seen.add(c)
        r.check(ok, f"instruction_map[{k}]", c.loc(), f"instruction_map['{k}'] is {c.name}, whose constructor says mnemonic={mn!r}")
        if k not in OUT_OF_SCOPE:
            r.check("behavior" in c.methods, f"{c.name}.behavior", c.loc(), f"{c.name} inherits behavior() instead of defining it")
    missing = set(ISA) - set(imap)
    for k in sorted(missing):
        r.check(False, f"instruction_map[{k}]|missing", "architecture_simulator/isa/riscv/rv32i_instructions.py:0",
                f"supported mnemonic '{k}' is no longer in instruction_map")
    r.floor(54)
    return imap


def sem_rule(ctx: Ctx, imap: dict) -> None:
    m = ctx.model
    r = ctx.rule("R01.sem", "normal form of behavior() equals the ISA table row")
    for k in sorted(ISA):
        c = imap.get(k)
        if c is None:
            continue
        beh = m.lookup(c, "behavior")
        key = f"{c.name}.behavior"
        try:
            got = sorted(_no_cnt(x).describe() for x in behavior_cases(m, c))
        except Unrecognised as exc:
            r.check(False, key, beh.loc() if beh else c.loc(),
                    f"{k}: behavior() uses a construct outside the semantic vocabulary ({exc}); its effect cannot be "
                    "matched against the ISA table")
            continue
        want = sorted(_strip_cnt(w) for w in ISA[k])
        r.check(got == want, key, beh.loc() if beh else c.loc(),
                f"{k}: behavior() computes {got}; the ISA prescribes {want}", {"normal_form": got})
    r.floor(45)
    ln = m.cls("RiscvInstruction").assigns.get("length")
    r2 = ctx.rule("R01.len", "RiscvInstruction.length is 4")
    r2.check(ln is not None and const_int(ln) == 4, "RiscvInstruction.length", m.cls("RiscvInstruction").loc(), "instruction length is not 4 bytes")
    for c in m.subclasses(m.cls("RiscvInstruction"), strict=True):
        if "length" in c.assigns:
            r2.check(const_int(c.assigns["length"]) == 4, f"{c.name}.length", c.loc(), f"{c.name} overrides length")


def _no_cnt(case):
    """C01 observes registers, memory, pc, output and exit code -- not the performance counters (C02 does)."""
    from ..rvnf import Case
    return Case(case.conds, {k: v for k, v in case.effects.items() if k != "cnt"})


def _strip_cnt(row: str) -> str:
    import re as _re
    return _re.sub(r"cnt=\([^)]*\)(; )?", "", row)


def alias_rule(ctx: Ctx, imap: dict) -> None:
    m = ctx.model
    r = ctx.rule("R01.alias", "source registers / old pc are read before rd / pc are written")
    for k in sorted(ISA):
        c = imap.get(k)
        if c is None:
            continue
        beh = m.lookup(c, "behavior")
        if beh is None:
            continue
        key = f"{c.name}.behavior"
        bad = None
        for p in function_paths(beh.node):
            rd_written = pc_written = False
            for e in p.events:
                n = e.node
                # reads inside this event (evaluated before the event's own store)
                for x in event_exprs(e):
                    val = n.value if isinstance(n, (ast.Assign, ast.AugAssign)) and e.kind == "stmt" else x
                    for sub in ast.walk(val):
                        if isinstance(sub, ast.Subscript) and isinstance(sub.value, ast.Attribute) and sub.value.attr == "registers" \
                                and ast.unparse(sub.slice) in ("self.rs1", "self.rs2") and rd_written:
                            bad = (sub, f"reads x[{ast.unparse(sub.slice)[5:]}] after x[rd] was written: wrong when rd aliases it")
                        if isinstance(sub, ast.Attribute) and sub.attr == "program_counter" and pc_written and isinstance(sub.ctx, ast.Load) \
                                and not (isinstance(n, ast.AugAssign) and sub is n.target):
                            bad = (sub, "reads the program counter after changing it (link value / relative target from the new pc)")
                if e.kind == "stmt" and isinstance(n, ast.Assign):
                    for t in n.targets:
                        if isinstance(t, ast.Subscript) and ast.unparse(t.slice) == "self.rd":
                            rd_written = True
                        if isinstance(t, ast.Attribute) and t.attr == "program_counter":
                            pc_written = True
                if e.kind == "stmt" and isinstance(n, ast.AugAssign) and isinstance(n.target, ast.Attribute) and n.target.attr == "program_counter":
                    pc_written = True
        r.check(bad is None, key, beh.loc(bad[0]) if bad else beh.loc(), f"{k}: behavior() {bad[1] if bad else ''}")
    r.floor(45)


def pcadv_rule(ctx: Ctx, imap: dict) -> None:
    m = ctx.model
    r = ctx.rule("R01.pcadv", "SingleStage advances pc exactly once, after behavior(), for in-scope classes")
    ss = m.cls("SingleStage")
    f = m.method(ss, "behavior", own=True)
    # classes that skip the visualisation return must be out of scope
    nv = ss.assigns.get("TYPE_NO_VISUALISATION_AVIVABLE")
    names = set()
    if isinstance(nv, ast.Set):
        for e in nv.elts:
            c = m.resolve_class(ss.module, e)
            names.add(c.name.lower() if c else ast.unparse(e))
    in_scope_hit = sorted(n for n in names if n in ISA or n == "ecall")
    r.check(not in_scope_hit, "SingleStage.TYPE_NO_VISUALISATION_AVIVABLE", ss.loc(),
            f"in-scope instruction(s) {in_scope_hit} are treated as not visualisable")
    n = 0
    for p in function_paths(f.node):
        if p.term == "raise":
            continue
        if not any(e.kind == "test" and ast.unparse(e.node) == "state.instruction_at_pc()" and e.pol for e in p.events):
            continue
        # paths that assume the instruction is one of the not-visualisable (out-of-scope, checked above) classes
        skip = False
        for e in p.events:
            if e.kind == "test" and "TYPE_NO_VISUALISATION_AVIVABLE" in ast.unparse(e.node):
                t = e.node
                neg = False
                while isinstance(t, ast.UnaryOp) and isinstance(t.op, ast.Not):
                    t, neg = t.operand, not neg
                if isinstance(t, ast.Compare) and isinstance(t.ops[0], ast.NotIn):
                    neg = not neg
                in_set = (not neg) == bool(e.pol)
                if in_set:
                    skip = True
        if skip:
            continue
        n += 1
        beh_i = [i for i, e in enumerate(p.events) if e.kind == "stmt" and any(
            isinstance(c.func, ast.Attribute) and c.func.attr == "behavior" for c in calls_in(e.node))]
        adv = [i for i, e in enumerate(p.events) if e.kind == "stmt" and isinstance(e.node, ast.AugAssign)
               and isinstance(e.node.op, ast.Add) and ast.unparse(e.node.target) == "state.program_counter"]
        ok = len(beh_i) == 1 and len(adv) == 1 and adv[0] > beh_i[0]
        if ok:
            from ..pathsym import sym_events
            v = ast.unparse(sym_events(p, keep={"result_pr"})[adv[0]].node.value)
            ok = v in ("result_pr.instruction.length", "result_pr.instruction_length", "state.instruction_memory.read_instruction(state.program_counter).length")
        other = [e for e in p.events if e.kind == "stmt" and isinstance(e.node, ast.Assign)
                 and any(ast.unparse(t) == "state.program_counter" for t in e.node.targets)]
        ok = ok and not other
        if not ok:
            r.viol("SingleStage.behavior|advance", f.loc(), "a normal path through SingleStage.behavior does not run behavior() once and "
                   "then advance pc once by the instruction length", p.labels()[-12:])
            break
    r.inst("SingleStage.behavior", {"paths_with_instruction": n})
    if n == 0:
        raise AnalysisError("R01.pcadv: no executing path found in SingleStage.behavior")


def ecall_rule(ctx: Ctx) -> None:
    m = ctx.model
    r = ctx.rule("R01.ecall", "service table, result kinds, routing")
    html = read_text(ctx, "webgui/src/components/riscv/RiscvHelp.vue")
    i = html.find('id="riscv-help-ecalls"')
    if i < 0:
        raise AnalysisError("anchor vanished: ECALL table in RiscvHelp.vue")
    tbl = html[i:]
    j = tbl.find("</table>")
    tbl = tbl[:j]
    rows = re.findall(r"<tr>\s*<td>\s*(\d+)\s*</td>", tbl)
    doc = {int(x) for x in rows}
    if len(doc) < 5:
        raise AnalysisError("ECALL help table not recognised")
    ec = m.cls("ECALL")
    f = m.method(ec, "process_ecall", own=True)
    from ..paths import function_paths
    from ..pathsym import sym_events
    A7 = "int(architectural_state.register_file.registers[17])"
    A0 = "int(architectural_state.register_file.registers[10])"

    def code_test(e: ast.AST):
        """(subject text, {codes}) for `S == K`, `K == S`, `S in (K, ..)` and disjunctions of those over one subject."""
        if isinstance(e, ast.BoolOp) and isinstance(e.op, ast.Or):
            parts = [code_test(v) for v in e.values]
            if all(x is not None for x in parts) and len({x[0] for x in parts}) == 1:
                return parts[0][0], set().union(*[x[1] for x in parts])
            return None
        if isinstance(e, ast.Compare) and len(e.ops) == 1:
            a, b = e.left, e.comparators[0]
            if isinstance(e.ops[0], ast.Eq):
                for x, y in ((a, b), (b, a)):
                    k = const_int(y)
                    if k is not None and const_int(x) is None:
                        return ast.unparse(x).replace(" ", ""), {k}
            if isinstance(e.ops[0], ast.In) and isinstance(b, (ast.Tuple, ast.List, ast.Set)) and all(const_int(x) is not None for x in b.elts):
                return ast.unparse(a).replace(" ", ""), {const_int(x) for x in b.elts}
        return None

    arms: dict = {}  # code -> [(terminator, substituted value, raw value, node)]
    default: list = []
    subjects: set = set()
    n_paths = 0
    all_paths = [(p, sym_events(p)) for p in function_paths(f.node)]
    # the dispatch subject: the expression compared with the most distinct constants (a loop test `byte == 0` is not the dispatch)
    seen_consts: dict = {}
    for p, evs in all_paths:
        for se in evs:
            ct = code_test(se.node) if se.event.kind == "test" else None
            if ct is not None:
                seen_consts.setdefault(ct[0], set()).update(ct[1])
    main = max(seen_consts, key=lambda k: len(seen_consts[k])) if seen_consts else None
    for p, evs in all_paths:
        n_paths += 1
        pos = None
        for se in evs:
            if se.event.kind != "test":
                continue
            ct = code_test(se.node)
            if ct is None or ct[0] != main:
                continue
            subjects.add(ct[0])
            if se.event.pol:
                pos = set(ct[1]) if pos is None else pos & ct[1]
        last = evs[-1] if evs else None
        val = sub = None
        if p.term == "return" and last is not None and isinstance(last.node, ast.Return):
            sub, val = last.node.value, getattr(p.term_node, "value", None)
        ent = (p.term, sub, val, p.term_node)
        if pos is None:
            default.append(ent)
        else:
            for k in pos:
                arms.setdefault(k, []).append(ent)
    if not arms:
        raise AnalysisError("anchor vanished: no service-code dispatch found in ECALL.process_ecall")
    r.check(subjects == {A7.replace(" ", "")}, "process_ecall|a7", f.loc(),
            f"service code is read from `{sorted(subjects)}`, documented: register a7 (x17)")
    r.check(set(arms) == doc, "process_ecall|codes", f.loc(),
            f"implemented service codes {sorted(arms)} != documented table {sorted(doc)}")
    r.check(bool(default) and all(t == "raise" for t, *_ in default), "process_ecall|default", f.loc(), "an unknown service code does not raise")
    exits = {10, 93}
    for k, ents in sorted(arms.items()):
        kinds = set()
        for t, sub, val, node in ents:
            if t != "return":
                kinds.add(t)
                continue
            kd = _kind(sub, f)
            if kd == "unknown":
                kd = _kind(val, f)
            kinds.add(kd)
        want = "int" if k in exits else "str"
        r.check(kinds == {want}, f"process_ecall|code {k}", f.loc(ents[0][3]) if ents[0][3] is not None else f.loc(),
                f"ecall {k} returns {sorted(kinds)}; {'exit codes must be ints' if want == 'int' else 'printing services must return text'}")
    for k in exits & set(arms):
        want = "0" if k == 10 else A0
        got = sorted({ast.unparse(sub).replace(" ", "") if sub is not None else t for t, sub, val, node in arms[k]})
        r.check(got == [want.replace(" ", "")], f"process_ecall|exit {k}", f.loc(arms[k][0][3]) if arms[k][0][3] is not None else f.loc(),
                f"ecall {k} must exit with status `{'0' if k == 10 else 'a0 (x10)'}`; found {got}")
    r.inst("ECALL.process_ecall", {"paths": n_paths, "codes": sorted(arms)})
    # routing in behavior(): int -> exit_code, str -> appended to output
    beh = m.method(ec, "behavior", own=True)
    from ..parsershape import normal_flow
    fl = normal_flow(m, beh)
    R = "P0.process_ecall(architectural_state=P1)"
    stores = {(fl.canon(e.expr), fl.canon_cond(e.cond)) for e in fl.effects if e.kind == "store"}
    want_stores = {(f"P1.exit_code := {R}", f"isinstance({R}, int)"), (f"P1.output := Add({R}, P1.output)", f"isinstance({R}, str)")}
    r.check(stores == want_stores, "ECALL.behavior|routing", beh.loc(), "ECALL.behavior does not route int -> exit_code and str -> output: "
            + "; ".join(f"`{a}` when `{b}`" for a, b in sorted(stores ^ want_stores))[:300])
    raw = next((n for n in ast.walk(beh.__dict__.get("raw_node", beh.node)) if isinstance(n, (ast.AugAssign, ast.Assign))
                and "output" in ast.unparse(n.targets[0] if isinstance(n, ast.Assign) else n.target)), None)
    if raw is not None and isinstance(raw, ast.Assign):
        v = raw.value
        ok = isinstance(v, ast.BinOp) and isinstance(v.op, ast.Add) and ast.unparse(v.left).endswith(".output")
        r.check(ok, "ECALL.behavior|append", beh.loc(raw), f"printed text must be appended to the output: `{ast.unparse(raw)}`")
    r.floor(12)


def _kind(e, f) -> str:
    if e is None:
        return "none"
    if isinstance(e, ast.Constant):
        return type(e.value).__name__
    if isinstance(e, ast.Name):
        if e.id == "arg":
            return "int"
        # local accumulators
        for n in walk_no_nested(f.node):
            if isinstance(n, ast.Assign) and isinstance(n.targets[0], ast.Name) and n.targets[0].id == e.id:
                return _kind(n.value, f)
    if isinstance(e, ast.Call):
        fn = ast.unparse(e.func)
        if fn in ("str", "chr", "bin", "hex", "repr") or fn.endswith(".format") or fn.endswith(".join"):
            return "str"
        if fn in ("int", "len", "ord"):
            return "int"
    if isinstance(e, ast.BinOp) and isinstance(e.op, ast.Add):
        a, b = _kind(e.left, f), _kind(e.right, f)
        if "str" in (a, b):
            return "str"
        return a
    if isinstance(e, ast.JoinedStr):
        return "str"
    return "unknown"


def run(ctx: Ctx) -> None:
    x0_rule(ctx)
    wrap_rule(ctx)
    immw_rule(ctx)
    imap = map_rule(ctx, printed=False)
    sem_rule(ctx, imap)
    alias_rule(ctx, imap)
    pcadv_rule(ctx, imap)
    ecall_rule(ctx)
    done_rule(ctx, "R01.done")
    # loads and stores end in the flat byte memory: wrap-around, range check and little-endian (de)composition (C18's rules)
    from .c18 import le_rule, range_rule
    range_rule(ctx, "R01.mem")
    le_rule(ctx, "R01.le")
    # every load / store width goes through the one (de)composition: no remembered words beside the cell store (C18's accessor table)
    from .c18 import acc_rule
    acc_rule(ctx, "R01.acc")
    # execution ends exactly when the simulation is done: step() / run() consult is_done() itself, nothing remembered (C13's rules)
    from .c13 import run_rule
    run_rule(ctx, "R01.run", classes=("RiscvSimulation",))
    # a load (and the string read of ecall 4) returns what the latest store left, also under a data cache: the cached reads return the
    # lane of the block the lookup delivered for this access, counted or not (C03's read-source rule)
    from .c03 import source_rule
    source_rule(ctx, "R01.src")
