"""C02 -- five-stage pipeline == single-cycle (structural clauses).

R02.sib     per instruction class, the composition access_register_file -> alu_compute ->
            memory_access -> write_back under the class's control signals and the stage
            muxes has the same normal form as behavior() (operator, operand order,
            signedness, widths, pc target incl. 32-bit wrap, counters): 45 rows.
R02.mux     the stage logic that composition assumes (EX input muxes, pc+imm adder, MEM
            redirect conditions, WB source mux, counters in MEM, ID/IF plumbing).
R02.split   interlock interface: a class that writes rd reports it via get_write_register;
            every register behavior() reads is among the read addresses reported by
            access_register_file; control-signal table agrees with the class's role.
R02.chain / R02.order / R02.depth / R02.src / R02.stallpair / R02.drain / R02.resolve
            structural constants of the pipeline.
R02.conf    stage effect confinement (effect summaries): IF writes pc (+icache), ID writes
            nothing, EX writes output only (+ uncounted physical cache state through the
            ECALL string read), MEM writes data memory and the branch/call counters, WB
            writes registers, exit_code, instruction_count.
R02.cnt     instruction_count: once per fetched instruction (single) / per non-empty WB.
R02.fault   faults are wrapped with the failing instruction's address (R15.rt).
"""
from __future__ import annotations

import ast

from ..common import effects, seg, short
from ..model import AnalysisError, walk_no_nested
from ..paths import calls_in, function_paths
from ..pipelinerules import (chain_rule, depth_rule, drain_rule, fault_rule, flushres_rule, order_rule, src_rule,
                             stallpair_rule)
from ..report import Ctx
from ..stagespec import datapath_rule
from ..rvnf import ARF_ATOMS, Extractor, Unrecognised, _single_return, behavior_cases, behavior_net, control_signals, pipeline_cases
from .c01 import ISA, OUT_OF_SCOPE, riscv_map

EXPLANATION = (
    "Decides sibling agreement between the two implementations of each instruction without running "
    "either: the single-cycle behavior() and the five-stage split (register access, ALU, memory "
    "access, write-back, composed through the class's control signals and the stage multiplexers, "
    "which are themselves checked) are reduced to the same normal form over symbolic operands and "
    "must coincide for each of the 45 in-scope classes, including the 32-bit normalisation of pc "
    "targets; plus the interlock interface per class, the structural constants of the pipeline "
    "(stage chain, write-before-read order, interlock depth, flush/stall pairing, ecall drain "
    "window) and effect confinement of each stage from interprocedural write summaries (a flushed "
    "instruction has only been through IF/ID/EX, which write no architectural state except the "
    "drained ecall). Equality of final states and retire order of whole programs under every "
    "stall/flush schedule is dynamic and not decided."
)
ASSUMPTIONS = [
    "fixedint semantics; casts erased in normal forms except signedness/width/pc-wrap (see sa/rvnf.py)",
    "CSR*, FENCE, EBREAK out of scope",
]
TRUSTED = ["CPython ast", "sa.rvnf", "sa.effects", "sa.paths", "sa.consteval"]

LOADS = {"lb", "lh", "lw", "lbu", "lhu"}
STORES = {"sb", "sh", "sw"}


def sib_rule(ctx: Ctx, imap: dict) -> None:
    m = ctx.model
    r = ctx.rule("R02.sib", "pipeline composition and behavior() have the same normal form")
    for k in sorted(ISA):
        c = imap.get(k)
        if c is None:
            continue
        key = f"{c.name}|behavior-vs-split"
        loc = c.loc()
        try:
            b = sorted(behavior_net(x).describe() for x in behavior_cases(m, c))
        except Unrecognised as exc:
            r.check(False, key, loc, f"{k}: behavior() outside the semantic vocabulary ({exc})")
            continue
        try:
            p = sorted(x.describe() for x in pipeline_cases(m, c))
        except Unrecognised as exc:
            r.check(False, key, loc, f"{k}: pipeline split outside the semantic vocabulary ({exc})")
            continue
        if b != p:
            # name the offending method where we can
            where = m.lookup(c, "alu_compute")
            loc = where.loc() if where is not None and where.cls is c else loc
        r.check(b == p, key, loc, f"{k}: single-cycle computes {b} but the five-stage split computes {p}",
                {"normal_form": b})
    r.floor(45)


def split_rule(ctx: Ctx, imap: dict, rid: str = "R02.split", interlock_only: bool = False) -> None:
    m = ctx.model
    r = ctx.rule(rid, "interlock interface and control-signal table per class")
    for k in sorted(ISA):
        c = imap.get(k)
        if c is None:
            continue
        beh = m.lookup(c, "behavior")
        arf = m.lookup(c, "access_register_file")
        gwr = m.lookup(c, "get_write_register")
        if None in (beh, arf, gwr):
            raise AnalysisError(f"{c.name}: interface incomplete")
        txt = ast.unparse(beh.node)
        reads = {x for x in ("rs1", "rs2") if f"registers[self.{x}]" in txt}
        writes_rd = any(isinstance(n, ast.Assign) and any("registers[self.rd]" in ast.unparse(t) for t in n.targets)
                        for n in walk_no_nested(beh.node))
        try:
            tup = _single_return(arf)
            ex = Extractor(m, arf, ARF_ATOMS)
            addrs = {ex.ev(x).t[1] for x in tup.elts[:2] if ex.ev(x).t[0] == "a"} if isinstance(tup, ast.Tuple) else set()
            # data slot i must carry the register named by address slot i
            if isinstance(tup, ast.Tuple) and len(tup.elts) == 5:
                for i in (0, 1):
                    a = ex.ev(tup.elts[i]).t
                    d = ast.unparse(tup.elts[i + 2])
                    if a[0] == "a":
                        r.check(f"registers[self.{a[1]}]" in d, f"{c.name}|read-data-{i + 1}", arf.loc(),
                                f"{k}: read address {i + 1} is {a[1]} but read data {i + 1} is `{d}`")
            ctrl = control_signals(m, c)
        except Unrecognised as exc:
            r.check(False, f"{c.name}|interface", arf.loc(), f"{k}: {exc}")
            continue
        r.check(reads <= addrs, f"{c.name}|read-addresses", arf.loc(),
                f"{k}: behavior() reads {sorted(reads)} but access_register_file reports {sorted(addrs)} to the "
                "interlock: a RAW hazard on the missing source goes undetected")
        wr = ast.unparse(_single_return(gwr))
        r.check((wr == "self.rd") == writes_rd, f"{c.name}|write-register", gwr.loc(),
                f"{k}: behavior() {'writes' if writes_rd else 'does not write'} rd but get_write_register returns `{wr}`: "
                "the interlock does not see this instruction as a producer" if writes_rd else
                f"{k}: get_write_register returns `{wr}` although the instruction writes no register")
        if interlock_only:
            continue
        want = {
            "mem_read": k in LOADS, "mem_write": k in STORES, "branch": k in ("beq", "bne", "blt", "bge", "bltu", "bgeu"),
            "jump": k == "jal", "alu_to_pc": k == "jalr", "reg_write": writes_rd,
        }
        got = {s: bool(ctrl[s]) for s in want}
        r.check(got == want, f"{c.name}|control-signals", m.lookup(c, "control_unit_signals").loc(),
                f"{k}: control signals {got} disagree with the instruction's role {want}")
        if writes_rd:
            r.check(ctrl["wb_src"] in (0, 1, 2, 3), f"{c.name}|wb_src", m.lookup(c, "control_unit_signals").loc(),
                    f"{k}: writes rd but wb_src is {ctrl['wb_src']!r}")
    r.floor(80 if interlock_only else 150)


def mux_rule(ctx: Ctx) -> None:
    m = ctx.model
    datapath_rule(ctx, "R02.mux")
    r = ctx.rule("R02.mux", "stage datapath")
    # every write_back that stores wraps to 32 bit
    n = 0
    for c in m.subclasses(m.cls("RiscvInstruction")):
        f = c.methods.get("write_back")
        if f is None:
            continue
        for s in walk_no_nested(f.node):
            if isinstance(s, ast.Assign) and "registers[" in ast.unparse(s.targets[0]):
                n += 1
                ok = ast.unparse(s.targets[0]).endswith("registers[write_register]") and \
                    " ".join(ast.unparse(s.value).split()) in ("fixedint.UInt32(register_write_data)", "UInt32(register_write_data)")
                r.check(ok, f"{c.name}.write_back", f.loc(s), f"{c.name}.write_back does not store UInt32(register_write_data) into "
                        "registers[write_register]")
    if n < 4:
        raise AnalysisError(f"R02.mux: only {n} storing write_back definitions found (4 confirmed by hand)")
    r.floor(64)


def conf_rule(ctx: Ctx) -> None:
    m = ctx.model
    eff = effects(ctx)
    r = ctx.rule("R02.conf", "stage effect confinement")
    STAT = {"hits", "accesses", "last_was_hit"}

    def allowed(stage: str, path: tuple) -> bool:
        if not path:
            return False
        head = path[0]
        if stage == "InstructionFetchStage":
            return head == "program_counter" or head == "instruction_memory" or path[:2] == ("performance_metrics", "cycles")
        if stage == "InstructionDecodeStage":
            return False
        if stage == "ExecuteStage":
            if head == "output":
                return True
            # ECALL's string read: cache state (its accounting is C09's business, not an observable of C02)
            return head == "memory" or path[:2] == ("performance_metrics", "cycles")
        if stage == "MemoryAccessStage":
            return head == "memory" or path[:2] in (("performance_metrics", "branch_count"), ("performance_metrics", "procedure_count"),
                                                     ("performance_metrics", "cycles"))
        if stage == "RegisterWritebackStage":
            return path[:2] == ("register_file", "registers") or head == "exit_code" or path[:2] == ("performance_metrics", "instruction_count")
        return False

    for sn in ("InstructionFetchStage", "InstructionDecodeStage", "ExecuteStage", "MemoryAccessStage", "RegisterWritebackStage"):
        f = m.method(sn, "behavior", own=True)
        s = eff.solved(f)
        if s.unresolved:
            (o, t), ch = sorted(s.unresolved.items())[0]
            raise AnalysisError(f"R02.conf {sn}: unresolved call `{t}` at {o}")
        clo = eff.closure(f)
        r.inst(sn, {"closure_functions": len(clo), "writes": len(s.writes)})
        if sn != "InstructionDecodeStage" and not s.writes:
            raise AnalysisError(f"R02.conf: no write found for {sn} -- effect analysis lost the stage")
        for w in sorted(s.writes.values(), key=lambda w: (w.where, w.text)):
            ok = w.root == "state" and allowed(sn, w.path)
            if sn == "ExecuteStage" and ok and w.path[0] == "memory":
                # must come through the ECALL block
                ok = any("ECALL.process_ecall" in h for h in w.chain)
            if not ok:
                r.viol(f"{sn}|{short(w.where)}:{w.text}", w.origin,
                       f"{sn}.behavior can write {w.describe()} -- outside what this stage may change "
                       "(a flushed younger instruction would leave an architectural trace)", list(w.chain))
        # the EX stage must not count statistics through the string read
    r.floor(5)


def cnt_rule(ctx: Ctx) -> None:
    m = ctx.model
    r = ctx.rule("R02.cnt", "instruction_count: once per fetched instruction / per non-empty write-back")
    wb = m.method("RegisterWritebackStage", "behavior", own=True)
    n_ok = 0
    for p in function_paths(wb.node):
        incs = [e for e in p.events if e.kind == "stmt" and isinstance(e.node, ast.AugAssign) and ast.unparse(e.node.target).endswith("instruction_count")]
        nonempty = any(e.kind == "test" and "EmptyInstruction" in ast.unparse(e.node) and
                       ((ast.unparse(e.node).startswith("not ") and e.pol) or (not ast.unparse(e.node).startswith("not ") and not e.pol))
                       for e in p.events)
        is_mem = any(e.kind == "test" and "MemoryAccessPipelineRegister" in ast.unparse(e.node) and not e.pol for e in p.events)
        if not is_mem:
            if incs:
                r.viol("WB|counts-bubble", wb.loc(incs[0].node), "WB counts an instruction although its input is not a MEM latch")
            continue
        n_ok += 1
        if (len(incs) == 1) != nonempty:
            r.viol("WB|instruction_count", wb.loc(), f"WB increments instruction_count {len(incs)} time(s) on a path where the "
                   f"instruction is {'non-empty' if nonempty else 'a bubble'}", p.labels()[:8])
            break
    r.inst("RegisterWritebackStage.behavior", {"paths": n_ok})
    ss = m.method("SingleStage", "behavior", own=True)
    for p in function_paths(ss.node):
        incs = [e for e in p.events if e.kind == "stmt" and isinstance(e.node, ast.AugAssign) and ast.unparse(e.node.target).endswith("instruction_count")]
        has = any(e.kind == "test" and ast.unparse(e.node) == "state.instruction_at_pc()" and e.pol for e in p.events)
        if (len(incs) == 1) != has:
            r.viol("SingleStage|instruction_count", ss.loc(), f"SingleStage increments instruction_count {len(incs)} time(s) on a path "
                   f"{'with' if has else 'without'} an instruction at pc", p.labels()[:8])
            break
    r.inst("SingleStage.behavior", None)
    r.floor(2)


def run(ctx: Ctx) -> None:
    imap = riscv_map(ctx)
    sib_rule(ctx, imap)
    mux_rule(ctx)
    split_rule(ctx, imap)
    chain_rule(ctx, "R02.chain")
    order_rule(ctx, "R02.order")
    depth_rule(ctx, "R02.depth")
    src_rule(ctx, "R02.src")
    stallpair_rule(ctx, "R02.stallpair")
    drain_rule(ctx, "R02.drain")
    flushres_rule(ctx, "R02.resolve")
    conf_rule(ctx)
    cnt_rule(ctx)
    fault_rule(ctx, "R02.fault")
    from ..pipelinespec import step_rule
    step_rule(ctx, "R02.step")
