"""C02 -- five-stage pipeline == single-cycle (structural clauses).

R02.sib     per instruction class, the composition access_register_file -> alu_compute ->
            memory_access -> write_back under the class's control signals and the stage
            muxes has the same normal form as behavior() (operator, operand order,
            signedness, widths, pc target incl. 32-bit wrap, counters): 45 rows.
R02.mux     the stage logic that composition assumes (EX input muxes, pc+imm adder, MEM
            redirect conditions, WB source mux, counters in MEM, ID/IF plumbing).
R02.split   interlock interface: a class that writes rd reports it via get_write_register;
            every register behavior() reads is among the read addresses reported by
            access_register_file; control-signal table agrees with the class's role.
R02.chain / R02.order / R02.depth / R02.src / R02.stallpair / R02.drain / R02.resolve
            structural constants of the pipeline.
R02.conf    stage effect confinement (effect summaries): IF writes pc (+icache), ID writes
            nothing, EX writes output only (+ uncounted physical cache state through the
            ECALL string read), MEM writes data memory and the branch/call counters, WB
            writes registers, exit_code, instruction_count.
R02.cnt     instruction_count: once per fetched instruction (single) / per non-empty WB.
R02.fault   faults are wrapped with the failing instruction's address (R15.rt).
"""
from __future__ import annotations

import ast

from ..common import effects, seg, short
from ..model import AnalysisError, walk_no_nested
from ..paths import calls_in, function_paths
from ..pipelinerules import (chain_rule, depth_rule, drain_rule, fault_rule, flushres_rule, order_rule, src_rule,
                             stallpair_rule)
from ..report import Ctx
from ..rvnf import ARF_ATOMS, Extractor, Unrecognised, _single_return, behavior_cases, behavior_net, control_signals, pipeline_cases
from .c01 import ISA, OUT_OF_SCOPE, riscv_map

EXPLANATION = (
    "Decides sibling agreement between the two implementations of each instruction without running "
    "either: the single-cycle behavior() and the five-stage split (register access, ALU, memory "
    "access, write-back, composed through the class's control signals and the stage multiplexers, "
    "which are themselves checked) are reduced to the same normal form over symbolic operands and "
    "must coincide for each of the 45 in-scope classes, including the 32-bit normalisation of pc "
    "targets; plus the interlock interface per class, the structural constants of the pipeline "
    "(stage chain, write-before-read order, interlock depth, flush/stall pairing, ecall drain "
    "window) and effect confinement of each stage from interprocedural write summaries (a flushed "
    "instruction has only been through IF/ID/EX, which write no architectural state except the "
    "drained ecall). Equality of final states and retire order of whole programs under every "
    "stall/flush schedule is dynamic and not decided."
)
ASSUMPTIONS = [
    "fixedint semantics; casts erased in normal forms except signedness/width/pc-wrap (see sa/rvnf.py)",
    "CSR*, FENCE, EBREAK out of scope",
]
TRUSTED = ["CPython ast", "sa.rvnf", "sa.effects", "sa.paths", "sa.consteval"]

LOADS = {"lb", "lh", "lw", "lbu", "lhu"}
STORES = {"sb", "sh", "sw"}


def sib_rule(ctx: Ctx, imap: dict) -> None:
    m = ctx.model
    r = ctx.rule("R02.sib", "pipeline composition and behavior() have the same normal form")
    for k in sorted(ISA):
        c = imap.get(k)
        if c is None:
            continue
        key = f"{c.name}|behavior-vs-split"
        loc = c.loc()
        try:
            b = sorted(behavior_net(x).describe() for x in behavior_cases(m, c))
        except Unrecognised as exc:
            r.check(False, key, loc, f"{k}: behavior() outside the semantic vocabulary ({exc})")
            continue
        try:
            p = sorted(x.describe() for x in pipeline_cases(m, c))
        except Unrecognised as exc:
            r.check(False, key, loc, f"{k}: pipeline split outside the semantic vocabulary ({exc})")
            continue
        if b != p:
            # name the offending method where we can
            where = m.lookup(c, "alu_compute")
            loc = where.loc() if where is not None and where.cls is c else loc
        r.check(b == p, key, loc, f"{k}: single-cycle computes {b} but the five-stage split computes {p}",
                {"normal_form": b})
    r.floor(45)


def split_rule(ctx: Ctx, imap: dict, rid: str = "R02.split", interlock_only: bool = False) -> None:
    m = ctx.model
    r = ctx.rule(rid, "interlock interface and control-signal table per class")
    for k in sorted(ISA):
        c = imap.get(k)
        if c is None:
            continue
        beh = m.lookup(c, "behavior")
        arf = m.lookup(c, "access_register_file")
        gwr = m.lookup(c, "get_write_register")
        if None in (beh, arf, gwr):
            raise AnalysisError(f"{c.name}: interface incomplete")
        txt = ast.unparse(beh.node)
        reads = {x for x in ("rs1", "rs2") if f"registers[self.{x}]" in txt}
        writes_rd = any(isinstance(n, ast.Assign) and any("registers[self.rd]" in ast.unparse(t) for t in n.targets)
                        for n in walk_no_nested(beh.node))
        try:
            tup = _single_return(arf)
            ex = Extractor(m, arf, ARF_ATOMS)
            addrs = {ex.ev(x).t[1] for x in tup.elts[:2] if ex.ev(x).t[0] == "a"} if isinstance(tup, ast.Tuple) else set()
            # data slot i must carry the register named by address slot i
            if isinstance(tup, ast.Tuple) and len(tup.elts) == 5:
                for i in (0, 1):
                    a = ex.ev(tup.elts[i]).t
                    d = ast.unparse(tup.elts[i + 2])
                    if a[0] == "a":
                        r.check(f"registers[self.{a[1]}]" in d, f"{c.name}|read-data-{i + 1}", arf.loc(),
                                f"{k}: read address {i + 1} is {a[1]} but read data {i + 1} is `{d}`")
            ctrl = control_signals(m, c)
        except Unrecognised as exc:
            r.check(False, f"{c.name}|interface", arf.loc(), f"{k}: {exc}")
            continue
        r.check(reads <= addrs, f"{c.name}|read-addresses", arf.loc(),
                f"{k}: behavior() reads {sorted(reads)} but access_register_file reports {sorted(addrs)} to the "
                "interlock: a RAW hazard on the missing source goes undetected")
        wr = ast.unparse(_single_return(gwr))
        r.check((wr == "self.rd") == writes_rd, f"{c.name}|write-register", gwr.loc(),
                f"{k}: behavior() {'writes' if writes_rd else 'does not write'} rd but get_write_register returns `{wr}`: "
                "the interlock does not see this instruction as a producer" if writes_rd else
                f"{k}: get_write_register returns `{wr}` although the instruction writes no register")
        if interlock_only:
            continue
        want = {
            "mem_read": k in LOADS, "mem_write": k in STORES, "branch": k in ("beq", "bne", "blt", "bge", "bltu", "bgeu"),
            "jump": k == "jal", "alu_to_pc": k == "jalr", "reg_write": writes_rd,
        }
        got = {s: bool(ctrl[s]) for s in want}
        r.check(got == want, f"{c.name}|control-signals", m.lookup(c, "control_unit_signals").loc(),
                f"{k}: control signals {got} disagree with the instruction's role {want}")
        if writes_rd:
            r.check(ctrl["wb_src"] in (0, 1, 2, 3), f"{c.name}|wb_src", m.lookup(c, "control_unit_signals").loc(),
                    f"{k}: writes rd but wb_src is {ctrl['wb_src']!r}")
    r.floor(80 if interlock_only else 150)


def mux_rule(ctx: Ctx) -> None:
    m = ctx.model
    r = ctx.rule("R02.mux", "stage multiplexers / adders / redirect conditions are what the composition assumes")

    def has(f, frag: str) -> bool:
        return frag in " ".join(ast.unparse(f.node).split())

    ex = m.method("ExecuteStage", "behavior", own=True)
    r.check(has(ex, "alu_in_1 = None if pipeline_register.control_unit_signals.alu_src_1 is None else "
                    "pipeline_register.register_read_data_1 if pipeline_register.control_unit_signals.alu_src_1 else "
                    "pipeline_register.address_of_instruction"), "EX|alu_in_1", ex.loc(),
            "EX: ALU input 1 is no longer {None: None, True: read data 1, False: instruction address}")
    r.check(has(ex, "alu_in_2 = pipeline_register.imm if pipeline_register.control_unit_signals.alu_src_2 else "
                    "pipeline_register.register_read_data_2"), "EX|alu_in_2", ex.loc(),
            "EX: ALU input 2 is no longer imm if alu_src_2 else read data 2")
    r.check(has(ex, "pipeline_register.instruction.alu_compute(alu_in_1=alu_in_1, alu_in_2=alu_in_2)"), "EX|alu", ex.loc(),
            "EX does not call alu_compute(alu_in_1, alu_in_2)")
    r.check(has(ex, "pc_plus_imm = pipeline_register.imm + pipeline_register.address_of_instruction if"), "EX|pc_plus_imm", ex.loc(),
            "EX: pc_plus_imm is no longer imm + address_of_instruction")
    r.check(has(ex, "result=result") and has(ex, "comparison=branch_taken") and has(ex, "pc_plus_imm=pc_plus_imm")
            and has(ex, "register_read_data_2=pipeline_register.register_read_data_2") and has(ex, "imm=pipeline_register.imm")
            and has(ex, "write_register=pipeline_register.write_register"), "EX|latch", ex.loc(), "EX latch no longer forwards result/comparison/pc_plus_imm/data2/imm/write_register")
    mem = m.method("MemoryAccessStage", "behavior", own=True)
    r.check(has(mem, "memory_address = pipeline_register.result") and has(mem, "memory_write_data = pipeline_register.register_read_data_2")
            and has(mem, "pipeline_register.instruction.memory_access(memory_address=memory_address, memory_write_data=memory_write_data, architectural_state=state)"),
            "MEM|access", mem.loc(), "MEM: memory_access is no longer called with (ALU result, read data 2)")
    r.check(has(mem, "comparison_or_jump = pipeline_register.control_unit_signals.jump or pipeline_register.comparison")
            and has(mem, "incorrect_branch_prediction = pipeline_register.control_unit_signals.branch and comparison_or_jump != pipeline_register.branch_prediction")
            and has(mem, "if incorrect_branch_prediction or pipeline_register.control_unit_signals.jump:"), "MEM|redirect", mem.loc(),
            "MEM: the taken-branch / jump redirect condition changed")
    r.check(has(mem, "if flush_signal is not None: if isinstance(pipeline_register.instruction, BTypeInstruction): "
                     "state.performance_metrics.branch_count += 1 elif isinstance(pipeline_register.instruction, JAL): "
                     "state.performance_metrics.procedure_count += 1"), "MEM|counters", mem.loc(),
            "MEM: branch_count / procedure_count are no longer counted exactly on a redirect of a B-type / JAL")
    r.check(has(mem, "memory_read_data=memory_read_data") and has(mem, "result=pipeline_register.result") and has(mem, "imm=pipeline_register.imm")
            and has(mem, "pc_plus_instruction_length=pipeline_register.pc_plus_instruction_length")
            and has(mem, "write_register=pipeline_register.write_register") and has(mem, "exit_code=pipeline_register.exit_code"),
            "MEM|latch", mem.loc(), "MEM latch no longer forwards read data / result / imm / pc+4 / write_register / exit_code")
    wb = m.method("RegisterWritebackStage", "behavior", own=True)
    mux = {0: "pc_plus_instruction_length", 1: "memory_read_data", 2: "result", 3: "imm"}
    got = {}
    for n in ast.walk(wb.node):
        if isinstance(n, ast.If) and isinstance(n.test, ast.Compare) and ast.unparse(n.test.left) == "wb_src" and len(n.body) == 1 \
                and isinstance(n.body[0], ast.Assign) and ast.unparse(n.body[0].targets[0]) == "register_write_data":
            k = n.test.comparators[0]
            if isinstance(k, ast.Constant):
                v = n.body[0].value
                got[k.value] = v.attr if isinstance(v, ast.Attribute) else ast.unparse(v)
    r.check(got == mux, "WB|source-mux", wb.loc(), f"WB source mux is {got}, documented {mux}")
    r.check(has(wb, "wb_src = pipeline_register.control_unit_signals.wb_src") and
            has(wb, "pipeline_register.instruction.write_back(write_register=pipeline_register.write_register, "
                    "register_write_data=register_write_data, architectural_state=state)"), "WB|write_back", wb.loc(),
            "WB no longer calls write_back(write_register, selected data)")
    r.check(has(wb, "if pipeline_register.exit_code is not None:") and has(wb, "state.exit_code = pipeline_register.exit_code"), "WB|exit", wb.loc(),
            "WB no longer commits the exit code")
    idf = m.method("InstructionDecodeStage", "behavior", own=True)
    r.check(has(idf, "register_read_addr_1, register_read_addr_2, register_read_data_1, register_read_data_2, imm = "
                     "pipeline_register.instruction.access_register_file(architectural_state=state)")
            and has(idf, "write_register = pipeline_register.instruction.get_write_register()")
            and has(idf, "register_read_data_1=register_read_data_1") and has(idf, "register_read_data_2=register_read_data_2")
            and has(idf, "imm=imm") and has(idf, "write_register=write_register"), "ID|plumbing", idf.loc(),
            "ID no longer latches access_register_file()'s results and get_write_register()")
    iff = m.method("InstructionFetchStage", "behavior", own=True)
    r.check(has(iff, "address_of_instruction = state.program_counter") and has(iff, "state.program_counter += instruction.length")
            and has(iff, "pc_plus_instruction_length = address_of_instruction + instruction.length")
            and has(iff, "control_unit_signals = instruction.control_unit_signals()"), "IF|plumbing", iff.loc(),
            "IF no longer latches the fetch address, pc+length and the class's control signals")
    # every write_back that stores wraps to 32 bit
    n = 0
    for c in m.subclasses(m.cls("RiscvInstruction")):
        f = c.methods.get("write_back")
        if f is None:
            continue
        for s in walk_no_nested(f.node):
            if isinstance(s, ast.Assign) and "registers[" in ast.unparse(s.targets[0]):
                n += 1
                ok = ast.unparse(s.targets[0]).endswith("registers[write_register]") and \
                    " ".join(ast.unparse(s.value).split()) in ("fixedint.UInt32(register_write_data)", "UInt32(register_write_data)")
                r.check(ok, f"{c.name}.write_back", f.loc(s), f"{c.name}.write_back does not store UInt32(register_write_data) into "
                        "registers[write_register]")
    if n < 4:
        raise AnalysisError(f"R02.mux: only {n} storing write_back definitions found (4 confirmed by hand)")
    r.floor(16)


def conf_rule(ctx: Ctx) -> None:
    m = ctx.model
    eff = effects(ctx)
    r = ctx.rule("R02.conf", "stage effect confinement")
    STAT = {"hits", "accesses", "last_was_hit"}

    def allowed(stage: str, path: tuple) -> bool:
        if not path:
            return False
        head = path[0]
        if stage == "InstructionFetchStage":
            return head == "program_counter" or head == "instruction_memory" or path[:2] == ("performance_metrics", "cycles")
        if stage == "InstructionDecodeStage":
            return False
        if stage == "ExecuteStage":
            if head == "output":
                return True
            # ECALL's string read: cache state (its accounting is C09's business, not an observable of C02)
            return head == "memory" or path[:2] == ("performance_metrics", "cycles")
        if stage == "MemoryAccessStage":
            return head == "memory" or path[:2] in (("performance_metrics", "branch_count"), ("performance_metrics", "procedure_count"),
                                                     ("performance_metrics", "cycles"))
        if stage == "RegisterWritebackStage":
            return path[:2] == ("register_file", "registers") or head == "exit_code" or path[:2] == ("performance_metrics", "instruction_count")
        return False

    for sn in ("InstructionFetchStage", "InstructionDecodeStage", "ExecuteStage", "MemoryAccessStage", "RegisterWritebackStage"):
        f = m.method(sn, "behavior", own=True)
        s = eff.solved(f)
        if s.unresolved:
            (o, t), ch = sorted(s.unresolved.items())[0]
            raise AnalysisError(f"R02.conf {sn}: unresolved call `{t}` at {o}")
        clo = eff.closure(f)
        r.inst(sn, {"closure_functions": len(clo), "writes": len(s.writes)})
        if sn != "InstructionDecodeStage" and not s.writes:
            raise AnalysisError(f"R02.conf: no write found for {sn} -- effect analysis lost the stage")
        for w in sorted(s.writes.values(), key=lambda w: (w.where, w.text)):
            ok = w.root == "state" and allowed(sn, w.path)
            if sn == "ExecuteStage" and ok and w.path[0] == "memory":
                # must come through the ECALL block
                ok = any("ECALL.process_ecall" in h for h in w.chain)
            if not ok:
                r.viol(f"{sn}|{short(w.where)}:{w.text}", w.origin,
                       f"{sn}.behavior can write {w.describe()} -- outside what this stage may change "
                       "(a flushed younger instruction would leave an architectural trace)", list(w.chain))
        # the EX stage must not count statistics through the string read
    r.floor(5)


def cnt_rule(ctx: Ctx) -> None:
    m = ctx.model
    r = ctx.rule("R02.cnt", "instruction_count: once per fetched instruction / per non-empty write-back")
    wb = m.method("RegisterWritebackStage", "behavior", own=True)
    n_ok = 0
    for p in function_paths(wb.node):
        incs = [e for e in p.events if e.kind == "stmt" and isinstance(e.node, ast.AugAssign) and ast.unparse(e.node.target).endswith("instruction_count")]
        nonempty = any(e.kind == "test" and "EmptyInstruction" in ast.unparse(e.node) and
                       ((ast.unparse(e.node).startswith("not ") and e.pol) or (not ast.unparse(e.node).startswith("not ") and not e.pol))
                       for e in p.events)
        is_mem = any(e.kind == "test" and "MemoryAccessPipelineRegister" in ast.unparse(e.node) and not e.pol for e in p.events)
        if not is_mem:
            if incs:
                r.viol("WB|counts-bubble", wb.loc(incs[0].node), "WB counts an instruction although its input is not a MEM latch")
            continue
        n_ok += 1
        if (len(incs) == 1) != nonempty:
            r.viol("WB|instruction_count", wb.loc(), f"WB increments instruction_count {len(incs)} time(s) on a path where the "
                   f"instruction is {'non-empty' if nonempty else 'a bubble'}", p.labels()[:8])
            break
    r.inst("RegisterWritebackStage.behavior", {"paths": n_ok})
    ss = m.method("SingleStage", "behavior", own=True)
    for p in function_paths(ss.node):
        incs = [e for e in p.events if e.kind == "stmt" and isinstance(e.node, ast.AugAssign) and ast.unparse(e.node.target).endswith("instruction_count")]
        has = any(e.kind == "test" and ast.unparse(e.node) == "state.instruction_at_pc()" and e.pol for e in p.events)
        if (len(incs) == 1) != has:
            r.viol("SingleStage|instruction_count", ss.loc(), f"SingleStage increments instruction_count {len(incs)} time(s) on a path "
                   f"{'with' if has else 'without'} an instruction at pc", p.labels()[:8])
            break
    r.inst("SingleStage.behavior", None)
    r.floor(2)


def run(ctx: Ctx) -> None:
    imap = riscv_map(ctx)
    sib_rule(ctx, imap)
    mux_rule(ctx)
    split_rule(ctx, imap)
    chain_rule(ctx, "R02.chain")
    order_rule(ctx, "R02.order")
    depth_rule(ctx, "R02.depth")
    src_rule(ctx, "R02.src")
    stallpair_rule(ctx, "R02.stallpair")
    drain_rule(ctx, "R02.drain")
    flushres_rule(ctx, "R02.resolve")
    conf_rule(ctx)
    cnt_rule(ctx)
    fault_rule(ctx, "R02.fault")
