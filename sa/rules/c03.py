"""C03 -- data cache transparency (structural clauses).

R03.bound   every multi-byte access path passes the word-boundary guard of its own
            width before any store effect or value return (non-direct mode).
R03.helper  the six block helpers guard with the right bound before the in-place
            mutation / extraction, raising ByteOffsetError.
R03.addr    DecodedAddress partitions the 32 address bits: byte [0,2), block offset,
            set index, tag; block-aligned address keeps bits [2+b,32) in place.
R03.cfg     cached and uncached back ends are configured identically; block fill and
            write-back walk the same addresses (base + 4*i over the whole block).
"""
from __future__ import annotations

import ast

from ..bitslice import Evaluator, Form, Inconclusive
from ..cachepaths import self_attr
from ..common import seg, short
from ..consteval import Folder, Val
from ..guards import facts_of
from ..linear import linform
from ..model import AnalysisError, walk_no_nested
from ..paths import calls_in, event_exprs, function_paths
from ..report import Ctx

EXPLANATION = (
    "Decides three necessary structural conditions of cache transparency: (1) on every enumerated "
    "path of the eight multi-byte access methods the word-boundary guard of the method's own width "
    "is passed before the first store into the cache or lower memory and before a value is "
    "returned, so a crossing access is rejected rather than answered/stored wrongly; (2) the "
    "tag/index/offset split is evaluated in a bit-slice abstract domain (symbolic in the address, "
    "per geometry on a grid) and must partition the 32 bits; (3) both back ends get the same "
    "Memory configuration and fill/write-back cover the same block addresses. That every read "
    "returns what flat memory would after an arbitrary history is a value-level claim and is not decided."
)
ASSUMPTIONS = [
    "geometry grid for R03.addr: index bits 0..6 x block bits 0..4 (each exact in the address)",
    "direct (parser preload) writes are outside the boundary rule: they never touch the cache",
]
TRUSTED = ["CPython ast", "sa.paths enumeration", "sa.bitslice domain", "sa.consteval"]

WIDTH = {"halfword": 2, "word": 0}  # largest legal byte offset
FROM = {"read_halfword": "halfword_from_block", "read_word": "word_from_block"}
INTO = {"write_halfword": "halfword_into_block", "write_word": "word_into_block"}


def bound_rule(ctx: Ctx, rid: str = "R03.bound") -> None:
    m = ctx.model
    r = ctx.rule(rid, "boundary guard of the access width precedes every store effect / value return")
    insts = []
    base = m.cls("BaseCacheMemorySystem")
    for n in FROM:
        insts.append((m.method(base, n, own=True), FROM[n], None))
    for cn in ("WriteBackMemorySystem", "WriteThroughMemorySystem"):
        for n in INTO:
            insts.append((m.method(cn, n, own=True), INTO[n], "directly_write_to_lower_memory"))
    for f, helper, flag in insts:
        sn = f.params[0]
        key0 = short(f.qname)
        width = "halfword" if "halfword" in f.name else "word"
        npaths = 0
        for p in function_paths(f.node):
            if p.term == "raise":
                continue
            facts: set = set()
            guarded = False
            direct = False
            first_bad = None
            for i, e in enumerate(p.events):
                if e.kind == "test":
                    fs = facts_of(e.node, bool(e.pol))
                    facts |= fs
                    if flag and (flag, True) in fs:
                        direct = True
                    # inline guard: a byte_offset comparison whose other branch raises is
                    # recognised through the path set (the raising path is skipped above)
                    if "byte_offset" in ast.unparse(e.node):
                        guarded = True
                for x in event_exprs(e):
                    for c in calls_in(x):
                        nm = c.func.attr if isinstance(c.func, ast.Attribute) else (c.func.id if isinstance(c.func, ast.Name) else "")
                        if nm == helper:
                            guarded = True
                        store = (nm == "write_block" and isinstance(c.func, ast.Attribute) and self_attr(c.func.value, sn, "cache")) or \
                                (nm.startswith("write_") and isinstance(c.func, ast.Attribute) and self_attr(c.func.value, sn, "memory")) or \
                                nm == "_write_block_to_memory"
                        if store and not guarded and not direct and first_bad is None:
                            first_bad = (c, f"stores through `{seg(f, c)}` before the {width} boundary check")
                if e.kind == "return" and f.name.startswith("read_") and not guarded and first_bad is None:
                    first_bad = (e.node, f"returns a value without the {width} boundary check")
            if direct:
                continue
            npaths += 1
            miss = any(a.startswith("None is ") and v is True for a, v in facts)
            label = "miss" if miss else "hit" if any(a.startswith("None is ") and v is False for a, v in facts) else "any"
            key = f"{key0}|{label}-path"
            r.inst(key, None)
            if first_bad is not None:
                r.viol(key, f.loc(first_bad[0]),
                       f"{key0}: a {label} path {first_bad[1]} (max offset {WIDTH[width]}): an access crossing a word "
                       "boundary is accepted instead of being rejected", ["path assumptions:"] + p.assumptions())
        if npaths == 0:
            raise AnalysisError(f"{rid}: no non-direct path found in {key0}")
    r.floor(16)


def helper_rule(ctx: Ctx, rid: str = "R03.helper") -> None:
    m = ctx.model
    r = ctx.rule(rid, "block helpers: right bound, ByteOffsetError, guard before mutation")
    mod = m.module("util.integer_manipulation")
    want = {"halfword_from_block": 2, "word_from_block": 0, "halfword_into_block": 2, "word_into_block": 0}
    for name, bound in want.items():
        f = mod.functions.get(name)
        if f is None:
            raise AnalysisError(f"anchor vanished: {name}")
        key = name
        ok_paths = 0
        saw_raise = False
        from ..pathsym import sym_events
        for p in function_paths(f.node):
            facts: set = set()
            for se in sym_events(p):  # locals substituted: `offset = decoded_address.byte_offset; if offset > 2:` is a test of the field
                if se.event.kind == "test":
                    facts |= facts_of(se.node, bool(se.event.pol))
            legal = _legal_offsets(facts)
            if p.term == "raise":
                exc = p.term_node.exc if isinstance(p.term_node, ast.Raise) else None
                cn = ast.unparse(exc.func) if isinstance(exc, ast.Call) else ""
                saw_raise = saw_raise or cn == "ByteOffsetError"
                if cn != "ByteOffsetError":
                    r.viol(f"{key}|raise", f.loc(p.term_node), f"{name} rejects with `{cn}` instead of ByteOffsetError")
                continue
            ok_paths += 1
            if legal is None:
                r.viol(f"{key}|unguarded", f.loc(), f"{name}: a normal path does not test decoded_address.byte_offset")
                continue
            exp = set(range(0, bound + 1))
            if legal != exp:
                r.viol(f"{key}|bound", f.loc(), f"{name} accepts byte offsets {sorted(legal)}, a {name.split('_')[0]} "
                       f"fits in one word only at {sorted(exp)}")
            # mutation after the guard
            sevs = sym_events(p)
            for i, e in enumerate(p.events):
                if e.kind == "stmt" and isinstance(e.node, ast.Assign) and any(isinstance(t, ast.Subscript) for t in e.node.targets):
                    if not any(x.event.kind == "test" and "byte_offset" in ast.unparse(x.node) for x in sevs[:i]):
                        r.viol(f"{key}|order", f.loc(e.node), f"{name} mutates the block before checking the offset")
        r.check(saw_raise, key, f.loc(), f"{name} has no path raising ByteOffsetError", {"max_offset": bound})
    # byte helpers need no guard but must index by block_offset / shift by byte_offset*8
    for name in ("byte_from_block", "byte_into_block", "halfword_from_block", "halfword_into_block",
                 "word_from_block", "word_into_block"):
        f = mod.functions.get(name)
        if f is None:
            raise AnalysisError(f"anchor vanished: {name}")
        # (which lane of the word is extracted / replaced is decided by R03.lane's abstract interpretation)
        from ..pathsym import subst as _subst
        from ..wiring import _single_assigned
        al = _single_assigned(f.node)  # `index = decoded_address.block_offset`
        sel = [_subst(n, al) for n in ast.walk(f.node) if isinstance(n, ast.Subscript) and isinstance(n.value, ast.Name) and n.value.id == f.params[1]]
        ok = bool(sel) and all(isinstance(n.slice, ast.Attribute) and n.slice.attr == "block_offset" and isinstance(n.slice.value, ast.Name)
                               and n.slice.value.id == f.params[0] for n in sel)
        r.check(ok, f"{name}|lane", f.loc(), f"{name} no longer selects the word of the block by decoded_address.block_offset")
    r.floor(10)


def _legal_offsets(facts: set):
    """Offsets in 0..3 consistent with the byte_offset comparison facts on a path."""
    rel = [(a, v) for a, v in facts if "byte_offset" in a]
    if not rel:
        return None
    out = set()
    for off in range(4):
        ok = True
        for a, v in rel:
            try:
                expr = ast.parse(a, mode="eval").body
            except SyntaxError:
                return None
            val = _eval_cmp(expr, off)
            if val is None:
                return None
            if val != v:
                ok = False
        if ok:
            out.add(off)
    return out


def _eval_cmp(e: ast.AST, off: int):
    if isinstance(e, ast.Compare) and len(e.ops) == 1:
        def side(x):
            if isinstance(x, ast.Constant) and isinstance(x.value, int):
                return x.value
            if "byte_offset" in ast.unparse(x) and isinstance(x, (ast.Attribute, ast.Name)):
                return off
            return None
        l, rr = side(e.left), side(e.comparators[0])
        if l is None or rr is None:
            return None
        op = e.ops[0]
        return {ast.Gt: l > rr, ast.GtE: l >= rr, ast.Lt: l < rr, ast.LtE: l <= rr, ast.Eq: l == rr,
                ast.NotEq: l != rr}.get(type(op))
    return None


def addr_rule(ctx: Ctx, rid: str = "R03.addr") -> None:
    m = ctx.model
    r = ctx.rule(rid, "DecodedAddress fields partition the 32 address bits (bit-slice domain)")
    c = m.cls("DecodedAddress")
    init = m.method(c, "__init__", own=True)
    sn = init.params[0]
    need = ["full_address", "tag", "cache_set_index", "byte_offset", "block_alinged_address", "block_offset", "word_alinged_address"]
    for p_ in ("num_index_bits", "num_block_bits", "address"):
        if p_ not in init.params:
            raise AnalysisError(f"anchor vanished: parameter {p_} of DecodedAddress.__init__")
    from ..absrun import AbsRun
    grid = [(i, b) for i in range(0, 7) for b in range(0, 5)]
    bad: dict = {}
    tag_bits_bad = None
    for (ib, bb) in grid:
        # the constructor is run by the abstract interpreter with the address symbolic and the geometry constant: locals, named
        # constants of the module, masks built from shifts and the order of the assignments do not matter
        stored: dict = {}

        def on_store(t, v, ev):
            if isinstance(t, ast.Attribute) and isinstance(t.value, ast.Name) and t.value.id == sn:
                stored[t.attr] = v
                return True
            return False

        def on_load(e, ev):
            if isinstance(e, ast.Attribute) and isinstance(e.value, ast.Name) and e.value.id == sn and e.attr in stored:
                v = stored[e.attr]
                if isinstance(v, Inconclusive):
                    raise v
                return v
            return None

        run = AbsRun(m, init, {"address": Form.var("address"), "num_index_bits": Form.k(ib), "num_block_bits": Form.k(bb)}, {},
                     on_store=on_store, on_load=on_load)
        run.lenient = True
        try:
            run.run()
        except Inconclusive as exc:
            raise AnalysisError(f"{rid}: DecodedAddress.__init__ is outside the abstract interpreter: {exc}")
        for a in need:
            if a not in stored:
                raise AnalysisError(f"anchor vanished: DecodedAddress.{a}")
            if isinstance(stored[a], Inconclusive):
                raise AnalysisError(f"{rid}: DecodedAddress.{a} is outside the bit-slice domain: {stored[a]}")
        lo_blk, lo_idx, lo_tag = 2, 2 + bb, 2 + bb + ib
        want = {
            "full_address": Form.field("address", 0, 32),
            "byte_offset": Form.field("address", 0, 2),
            "block_offset": Form.field("address", lo_blk, lo_idx),
            "cache_set_index": Form.field("address", lo_idx, lo_tag),
            "tag": Form.field("address", lo_tag, 32),
            "word_alinged_address": Form.field("address", 2, 32).lshift(2),
            "block_alinged_address": Form.field("address", lo_idx, 32).lshift(lo_idx),
        }
        for a, w in want.items():
            got = stored[a]
            if got != w and a not in bad:
                bad[a] = (ib, bb, got.describe(), w.describe())
        tb = stored.get("num_tag_bits")
        if tb is not None and tag_bits_bad is None and not (isinstance(tb, Form) and tb.is_const() and tb.const == 32 - lo_tag):
            tag_bits_bad = (ib, bb)
    for a in need:
        if a in bad:
            ib, bb, got, w = bad[a]
            r.check(False, f"DecodedAddress.{a}", init.loc(),
                    f"DecodedAddress.{a} with {ib} index bits / {bb} block bits is {got}; the partition of the "
                    f"32-bit address requires {w}")
        else:
            r.inst(f"DecodedAddress.{a}", {"geometries": len(grid)})
    # num_tag_bits is what is left of 32
    r.check(tag_bits_bad is None, "DecodedAddress.num_tag_bits", init.loc(), "num_tag_bits is not 32 - (index + block + 2)"
            + (f" (with {tag_bits_bad[0]} index bits / {tag_bits_bad[1]} block bits)" if tag_bits_bad else ""))
    # every cache class decodes with the cache's own geometry
    for cn in ("BaseCacheMemorySystem",):
        f = m.method(cn, "_decode_address", own=True)
        rets = [n for n in walk_no_nested(f.node) if isinstance(n, ast.Return)]
        ok = len(rets) == 1 and isinstance(rets[0].value, ast.Call) and m.resolve_class(f.module, rets[0].value.func) is c
        if ok:
            args = [ast.unparse(a) for a in rets[0].value.args] + [f"{k.arg}={ast.unparse(k.value)}" for k in rets[0].value.keywords]
            s0 = f.params[0]
            ok = args in ([f"{s0}.cache.num_index_bits", f"{s0}.cache.num_block_bits", "address"],
                          [f"{s0}.num_index_bits", f"{s0}.num_block_bits", "address"])
        r.check(ok, f"{cn}._decode_address", f.loc(), f"{cn}._decode_address does not decode with (index bits, block bits, address)")
    r.floor(8)


def cfg_rule(ctx: Ctx, rid: str = "R03.cfg") -> None:
    m = ctx.model
    r = ctx.rule(rid, "same Memory configuration under and without the cache; fill/write-back cover base+4*i")
    from ..cacheshape import BASE, WORD_ADDRS, data_memory_constructions, fill_form, writeback_form
    init, ifl, calls = data_memory_constructions(m)
    if not calls:
        raise AnalysisError(f"{rid}: no Memory(..) construction reaches self.memory in RiscvArchitecturalState.__init__")
    r.check(len(calls) == 1, "Memory-config", init.loc(calls[-1]) if hasattr(calls[-1], "lineno") else init.loc(),
            "the cached back end and the uncached data memory are configured differently: " + " vs ".join(ifl.show(c) for c in calls))
    # fill
    for cn, helper in (("BaseCacheMemorySystem", "_read_block_from_memory"),):
        f = m.method(cn, helper)
        form = fill_form(m, f)
        ok = form is not None and form["iter"] == "range(P0.cache.num_words_in_block)" and \
            [(a, recv) for a, _, recv in form["addrs"]] == [("read_word", "P0.memory")] and \
            form["addrs"][0][1] in {w.format(i="_c0") for w in WORD_ADDRS}
        r.check(ok, f"{cn}.{helper}", f.loc(), f"{cn}.{helper} does not read block_alinged_address + 4*i for every i "
                "in range(num_words_in_block)", None if form is None else {"iter": form["iter"], "elt": form["elt"]})
    writeback_rule(ctx, r)
    # num_words_in_block = 2**num_block_bits ; num_sets = 2**num_index_bits ; set selected by cache_set_index
    from ..parsershape import normal_flow
    ci = m.method("Cache", "__init__")
    cfl = normal_flow(m, ci)
    cst = {cfl.canon(e.expr.targets[0]): e.expr.value for e in cfl.effects if e.kind == "store"}  # type: ignore[attr-defined]
    pbb = f"P{ci.params.index('num_block_bits')}" if "num_block_bits" in ci.params else "?"
    pib = f"P{ci.params.index('num_index_bits')}" if "num_index_bits" in ci.params else "?"
    nw = cfl.canon(cst["P0.num_words_in_block"]) if "P0.num_words_in_block" in cst else None
    r.check(nw in (f"Pow(2, {pbb})", f"LShift(1, {pbb})"), "Cache.num_words_in_block", ci.loc(),
            f"Cache.num_words_in_block is {nw}, not 2**num_block_bits")
    sets = cst.get("P0.sets")
    it = cfl.canon(sets.generators[0].iter) if isinstance(sets, ast.ListComp) and len(sets.generators) == 1 else None
    ok_sets = it in (f"range(Pow(2, {pib}))", f"range(LShift(1, {pib}))")
    if not ok_sets and it == "range(P0.num_sets)" and "P0.num_sets" in cst:
        ok_sets = cfl.canon(cst["P0.num_sets"]) in (f"Pow(2, {pib})", f"LShift(1, {pib})")
    r.check(ok_sets, "Cache.sets", ci.loc(), f"Cache does not build 2**num_index_bits sets (one per index value): iterates {it}")
    for name in ("read_block", "write_block", "contains"):
        f = m.method("Cache", name, own=True)
        r.check("self.sets[decoded_address.cache_set_index]" in " ".join(ast.unparse(f.node).split()), f"Cache.{name}", f.loc(),
                f"Cache.{name} does not select the set by decoded_address.cache_set_index")
    block_index_rule(ctx, r)
    r.floor(9)


def run(ctx: Ctx) -> None:
    from ..lanerule import lane_rule
    from ..siblingrule import sibling_rule
    from ..wiring import wiring_rule
    bound_rule(ctx)
    helper_rule(ctx)
    lane_rule(ctx, "R03.lane")
    sibling_rule(ctx, "R03.sib", mode="data")
    alloc_rule(ctx, "R03.alloc")
    addr_rule(ctx)
    cfg_rule(ctx)
    wiring_rule(ctx, "R03.wire", which=("data",), fields=("num_index_bits", "num_block_bits", "associativity", "replacement_strategy"))
    source_rule(ctx)
    # what the set hands back is what was stored for that tag: the set's read / write against their reference (C10's / C12's rules)
    from ..cachesetspec import dirty_rule, notify_rule
    notify_rule(ctx, "R03.set")
    dirty_rule(ctx, "R03.set")
    # a reload must not leave a block behind: a stale (dirty) block of the previous program would be answered / written back into
    # the fresh memory (C12's / C13's reset rule)
    from ..resetrule import check_reset
    r = ctx.rule("R03.reset", "reset() rebuilds the data cache and clears the backing memory")
    check_reset(ctx, r, "Memory", fields={"memory_file": "empty"})
    check_reset(ctx, r, "BaseCacheMemorySystem", fields={"cache": "reconstruct", "memory": "delegate"})


def writeback_rule(ctx: Ctx, r) -> None:
    """A displaced block goes back word by word: word i, unconditionally, to block_alinged_address + 4*i of the lower memory."""
    m = ctx.model
    from ..cacheshape import WORD_ADDRS, writeback_form
    f = m.method("WriteBackMemorySystem", "_write_block_to_memory")
    wf = writeback_form(m, f)
    ok = wf is not None and wf["recv"] == "P0.memory" and wf["cond"] == "LOOP1" and wf["value"] == "ELEM1.0(enumerate(P2))[1]" and \
        wf["address"] in {w.format(i="ELEM1.0(enumerate(P2))[0]") for w in WORD_ADDRS}
    r.check(ok, "WriteBackMemorySystem._write_block_to_memory", f.loc(),
            "_write_block_to_memory does not write every word i of the block (unconditionally) to block_alinged_address + 4*i", wf)


def block_index_rule(ctx: Ctx, r) -> None:
    """The hit decision of a set: the first way (of all ways) that is valid and holds the tag -- on the normal form, so a search
    loop, next(generator) or a comprehension are one thing, while a search that stops early or skips ways is not."""
    from ..parsershape import normal_flow
    m = ctx.model
    f = m.method("CacheSet", "get_block_index", own=True)
    fl = normal_flow(m, f)
    got = [(fl.canon(x.value), fl.canon_cond(x.cond)) for x in fl.returns]
    want = ("next(GeneratorExp(_c0 for (_c0, _c1) in enumerate(P0.blocks) if BOOL[Eq(P1.tag, _c1.decoded_address.tag); _c1.valid_bit]#8), None)", "TRUE")
    r.check(got == [want], "CacheSet.get_block_index", f.loc(),
            f"hit decision is no longer `the first of all ways that is valid and holds the tag` (recovered: {got})")


def source_rule(ctx: Ctx, rid: str = "R03.src") -> None:
    """What a cached read returns is the addressed lane of the block the set lookup (or the fill) delivered *for this access*:
    <width>_from_block(block=_read_block(decode(address))[0], decoded_address=decode(address)) -- no remembered block, no
    second source.  The lookups themselves are compared with their reference formulation (as in C09: R09.hit)."""
    import re as _re
    from ..parsershape import normal_flow
    m = ctx.model
    r = ctx.rule(rid, "a cached read returns the lane of the block looked up for this access")
    D = "P0._decode_address(address=P1)"
    for n, fn in (("read_byte", "byte_from_block"), ("read_halfword", "halfword_from_block"), ("read_word", "word_from_block")):
        f = m.method("BaseCacheMemorySystem", n)
        fl = normal_flow(m, f)
        got = [(_re.sub(r"@\d+", "", fl.canon(x.value)), fl.canon_cond(x.cond)) for x in fl.returns]
        want = [(f"{fn}(block=P0._read_block(decoded_address={D})[0], decoded_address={D})", "TRUE")]
        r.check(got == want, f"BaseCacheMemorySystem.{n}", f.loc(), f"{n} returns `{got}`; it must return {fn}(<block delivered by _read_block for this "
                "address>, <decoded address>): a block remembered from an earlier access goes stale when it is displaced and refetched")
    from .c09 import READ_BLOCK_REFS
    from ..flowspec import compare
    for cn in ("WriteBackMemorySystem", "WriteThroughMemorySystem"):
        f = m.method(cn, "_read_block")
        compare(r, m, f, READ_BLOCK_REFS[cn], f"{cn}._read_block",
                what="returns (cached block, True) on a hit and (block filled from below, False) on a miss, allocating the fill")
    r.floor(5)


def alloc_rule(ctx: Ctx, rid: str) -> None:
    """On a miss the block is fetched from lower memory before it is merged into / allocated
    (write-allocate and read-allocate must not invent block contents).

    Decided on the normal form of the write-back stores and the two data `_read_block`s: the block operand of every
    `*_into_block(..)` merge and every `cache.write_block(..)`, with the conditional values resolved under "the lookup missed"
    (`cache.read_block(d) is None`), must be built from `_read_block_from_memory(d)` and from nothing the cache returned."""
    from ..flowspec import _cond_ast, resolve_under
    from ..parsershape import normal_flow
    m = ctx.model
    r = ctx.rule(rid, "a missing block is filled from lower memory before use")
    insts = []
    for cn in ("WriteBackMemorySystem",):
        for n in ("write_byte", "write_halfword", "write_word", "_read_block"):
            insts.append(m.method(cn, n, own=True))
    insts.append(m.method("WriteThroughMemorySystem", "_read_block", own=True))
    for f in insts:
        key0 = short(f.qname)
        fl = normal_flow(m, f)
        s0 = f.params[0]
        # the lookup
        looks = [e.expr for e in fl.effects if e.kind == "call" and isinstance(e.expr, ast.Call) and isinstance(e.expr.func, ast.Attribute)
                 and e.expr.func.attr == "read_block" and fl.canon(e.expr.func.value).split("@")[0] == "P0.cache"]
        if not looks:
            raise AnalysisError(f"{rid}: {key0} no longer looks the block up with self.cache.read_block(..)")
        miss = ast.Compare(left=looks[0], ops=[ast.Is()], comparators=[ast.Constant(value=None)])
        n_ops = 0
        for e in fl.effects:
            if e.kind != "call" or not isinstance(e.expr, ast.Call):
                continue
            fn = e.expr.func
            nm = fn.attr if isinstance(fn, ast.Attribute) else fn.id if isinstance(fn, ast.Name) else ""
            is_merge = nm.endswith("_into_block")
            is_alloc = nm == "write_block" and isinstance(fn, ast.Attribute) and fl.canon(fn.value).split("@")[0] == "P0.cache"
            if not (is_merge or is_alloc):
                continue
            # can this effect happen on a miss at all?
            pr = fl.cprinter
            cb = pr._bool(_cond_ast(e.cond)) if e.cond else ("const", True)
            t = pr._tables([pr._mk("and", [cb, pr._bool(miss)])])
            if t is not None and t[1][0] == 0:
                continue  # hit-only effect
            n_ops += 1
            under = ast.BoolOp(op=ast.And(), values=[_cond_ast(e.cond), miss]) if e.cond else miss
            call = resolve_under(fl, e.expr, under)
            args = list(call.args) + [k.value for k in call.keywords]
            blocks = [a for a in args if any(isinstance(x, ast.Call) and isinstance(x.func, ast.Attribute) and x.func.attr in ("_read_block_from_memory", "read_block")
                                             for x in ast.walk(a)) or isinstance(a, (ast.List, ast.ListComp))]
            from_mem = any(isinstance(x, ast.Call) and isinstance(x.func, ast.Attribute) and x.func.attr == "_read_block_from_memory"
                           and [fl.canon(y) for y in list(x.args) + [k.value for k in x.keywords]] == [fl.canon((looks[0].args + [k.value for k in looks[0].keywords])[0])]
                           for a in blocks for x in ast.walk(a))
            from_cache = any(isinstance(x, ast.Call) and isinstance(x.func, ast.Attribute) and x.func.attr == "read_block" for a in blocks for x in ast.walk(a))
            r.check(from_mem and not from_cache, f"{key0}|miss|{nm}", f.loc(e.node), f"{key0}: on a miss `{nm}(..)` works on `{_clip(fl.show(blocks[0])) if blocks else '?'}`: "
                    "the block must first be fetched from lower memory (`_read_block_from_memory(decoded_address)`)")
        if n_ops == 0:
            r.check(False, f"{key0}|miss", f.loc(), f"{key0}: the miss path never merges into / allocates a block fetched from lower memory")
    r.floor(8)


def _clip(t: str, n: int = 140) -> str:
    return t if len(t) <= n else t[:n] + "..."
