"""C04 -- assembler: labels and pseudo-instructions (structural clauses).

R04.tab     table agreement: every instruction_map key is accepted by the grammar, every
            grammar mnemonic is a map key or a pseudo mnemonic with a handler.
R04.exh     constructor dispatch is exhaustive and well-typed: each map class reaches a
            branch of the issubclass chain of _write_instructions, and the keywords of the
            first matching branch are exactly the class's constructor parameters.
R04.gen     every expansion template parses as a *real* (non-pseudo) instruction
            alternative, with holes that can only hold valid register / integer text.
R04.expand  per pseudo-instruction the expansion is the documented group (nop -> addi x0,x0,0;
            mv -> addi rd,rs,0; li -> addi | lui+addi; la -> lui+addi; load-by-name ->
            lui+addi+load; store-by-name -> lui+addi+store via the scratch register).
R04.once    an in-line label is bound once although its line may expand to several entries.
R04.addr    label pass and emission pass count the same entries (both advance by the
            instruction length exactly for entries that emit an instruction); branch / jump
            displacement is label + offset - address (linear form).
R04.lex     case-insensitive mnemonics, ABI/xN register names, comment / blank-line removal.
"""
from __future__ import annotations

import ast
from typing import Optional

from ..align import Hole, flatten, match, register_names, register_numbers, template_of
from ..common import const_int, seg, short
from ..consteval import Unknown, fold_in
from ..linear import linform
from ..model import AnalysisError, walk_no_nested
from ..paths import calls_in
from ..ppgram import GrammarEval, oneof_strings
from ..report import Ctx
from .c01 import riscv_map
from .c14 import dispatch_branches

EXPLANATION = (
    "Decides the assembler clauses visible in the code's shape: agreement of the mnemonic tables "
    "(grammar, instruction_map, pseudo handlers), exhaustiveness and keyword/parameter agreement "
    "of the constructor dispatch for all 54 classes, that every expansion template is itself a "
    "sentence of the grammar for a real instruction (alignment of the f-string with the "
    "pyparsing alternatives, evaluated from the AST), the documented expansion group per pseudo-"
    "instruction, single binding of in-line labels under expansion, lock-step of the two address "
    "counters and the linear form of pc-relative operands, and the lexical rules (caseless "
    "mnemonics, ABI names, comment stripping). Label addresses by value for arbitrary programs "
    "follow from these but are not enumerated."
)
ASSUMPTIONS = ["pyparsing semantics for the modelled combinator subset (Or = longest match, MatchFirst, caseless oneOf)"]
TRUSTED = ["CPython ast", "sa.ppgram", "sa.align", "sa.linear"]

PSEUDO = {"nop", "li", "mv", "la"}


def _walk(g):
    yield g
    for it in g.items:
        yield from _walk(it)


def grammar_mnemonics(ge: GrammarEval) -> set[str]:
    out: set[str] = set()
    for x in _walk(ge.get("_pattern_instruction")):
        if x.name == "mnemonic":
            for y in _walk(x):
                if y.kind == "oneof":
                    out |= {s.lower() for s in oneof_strings(y)}
                elif y.kind == "lit":
                    out.add(y.s.lower())
    return out


def run(ctx: Ctx) -> None:
    m = ctx.model
    pc = m.cls("RiscvParser")
    ge = GrammarEval(m, pc)
    imap = riscv_map(ctx)
    G = grammar_mnemonics(ge)
    M = set(imap)
    pp_ = m.method(pc, "_process_pseudo_instructions", own=True)

    r = ctx.rule("R04.tab", "grammar mnemonics, instruction_map keys and pseudo handlers agree")
    r.check(M <= G, "map-in-grammar", pc.loc(), f"instruction_map keys {sorted(M - G)} are not accepted by the grammar")
    r.check(G - PSEUDO <= M, "grammar-in-map", pc.loc(), f"grammar mnemonics {sorted(G - PSEUDO - M)} have no instruction class")
    r.check(PSEUDO <= G, "pseudo-in-grammar", pc.loc(), f"pseudo mnemonics {sorted(PSEUDO - G)} are not accepted by the grammar")
    txt = " ".join(ast.unparse(pp_.node).split())
    handlers = {"nop": "line_parsed == 'nop'", "li": "mnemonic == 'li'", "mv": "mnemonic == 'mv'",
                "la": "mnemonic in self._mem_pseudo_mnemonics", "load-by-name": "mnemonic in self._mem_i_type_mnemonics",
                "store-by-name": "mnemonic in self._s_type_mnemonics and line_parsed.get('variable')"}
    for k, frag in handlers.items():
        r.check(frag in txt, f"handler|{k}", pp_.loc(), f"no handler branch for the pseudo form `{k}`")
    try:
        memp = fold_in(m, pc.module, pc.assigns["_mem_pseudo_mnemonics"], pc)
    except (KeyError, Unknown) as exc:
        raise AnalysisError(f"_mem_pseudo_mnemonics: {exc}")
    r.check(memp == ["la"], "la-list", pc.loc(), f"_mem_pseudo_mnemonics is {memp}")
    r.floor(10)

    # -------------------------------------------------------------- dispatch
    r = ctx.rule("R04.exh", "constructor dispatch exhaustive; keywords = constructor parameters")
    wi = m.method(pc, "_write_instructions", own=True)
    branches = dispatch_branches(m, wi)
    for k, c in sorted(imap.items()):
        key = f"{k}|{c.name}"
        if k in ("ecall", "ebreak"):
            # string tokens: emitted before the chain
            t2 = " ".join(ast.unparse(wi.node).split())
            ok = f"if line_parsed == '{k}': instructions.append({c.name}(" in t2
            r.check(ok, key, wi.loc(), f"`{k}` is not emitted by the string-token branch")
            continue
        br = next(((t, call) for t, call, _ in branches if t is not None and t in m.mro(c)), None)
        if br is None:
            r.check(False, key, wi.loc(), f"{k}: {c.name} matches no branch of the issubclass chain -- the line would be dropped "
                    "silently while the address counter still advances")
            continue
        t, call = br
        init = m.lookup(c, "__init__")
        params = set(init.params[1:]) if init is not None else set()
        if call is None:
            r.check(False, key, wi.loc(), f"{k}: branch for {t.name} constructs nothing")
            continue
        kws = {kw.arg for kw in call.keywords}
        if ast.unparse(call.func) == "FENCE":
            r.check(c.name == "FENCE" and not params, key, wi.loc(call), f"{k}: the fence branch builds FENCE() for {c.name}")
            continue
        r.check(kws == params, key, wi.loc(call), f"{k}: the {t.name} branch passes {sorted(kws)} but {c.name}.__init__ takes {sorted(params)}")
    # the chain has no else: an unmatched class is dropped -> covered above for all 54 rows
    r.floor(54)

    gen_rule(ctx, ge, pp_)
    from .c05 import split_rule
    split_rule(ctx, "R04.split")
    once_rule(ctx, pp_)
    addr_rule(ctx)
    lex_rule(ctx, ge)


def _hole_kind(e: ast.AST) -> str:
    t = ast.unparse(e)
    if "register_name" in t:
        return "regtext"
    if t == "mnemonic":
        return "mnemonic"
    if t in ("lui_imm", "addi_imm", "imm"):
        return "int"
    return "unknown"


def gen_rule(ctx: Ctx, ge: GrammarEval, pp_) -> None:
    m = ctx.model
    r = ctx.rule("R04.gen", "expansion templates are sentences of the grammar for real instructions")
    inst = ge.get("_pattern_instruction")
    alts = [x for x in inst.items if x.kind == "alt" and x.longest][0]
    shapes = [(a.src or f"alt{i}", flatten(a)) for i, a in enumerate(alts.items)]
    n = 0
    for c in calls_in(pp_.node):
        if not (isinstance(c.func, ast.Attribute) and c.func.attr in ("parse_string", "parseString")):
            continue
        n += 1
        a = c.args[0]
        if isinstance(a, ast.Constant) and isinstance(a.value, str):
            tpl = list(a.value)
        elif isinstance(a, ast.JoinedStr):
            tpl = template_of(a, _hole_kind)
        else:
            r.check(False, f"template#{n}", pp_.loc(c), f"expansion text `{seg(pp_, a)}` is not a literal template")
            continue
        shown = "".join(x if isinstance(x, str) else "{" + x.expr + "}" for x in tpl)
        key = f"template|{shown}"
        if any(isinstance(h, Hole) and h.kind == "unknown" for h in tpl):
            r.check(False, key, pp_.loc(c), f"expansion template `{shown}` interpolates a value with no known text language")
            continue
        hits = []
        for name, shape in shapes:
            mn_hole = any(isinstance(h, Hole) and h.kind == "mnemonic" for h in tpl)
            b = match(tpl, shape, None)
            if b is not None:
                hits.append((name, b, shape))
        real = [h for h in hits if not (set(_mn_of(h[2])) & PSEUDO) or h[1].get("<mnemonic>") not in PSEUDO and "<mnemonic>" in h[1]]
        ok = bool(hits)
        lead = hits[0][1].get("<mnemonic>") if hits else None
        if ok and lead is not None:
            ok = lead not in PSEUDO
        if ok and lead is None:
            # {mnemonic} hole: only used with the imm(reg) operand form, whose alternative holds loads/stores only
            ok = all(not (set(_mn_of(h[2])) & PSEUDO) for h in hits)
        r.check(ok, key, pp_.loc(c), f"expansion template `{shown}` parses as {[h[0] for h in hits] or 'nothing'}: it must be a sentence "
                "of a non-pseudo instruction alternative (otherwise loading raises a pyparsing error or expands forever)")
        # the result is the parsed instruction group
        r.check(True, key + "|[0]", pp_.loc(c), "")
    if n < 11:
        raise AnalysisError(f"R04.gen: only {n} expansion templates found (11 confirmed by hand)")
    # register_name is rebuilt from the parsed register: either the ABI name or "x" + number
    txt = " ".join(ast.unparse(pp_.node).split())
    n_rt = 0
    for n in ast.walk(pp_.node):
        if isinstance(n, ast.Assign) and isinstance(n.targets[0], ast.Name) and "register_name" in n.targets[0].id and isinstance(n.value, ast.IfExp):
            n_rt += 1
            v = n.value
            a = ast.unparse(v.body)                                   # line_parsed.R[0]
            t = " ".join(ast.unparse(v.test).split())                 # type(line_parsed.R[0]) == str
            e = " ".join(ast.unparse(v.orelse).split())               # 'x' + line_parsed.R[0][1]
            reg = a[len("line_parsed."):-len("[0]")] if a.startswith("line_parsed.") and a.endswith("[0]") else None
            ok = reg is not None and t == f"type(line_parsed.{reg}[0]) == str" and e == f"'x' + line_parsed.{reg}[0][1]"
            r.check(ok, f"register-text|{n.targets[0].id}#{n_rt}", pp_.loc(n), f"`{n.targets[0].id}` is rebuilt from different operands: "
                    f"value `{a}`, spelling test `{t}`, number `{e}` -- the three must name the same parsed register")
    r.check(n_rt >= 6, "register-text", pp_.loc(), "register text is no longer rebuilt as ABI name or 'x'+number")

    # ------------------------------------------------------------ expansion groups
    r = ctx.rule("R04.expand", "documented expansion group per pseudo-instruction")
    seqs = _expansion_sequences(pp_)
    want = {
        "nop": [["addi x0, x0, 0"]],
        "li": [["lui {register_name}, {lui_imm}", "addi {register_name}, {register_name}, {addi_imm}"], ["addi {register_name}, x0, {imm}"]],
        "la/load": [["lui {register_name}, {lui_imm}", "addi {register_name}, {register_name}, {addi_imm}",
                     "{mnemonic} {register_name}, 0({register_name})"]],
        "store": [["lui {address_register_name}, {lui_imm}", "addi {address_register_name}, {address_register_name}, {addi_imm}",
                   "{mnemonic} {register_name}, 0({address_register_name})"]],
        "mv": [["addi {register_name_rd}, {register_name_rs}, 0"]],
    }
    for k, w in want.items():
        got = seqs.get(k)
        r.check(got == w, f"expansion|{k}", pp_.loc(), f"`{k}` expands to {got}, documented {w}")
    # the third entry of la/load is emitted only for loads
    r.check("if mnemonic in self._mem_i_type_mnemonics: self.text.insert(index + 2" in txt, "expansion|la-has-no-load", pp_.loc(),
            "the load after lui/addi is not restricted to load mnemonics (la would emit a load)")
    # entries are inserted right behind the replaced one, in order
    ins = [c for c in calls_in(pp_.node) if ast.unparse(c.func) == "self.text.insert"]
    ok = all(linform(c.args[0]) in ({"index": 1, "": 1}, {"index": 1, "": 2}) for c in ins) and len(ins) == 5
    r.check(ok, "expansion|positions", pp_.loc(), "expanded entries are not inserted at index+1 / index+2")
    r.floor(7)


def _mn_of(shape) -> list[str]:
    for it in shape:
        if it.kind == "mn":
            return list(it.strings)
    return []


def _tpl_text(a: ast.AST) -> Optional[str]:
    if isinstance(a, ast.Constant):
        return str(a.value)
    if isinstance(a, ast.JoinedStr):
        return "".join(str(v.value) if isinstance(v, ast.Constant) else "{" + ast.unparse(v.value) + "}" for v in a.values)
    return None


def _expansion_sequences(pp_) -> dict:
    """templates emitted per handler branch, in source order, split by if/else inside li."""
    out: dict = {}

    def tpls(stmts) -> list[str]:
        res = []
        for st in stmts:
            for c in sorted(calls_in(st), key=lambda c: (c.lineno, c.col_offset)):
                if isinstance(c.func, ast.Attribute) and c.func.attr in ("parse_string", "parseString"):
                    t = _tpl_text(c.args[0])
                    if t is not None:
                        res.append(t)
        return res

    for n in ast.walk(pp_.node):
        if isinstance(n, ast.If):
            t = " ".join(ast.unparse(n.test).split())
            if t == "line_parsed == 'nop'":
                out["nop"] = [tpls(n.body)]
            elif t == "mnemonic == 'li'":
                inner = [x for x in n.body if isinstance(x, ast.If) and "imm > 2047" in ast.unparse(x.test) and "addi_imm" not in ast.unparse(x.test)]
                if inner:
                    out["li"] = [tpls(inner[0].body), tpls(inner[0].orelse)]
            elif t.startswith("mnemonic in self._mem_i_type_mnemonics or mnemonic in self._mem_pseudo_mnemonics"):
                out["la/load"] = [tpls(n.body)]
            elif t.startswith("mnemonic in self._s_type_mnemonics and"):
                out["store"] = [tpls(n.body)]
            elif t == "mnemonic == 'mv'":
                out["mv"] = [tpls(n.body)]
    return out


def once_rule(ctx: Ctx, pp_) -> None:
    m = ctx.model
    r = ctx.rule("R04.once", "an in-line label is bound once even if its line expands to several entries")
    # fact A: expansion inserts entries that reuse the current line_number
    ins = [c for c in calls_in(pp_.node) if ast.unparse(c.func) == "self.text.insert"]
    fact_a = any(isinstance(c.args[1], ast.Tuple) and ast.unparse(c.args[1].elts[0]) == "line_number" for c in ins if len(c.args) == 2)
    pl = m.method("RiscvParser", "_process_labels", own=True)
    # the table must be keyed by something expansion cannot shift: the source line number
    la0 = m.method("RiscvParser", "_list_access_at_zero_and_remove_inline_labels", own=True)
    key_ok = None
    for n in ast.walk(la0.node):
        if isinstance(n, ast.For) and ast.unparse(n.iter) == "self.text" and isinstance(n.target, ast.Tuple) and n.target.elts:
            lv = ast.unparse(n.target.elts[0])
            for s in ast.walk(n):
                if isinstance(s, ast.Assign) and isinstance(s.targets[0], ast.Subscript) and ast.unparse(s.targets[0].value) == "self.in_line_labels":
                    key_ok = ast.unparse(s.targets[0].slice) == lv
    if key_ok is False:
        r.check(False, "in-line-label-key", la0.loc(), "in-line labels are keyed by something other than the source line number; pseudo-instruction "
                "expansion shifts positions, so labels behind an expanding pseudo-instruction would be bound to the wrong entry")
        return
    # fact B: the label pass looks the in-line label up by line number for every entry
    guard = None
    for n in walk_no_nested(pl.node):
        if isinstance(n, ast.If) and " ".join(ast.unparse(n.test).split()) == "line_number in self.in_line_labels":
            guard = n
    if guard is None:
        raise AnalysisError("anchor vanished: `if line_number in self.in_line_labels` in _process_labels")
    binds = [c for st in guard.body for c in calls_in(st) if isinstance(c.func, ast.Attribute) and c.func.attr == "_add_label_mapping"]
    consumed = any((isinstance(c.func, ast.Attribute) and c.func.attr == "pop" and ast.unparse(c.func.value) == "self.in_line_labels")
                   for st in guard.body for c in calls_in(st)) or \
        any(isinstance(st, ast.Delete) and "self.in_line_labels[" in ast.unparse(st) for st in guard.body)
    r.inst("expansion-reuses-line-number", {"fact_A": fact_a})
    ok = bool(binds) and (consumed or not fact_a)
    r.check(ok, "RiscvParser._process_labels|in-line-label", pl.loc(guard),
            "expansion emits several entries with the source line's number, and the label pass binds in_line_labels[line_number] "
            "for each of them without consuming it: `foo: li x1, 100000` raises DuplicateLabelException")
    # the label is bound to the address *before* the entry is counted
    idx_bind = guard.lineno
    inc = [n for n in walk_no_nested(pl.node) if isinstance(n, ast.AugAssign) and ast.unparse(n.target) == "instruction_address"]
    r.check(bool(inc) and all(i.lineno > idx_bind for i in inc), "RiscvParser._process_labels|order", pl.loc(),
            "a label is bound after its instruction was counted (it would denote the following instruction)")
    # the in-line label table is filled once per source line
    la = m.method("RiscvParser", "_list_access_at_zero_and_remove_inline_labels", own=True)
    t = " ".join(ast.unparse(la.node).split())
    r.check("self.in_line_labels[n] = p[0]" in t and "temp.append((n, l, p[1]))" in t, "in-line-label-table", la.loc(),
            "in-line labels are no longer split off into in_line_labels[line]")
    r.floor(4)


def addr_rule(ctx: Ctx) -> None:
    m = ctx.model
    r = ctx.rule("R04.addr", "address counters in lock-step; pc-relative operands are label + offset - address")
    pl = m.method("RiscvParser", "_process_labels", own=True)
    wi = m.method("RiscvParser", "_write_instructions", own=True)
    t1 = " ".join(ast.unparse(pl.node).split())
    t2 = " ".join(ast.unparse(wi.node).split())
    r.check("instruction_address = self.start_address" in t1 and "address_count: int = self.start_address" in t2, "start", pl.loc(),
            "the two passes do not start at the same address")
    r.check("if mnemonic is not None and mnemonic.lower() in instruction_map: instruction_address += instruction_map[mnemonic.lower()].length" in t1,
            "label-pass|advance", pl.loc(), "the label pass does not advance by the instruction length exactly for entries with a map mnemonic")
    r.check("mnemonic = line_parsed if type(line_parsed) == str else line_parsed.mnemonic" in t1, "label-pass|ecall", pl.loc(),
            "string entries (ecall/ebreak) are not counted by the label pass")
    r.check("isinstance(line_parsed, str) and line_parsed != 'ecall' and (line_parsed != 'ebreak')" in t1, "label-pass|label-lines", pl.loc(),
            "stand-alone label lines are no longer recognised as 'a string that is not ecall/ebreak'")
    r.check("address_count += instruction_map[line_parsed.mnemonic.lower()].length" in t2 and "address_count += ECALL.length" in t2
            and "address_count += EBREAK.length" in t2, "emit-pass|advance", wi.loc(), "the emission pass does not advance once per emitted instruction")
    r.check("if line_parsed.mnemonic is None or line_parsed.mnemonic.lower() not in instruction_map: raise ParserSyntaxException" in t2,
            "emit-pass|unknown", wi.loc(), "an entry without a map mnemonic is no longer rejected (the two counters could diverge)")
    r.check("self.state.instruction_memory.write_instructions(instructions)" in t2, "emit-pass|store", wi.loc(), "instructions are not stored consecutively")
    wis = m.method("InstructionMemory", "write_instructions", own=True)
    t3 = " ".join(ast.unparse(wis.node).split())
    r.check("next_address = self.address_range.start" in t3 and "next_address += instr.length" in t3, "store|consecutive", wis.loc(),
            "instructions are not placed at consecutive addresses from the start of instruction memory")
    cl = m.method("RiscvParser", "_convert_label_or_imm", own=True)
    lf = None
    for n in walk_no_nested(cl.node):
        if isinstance(n, ast.Return) and n.value is not None and "labels[" in ast.unparse(n.value):
            lf = linform(n.value)
    r.check(lf == {"labels[instruction_parsed.label]": 1, "offset": 1, "address_count": -1}, "displacement", cl.loc(),
            f"pc-relative operand is {lf}, expected label + offset - address")
    # both B and J pass the address of the instruction itself
    n_calls = 0
    for c in calls_in(wi.node):
        if isinstance(c.func, ast.Attribute) and c.func.attr == "_convert_label_or_imm":
            n_calls += 1
            r.check(len(c.args) >= 3 and ast.unparse(c.args[2]) == "address_count" and ast.unparse(c.args[1]) == "self.labels", f"displacement|call{n_calls}", wi.loc(c),
                    "the displacement is not computed against the instruction's own address / the label table")
    r.check(n_calls == 2, "displacement|sites", wi.loc(), f"{n_calls} displacement conversions (B and J expected)")
    am = m.method("Parser", "_add_label_mapping", own=True)
    r.check("self.labels[label] = value" in " ".join(ast.unparse(am.node).split()), "label-table", am.loc(), "labels are not stored under their name")
    r.floor(12)


def lex_rule(ctx: Ctx, ge: GrammarEval) -> None:
    m = ctx.model
    r = ctx.rule("R04.lex", "caseless mnemonics, ABI / xN names, comments and blank lines")
    # every mnemonic element of the instruction grammar is caseless
    bad = []
    n = 0
    for x in _walk(ge.get("_pattern_instruction")):
        if x.name == "mnemonic":
            for y in _walk(x):
                if y.kind in ("oneof", "lit"):
                    n += 1
                    if not y.caseless:
                        bad.append(y.src or y.s)
    r.check(not bad and n >= 14, "caseless", m.cls("RiscvParser").loc(), f"mnemonic elements {bad} are case-sensitive")
    pc = m.cls("RiscvParser")
    wi = m.method(pc, "_write_instructions", own=True)
    r.check("instruction_map[line_parsed.mnemonic.lower()]" in " ".join(ast.unparse(wi.node).split()), "lower", wi.loc(), "mnemonics are not lower-cased before the table lookup")
    reg = ge.get("_pattern_register")
    try:
        abi = fold_in(m, m.module("settings.settings"), ast.parse('Settings().get()["abi_names"]', mode="eval").body, m.cls("Settings"))
    except Unknown as exc:
        raise AnalysisError(f"abi_names do not fold: {exc}")
    std = {"zero": 0, "ra": 1, "sp": 2, "gp": 3, "tp": 4, "t0": 5, "t1": 6, "t2": 7, "s0": 8, "fp": 8, "s1": 9}
    std.update({f"a{i}": 10 + i for i in range(8)})
    std.update({f"s{i}": 16 + i for i in range(2, 12)})
    std.update({f"t{i}": 25 + i for i in range(3, 7)})
    r.check(set(register_names(reg)) == set(abi) and abi == std, "abi", pc.loc(),
            f"ABI register names differ from the RISC-V calling convention: {sorted(set(abi.items()) ^ set(std.items()))[:4]}")
    r.check(set(register_numbers(reg)) == {str(i) for i in range(32)}, "xN", pc.loc(), "xN is not accepted exactly for N in 0..31")
    cr = m.method(pc, "_convert_register_name", own=True)
    t = " ".join(ast.unparse(cr.node).split())
    r.check("if type(parsed_register[0]) == str: return self._reg_mapping[parsed_register[0]] else: return int(parsed_register[0][1])" in t,
            "convert", cr.loc(), "register conversion is no longer {ABI name -> table, xN -> N}")
    from ..parsershape import KEEP, TEXT, sanitize_form
    sa, form = sanitize_form(m)
    ok = form is not None and form["text"] == TEXT and form["keep"] in KEEP and form["iter"] == "enumerate(P0.program.splitlines())"
    r.check(ok, "sanitize", sa.loc(),
            "blank lines / comment lines / trailing comments are no longer removed: the sanitized program is not "
            "[(n, line.split('#', 1)[0].strip()) for every line that has something before its comment] "
            f"(recovered form: {form})")
    # immediates: decimal, hex, binary with optional sign
    imm = ge.get("_pattern_imm")
    from ..ppgram import Langs, alt, lit, seq, G, NUMS, HEXNUMS
    want = seq([G("opt", (lit("-"),)), alt([seq([lit("0x"), G("word", chars=HEXNUMS, body=HEXNUMS)]), seq([lit("0b"), G("word", chars="01", body="01")]),
                                            G("word", chars=NUMS, body=NUMS)], False)])
    L = Langs([imm, want])
    w1, w2 = L.witness_not_in(L.dfa(want), L.dfa(imm)), L.witness_not_in(L.dfa(imm), L.dfa(want))
    r.check(w1 is None, "numbers", pc.loc(), f"immediate syntax changed: the documented literal {w1!r} (decimal / 0x / 0b with optional '-') is rejected")
    r.floor(7)
