"""C04 -- assembler: labels and pseudo-instructions (structural clauses).

R04.tab     table agreement: every instruction_map key is accepted by the grammar, every
            grammar mnemonic is a map key or a pseudo mnemonic with a handler.
R04.exh     constructor dispatch is exhaustive and well-typed: each map class reaches a
            branch of the issubclass chain of _write_instructions, and the keywords of the
            first matching branch are exactly the class's constructor parameters.
R04.gen     every expansion template parses as a *real* (non-pseudo) instruction
            alternative, with holes that can only hold valid register / integer text.
R04.expand  per pseudo-instruction the expansion is the documented group (nop -> addi x0,x0,0;
            mv -> addi rd,rs,0; li -> addi | lui+addi; la -> lui+addi; load-by-name ->
            lui+addi+load; store-by-name -> lui+addi+store via the scratch register).
R04.once    an in-line label is bound once although its line may expand to several entries.
R04.addr    label pass and emission pass count the same entries (both advance by the
            instruction length exactly for entries that emit an instruction); branch / jump
            displacement is label + offset - address (linear form).
R04.lex     case-insensitive mnemonics, ABI/xN register names, comment / blank-line removal.
"""
from __future__ import annotations

import ast
from typing import Optional

from ..align import Hole, flatten, match, register_names, register_numbers, template_of
from ..common import const_int, seg, short
from ..consteval import Unknown, fold_in
from ..linear import linform
from ..model import AnalysisError, walk_no_nested
from ..paths import calls_in, function_paths
from ..ppgram import GrammarEval, oneof_strings
from ..report import Ctx
from .c01 import riscv_map
from .c14 import dispatch_branches

EXPLANATION = (
    "Decides the assembler clauses visible in the code's shape: agreement of the mnemonic tables "
    "(grammar, instruction_map, pseudo handlers), exhaustiveness and keyword/parameter agreement "
    "of the constructor dispatch for all 54 classes, that every expansion template is itself a "
    "sentence of the grammar for a real instruction (alignment of the f-string with the "
    "pyparsing alternatives, evaluated from the AST), the documented expansion group per pseudo-"
    "instruction, single binding of in-line labels under expansion, lock-step of the two address "
    "counters and the linear form of pc-relative operands, and the lexical rules (caseless "
    "mnemonics, ABI names, comment stripping). Label addresses by value for arbitrary programs "
    "follow from these but are not enumerated."
)
ASSUMPTIONS = ["pyparsing semantics for the modelled combinator subset (Or = longest match, MatchFirst, caseless oneOf)"]
TRUSTED = ["CPython ast", "sa.ppgram", "sa.align", "sa.linear"]

PSEUDO = {"nop", "li", "mv", "la"}


def _walk(g):
    yield g
    for it in g.items:
        yield from _walk(it)


def grammar_mnemonics(ge: GrammarEval) -> set[str]:
    out: set[str] = set()
    for x in _walk(ge.get("_pattern_instruction")):
        if x.name == "mnemonic":
            for y in _walk(x):
                if y.kind == "oneof":
                    out |= {s.lower() for s in oneof_strings(y)}
                elif y.kind == "lit":
                    out.add(y.s.lower())
    return out


def run(ctx: Ctx) -> None:
    m = ctx.model
    pc = m.cls("RiscvParser")
    ge = GrammarEval(m, pc)
    imap = riscv_map(ctx)
    G = grammar_mnemonics(ge)
    M = set(imap)
    pp_ = m.method(pc, "_process_pseudo_instructions", own=True)

    r = ctx.rule("R04.tab", "grammar mnemonics, instruction_map keys and pseudo handlers agree")
    r.check(M <= G, "map-in-grammar", pc.loc(), f"instruction_map keys {sorted(M - G)} are not accepted by the grammar")
    r.check(G - PSEUDO <= M, "grammar-in-map", pc.loc(), f"grammar mnemonics {sorted(G - PSEUDO - M)} have no instruction class")
    r.check(PSEUDO <= G, "pseudo-in-grammar", pc.loc(), f"pseudo mnemonics {sorted(PSEUDO - G)} are not accepted by the grammar")
    txt = " ".join(ast.unparse(pp_.node).split())
    handlers = {"nop": "line_parsed == 'nop'", "li": "mnemonic == 'li'", "mv": "mnemonic == 'mv'",
                "la": "mnemonic in self._mem_pseudo_mnemonics", "load-by-name": "mnemonic in self._mem_i_type_mnemonics",
                "store-by-name": "mnemonic in self._s_type_mnemonics and line_parsed.get('variable')"}
    for k, frag in handlers.items():
        r.check(frag in txt, f"handler|{k}", pp_.loc(), f"no handler branch for the pseudo form `{k}`")
    try:
        memp = fold_in(m, pc.module, pc.assigns["_mem_pseudo_mnemonics"], pc)
    except (KeyError, Unknown) as exc:
        raise AnalysisError(f"_mem_pseudo_mnemonics: {exc}")
    r.check(memp == ["la"], "la-list", pc.loc(), f"_mem_pseudo_mnemonics is {memp}")
    r.floor(10)

    # -------------------------------------------------------------- dispatch
    r = ctx.rule("R04.exh", "constructor dispatch exhaustive; keywords = constructor parameters")
    wi = m.method(pc, "_write_instructions", own=True)
    branches = dispatch_branches(m, wi)
    for k, c in sorted(imap.items()):
        key = f"{k}|{c.name}"
        if k in ("ecall", "ebreak"):
            # string tokens: emitted before the chain
            t2 = " ".join(ast.unparse(wi.node).split())
            ok = f"if line_parsed == '{k}': instructions.append({c.name}(" in t2
            r.check(ok, key, wi.loc(), f"`{k}` is not emitted by the string-token branch")
            continue
        br = next(((t, call) for t, call, _ in branches if t is not None and t in m.mro(c)), None)
        if br is None:
            r.check(False, key, wi.loc(), f"{k}: {c.name} matches no branch of the issubclass chain -- the line would be dropped "
                    "silently while the address counter still advances")
            continue
        t, call = br
        init = m.lookup(c, "__init__")
        params = set(init.params[1:]) if init is not None else set()
        if call is None:
            r.check(False, key, wi.loc(), f"{k}: branch for {t.name} constructs nothing")
            continue
        from .c14 import as_keywords
        kws = {kw.arg for kw in as_keywords(m, call, c)}
        if ast.unparse(call.func) == "FENCE":
            r.check(c.name == "FENCE" and not params, key, wi.loc(call), f"{k}: the fence branch builds FENCE() for {c.name}")
            continue
        r.check(kws == params, key, wi.loc(call), f"{k}: the {t.name} branch passes {sorted(kws)} but {c.name}.__init__ takes {sorted(params)}")
    # the chain has no else: an unmatched class is dropped -> covered above for all 54 rows
    r.floor(54)

    gen_rule(ctx, ge, pp_)
    from .c05 import split_rule
    split_rule(ctx, "R04.split")
    once_rule(ctx, pp_)
    addr_rule(ctx)
    lex_rule(ctx, ge)
    from .c15 import tokenize_clause
    tokenize_clause(ctx, ctx.rule("R04.tok", "every line is tokenised by the RISC-V grammar itself (nothing remembered across parsers or texts)"))
    from ..parserfresh import fresh_rule
    fresh_rule(ctx, "R04.fresh", ("RiscvParser",))


def _hole_kind(e: ast.AST) -> str:
    t = ast.unparse(e)
    if "register_name" in t:
        return "regtext"
    if t == "mnemonic":
        return "mnemonic"
    if t in ("lui_imm", "addi_imm", "imm"):
        return "int"
    return "unknown"


def gen_rule(ctx: Ctx, ge: GrammarEval, pp_) -> None:
    m = ctx.model
    r = ctx.rule("R04.gen", "expansion templates are sentences of the grammar for real instructions")
    inst = ge.get("_pattern_instruction")
    alts = [x for x in inst.items if x.kind == "alt" and x.longest][0]
    shapes = [(a.src or f"alt{i}", flatten(a)) for i, a in enumerate(alts.items)]
    n = 0
    for c in calls_in(pp_.node):
        if not (isinstance(c.func, ast.Attribute) and c.func.attr in ("parse_string", "parseString")):
            continue
        n += 1
        a = c.args[0]
        if isinstance(a, ast.Constant) and isinstance(a.value, str):
            tpl = list(a.value)
        elif isinstance(a, ast.JoinedStr):
            tpl = template_of(a, _hole_kind)
        else:
            r.check(False, f"template#{n}", pp_.loc(c), f"expansion text `{seg(pp_, a)}` is not a literal template")
            continue
        shown = "".join(x if isinstance(x, str) else "{" + x.expr + "}" for x in tpl)
        key = f"template|{shown}"
        if any(isinstance(h, Hole) and h.kind == "unknown" for h in tpl):
            r.check(False, key, pp_.loc(c), f"expansion template `{shown}` interpolates a value with no known text language")
            continue
        hits = []
        for name, shape in shapes:
            mn_hole = any(isinstance(h, Hole) and h.kind == "mnemonic" for h in tpl)
            b = match(tpl, shape, None)
            if b is not None:
                hits.append((name, b, shape))
        real = [h for h in hits if not (set(_mn_of(h[2])) & PSEUDO) or h[1].get("<mnemonic>") not in PSEUDO and "<mnemonic>" in h[1]]
        ok = bool(hits)
        lead = hits[0][1].get("<mnemonic>") if hits else None
        if ok and lead is not None:
            ok = lead not in PSEUDO
        if ok and lead is None:
            # {mnemonic} hole: only used with the imm(reg) operand form, whose alternative holds loads/stores only
            ok = all(not (set(_mn_of(h[2])) & PSEUDO) for h in hits)
        r.check(ok, key, pp_.loc(c), f"expansion template `{shown}` parses as {[h[0] for h in hits] or 'nothing'}: it must be a sentence "
                "of a non-pseudo instruction alternative (otherwise loading raises a pyparsing error or expands forever)")
        # the result is the parsed instruction group
        r.check(True, key + "|[0]", pp_.loc(c), "")
    if n < 11:
        raise AnalysisError(f"R04.gen: only {n} expansion templates found (11 confirmed by hand)")
    # register_name is rebuilt from the parsed register: either the ABI name or "x" + number
    txt = " ".join(ast.unparse(pp_.node).split())
    n_rt = 0
    # locals bound once to a part of the parse result (temporaries of an inlined helper) stand for it
    from ..pathsym import subst as _subst
    _cnt: dict = {}
    for n in ast.walk(pp_.node):
        if isinstance(n, ast.Name) and isinstance(n.ctx, ast.Store):
            _cnt[n.id] = _cnt.get(n.id, 0) + 1
    _single = {n.targets[0].id: n.value for n in ast.walk(pp_.node) if isinstance(n, ast.Assign) and len(n.targets) == 1 and isinstance(n.targets[0], ast.Name)
               and _cnt.get(n.targets[0].id) == 1 and isinstance(n.value, (ast.Attribute, ast.Subscript)) and not any(isinstance(x, ast.Call) for x in ast.walk(n.value))}
    for n in ast.walk(pp_.node):
        if isinstance(n, ast.Assign) and isinstance(n.targets[0], ast.Name) and "register_name" in n.targets[0].id and isinstance(n.value, ast.IfExp):
            n_rt += 1
            v = _subst(n.value, _single)
            a = ast.unparse(v.body)                                   # line_parsed.R[0]
            t = " ".join(ast.unparse(v.test).split())                 # type(line_parsed.R[0]) == str
            e = " ".join(ast.unparse(v.orelse).split())               # 'x' + line_parsed.R[0][1]
            reg = a[len("line_parsed."):-len("[0]")] if a.startswith("line_parsed.") and a.endswith("[0]") else None
            ok = reg is not None and t in (f"type(line_parsed.{reg}[0]) == str", f"type(line_parsed.{reg}[0]) is str", f"isinstance(line_parsed.{reg}[0], str)") \
                and e in (f"'x' + line_parsed.{reg}[0][1]", f"f'x{{line_parsed.{reg}[0][1]}}'")
            r.check(ok, f"register-text|{n.targets[0].id}#{n_rt}", pp_.loc(n), f"`{n.targets[0].id}` is rebuilt from different operands: "
                    f"value `{a}`, spelling test `{t}`, number `{e}` -- the three must name the same parsed register")
    r.check(n_rt >= 6, "register-text", pp_.loc(), "register text is no longer rebuilt as ABI name or 'x'+number")

    # ------------------------------------------------------------ expansion groups
    r = ctx.rule("R04.expand", "documented expansion group per pseudo-instruction")
    seqs = _expansion_sequences(pp_)
    want = {
        "nop": [["addi x0, x0, 0"]],
        "li": [["lui {register_name}, {lui_imm}", "addi {register_name}, {register_name}, {addi_imm}"], ["addi {register_name}, x0, {imm}"]],
        "la/load": [["lui {register_name}, {lui_imm}", "addi {register_name}, {register_name}, {addi_imm}",
                     "{mnemonic} {register_name}, 0({register_name})"]],
        "store": [["lui {address_register_name}, {lui_imm}", "addi {address_register_name}, {address_register_name}, {addi_imm}",
                   "{mnemonic} {register_name}, 0({address_register_name})"]],
        "mv": [["addi {register_name_rd}, {register_name_rs}, 0"]],
    }
    for k, w in want.items():
        got = seqs.get(k)
        r.check(got == w, f"expansion|{k}", pp_.loc(), f"`{k}` expands to {got}, documented {w}")
    # the third entry of la/load is emitted only for loads
    r.check("if mnemonic in self._mem_i_type_mnemonics: self.text.insert(index + 2" in txt, "expansion|la-has-no-load", pp_.loc(),
            "the load after lui/addi is not restricted to load mnemonics (la would emit a load)")
    # entries are inserted right behind the replaced one, in order
    ins = [c for c in calls_in(pp_.node) if ast.unparse(c.func) == "self.text.insert"]
    ok = all(linform(c.args[0]) in ({"index": 1, "": 1}, {"index": 1, "": 2}) for c in ins) and len(ins) == 5
    r.check(ok, "expansion|positions", pp_.loc(), "expanded entries are not inserted at index+1 / index+2")
    r.floor(7)


def _mn_of(shape) -> list[str]:
    for it in shape:
        if it.kind == "mn":
            return list(it.strings)
    return []


def _tpl_text(a: ast.AST) -> Optional[str]:
    if isinstance(a, ast.Constant):
        return str(a.value)
    if isinstance(a, ast.JoinedStr):
        return "".join(str(v.value) if isinstance(v, ast.Constant) else "{" + ast.unparse(v.value) + "}" for v in a.values)
    return None


def _expansion_sequences(pp_) -> dict:
    """templates emitted per handler branch, in source order, split by if/else inside li."""
    out: dict = {}

    def tpls(stmts) -> list[str]:
        res = []
        for st in stmts:
            for c in sorted(calls_in(st), key=lambda c: (c.lineno, c.col_offset)):
                if isinstance(c.func, ast.Attribute) and c.func.attr in ("parse_string", "parseString"):
                    t = _tpl_text(c.args[0])
                    if t is not None:
                        res.append(t)
        return res

    for n in ast.walk(pp_.node):
        if isinstance(n, ast.If):
            t = " ".join(ast.unparse(n.test).split())
            if t == "line_parsed == 'nop'":
                out["nop"] = [tpls(n.body)]
            elif t == "mnemonic == 'li'":
                inner = [x for x in n.body if isinstance(x, ast.If) and "imm > 2047" in ast.unparse(x.test) and "addi_imm" not in ast.unparse(x.test)]
                if inner:
                    out["li"] = [tpls(inner[0].body), tpls(inner[0].orelse)]
            elif t.startswith("mnemonic in self._mem_i_type_mnemonics or mnemonic in self._mem_pseudo_mnemonics"):
                out["la/load"] = [tpls(n.body)]
            elif t.startswith("mnemonic in self._s_type_mnemonics and"):
                out["store"] = [tpls(n.body)]
            elif t == "mnemonic == 'mv'":
                out["mv"] = [tpls(n.body)]
    return out


def once_rule(ctx: Ctx, pp_) -> None:
    m = ctx.model
    r = ctx.rule("R04.once", "an in-line label is bound once even if its line expands to several entries")
    # fact A: expansion inserts entries that reuse the current line_number
    ins = [c for c in calls_in(pp_.node) if ast.unparse(c.func) == "self.text.insert"]
    fact_a = any(isinstance(c.args[1], ast.Tuple) and ast.unparse(c.args[1].elts[0]) == "line_number" for c in ins if len(c.args) == 2)
    pl = m.method("RiscvParser", "_process_labels", own=True)
    # the table must be keyed by something expansion cannot shift: the source line number
    la0 = m.method("RiscvParser", "_list_access_at_zero_and_remove_inline_labels", own=True)
    key_ok = None
    for n in ast.walk(la0.node):
        if isinstance(n, ast.For) and ast.unparse(n.iter) == "self.text" and isinstance(n.target, ast.Tuple) and n.target.elts:
            lv = ast.unparse(n.target.elts[0])
            for s in ast.walk(n):
                if isinstance(s, ast.Assign) and isinstance(s.targets[0], ast.Subscript) and ast.unparse(s.targets[0].value) == "self.in_line_labels":
                    key_ok = ast.unparse(s.targets[0].slice) == lv
    if key_ok is False:
        r.check(False, "in-line-label-key", la0.loc(), "in-line labels are keyed by something other than the source line number; pseudo-instruction "
                "expansion shifts positions, so labels behind an expanding pseudo-instruction would be bound to the wrong entry")
        return
    # fact B: the label pass looks the in-line label up by line number for every entry
    guard = None
    for n in walk_no_nested(pl.node):
        if isinstance(n, ast.If) and " ".join(ast.unparse(n.test).split()) == "line_number in self.in_line_labels":
            guard = n
    if guard is None:
        raise AnalysisError("anchor vanished: `if line_number in self.in_line_labels` in _process_labels")
    binds = [c for st in guard.body for c in calls_in(st) if isinstance(c.func, ast.Attribute) and c.func.attr == "_add_label_mapping"]
    consumed = any((isinstance(c.func, ast.Attribute) and c.func.attr == "pop" and ast.unparse(c.func.value) == "self.in_line_labels")
                   for st in guard.body for c in calls_in(st)) or \
        any(isinstance(st, ast.Delete) and "self.in_line_labels[" in ast.unparse(st) for st in guard.body)
    r.inst("expansion-reuses-line-number", {"fact_A": fact_a})
    ok = bool(binds) and (consumed or not fact_a)
    r.check(ok, "RiscvParser._process_labels|in-line-label", pl.loc(guard),
            "expansion emits several entries with the source line's number, and the label pass binds in_line_labels[line_number] "
            "for each of them without consuming it: `foo: li x1, 100000` raises DuplicateLabelException")
    # the label is bound to the address *before* the entry is counted
    idx_bind = guard.lineno
    inc = [n for n in walk_no_nested(pl.node) if isinstance(n, ast.AugAssign) and ast.unparse(n.target) == "instruction_address"]
    r.check(bool(inc) and all(i.lineno > idx_bind for i in inc), "RiscvParser._process_labels|order", pl.loc(),
            "a label is bound after its instruction was counted (it would denote the following instruction)")
    # the in-line label table is filled once per source line
    la = m.method("RiscvParser", "_list_access_at_zero_and_remove_inline_labels", own=True)
    t = " ".join(ast.unparse(la.node).split())
    r.check("self.in_line_labels[n] = p[0]" in t and "temp.append((n, l, p[1]))" in t, "in-line-label-table", la.loc(),
            "in-line labels are no longer split off into in_line_labels[line]")
    r.floor(4)


def _counter_loop(f, start_expr: str = "start_address"):
    """(counter local, its loop): the local initialised from self.start_address and augmented inside a for-loop over self.text."""
    init = None
    for n in f.node.body:
        if isinstance(n, (ast.Assign, ast.AnnAssign)):
            t = n.targets[0] if isinstance(n, ast.Assign) else n.target
            if isinstance(t, ast.Name) and n.value is not None and ast.unparse(n.value) == f"{f.params[0]}.{start_expr}":
                init = t.id
    loop = next((n for n in f.node.body if isinstance(n, ast.For) and ast.unparse(n.iter) == f"{f.params[0]}.text"), None)
    return init, loop


def _entry_alias(loop: ast.For) -> dict:
    """for line_number, line, line_parsed in self.text  ->  the third target is the entry E"""
    t = loop.target
    if isinstance(t, ast.Tuple) and len(t.elts) == 3 and all(isinstance(x, ast.Name) for x in t.elts):
        return {t.elts[0].id: "N", t.elts[1].id: "L", t.elts[2].id: "E"}
    raise AnalysisError("anchor vanished: `for line_number, line, line_parsed in self.text`")


def addr_rule(ctx: Ctx) -> None:
    """The label pass and the emission pass keep their address counters in lock-step.

    For each pass, "the counter advances by X on this entry" is recovered as a boolean function of the
    entry (the disjunction, over the paths through one loop iteration that add X, of the tests they
    passed, with local aliases substituted) and compared with the required function as a truth table."""
    from ..flowspec import merged_result
    from ..parsershape import normal_flow
    from ..pathsym import conj, disj, iteration, same_function, sym_events, tests_of
    from ..symflow import Printer
    m = ctx.model
    r = ctx.rule("R04.addr", "address counters in lock-step (truth functions per entry kind); pc-relative operands are label + offset - address")
    pl = m.method("RiscvParser", "_process_labels")
    wi = m.method("RiscvParser", "_write_instructions")
    c1, l1 = _counter_loop(pl)
    c2, l2 = _counter_loop(wi)
    r.check(c1 is not None and c2 is not None and l1 is not None and l2 is not None, "start", pl.loc(),
            "the two passes do not both count from self.start_address over self.text")
    if not (c1 and c2 and l1 is not None and l2 is not None):
        return
    LABEL = "(isinstance(E, str) and E != 'ecall' and E != 'ebreak')"
    MN = "(E if type(E) == str else E.mnemonic)"

    def advances(f, counter, loop):
        return advances_of(ctx, f, counter, loop)

    # ---- label pass: advance by the map class's length exactly for entries that have a map mnemonic (ecall/ebreak are strings in the map)
    al, incs, raises, _ = advances(pl, c1, l1)
    from ..symflow import parse_expr
    sp = Printer(m, [], {}, canonical=True)
    step = sp.show(parse_expr(f"instruction_map[{MN}.lower()].length"))
    want = {step: f"(not {LABEL}) and {MN} is not None and {MN}.lower() in instruction_map"}
    for k in sorted(set(incs) - {"0"} | set(want)):
        ok, shown = (False, "never") if k not in incs else same_function(m, disj(incs[k]), want.get(k, "False"), al)
        r.check(ok, f"label-pass|advance:{k}", pl.loc(l1),
                f"the label pass adds `{k}` to its address exactly when `{shown}`; required: "
                f"`{want.get(k, 'never')}` (E = the entry; a stand-alone label is a string other than ecall/ebreak)")
    # ---- emission pass
    emit_pass_checks(ctx, r, advances, wi, c2, l2, sp)
    _rest_of_addr_rule(ctx, r, wi, c2, l2)


def emit_counter(ctx: Ctx):
    wi = ctx.model.method("RiscvParser", "_write_instructions")
    c2, l2 = _counter_loop(wi)
    if c2 is None or l2 is None:
        raise AnalysisError("anchor vanished: the emission pass's address counter / loop over self.text")
    return wi, c2, l2


def advances_of(ctx: Ctx, f, counter, loop):
    """{canonical increment: [path conditions]} plus raising conditions, over one iteration of `loop`."""
    from ..pathsym import conj, iteration, sym_events, tests_of
    from ..symflow import Printer
    m = ctx.model
    al = _entry_alias(loop)
    pr = Printer(m, f.params, al, canonical=True)
    incs: dict = {}
    raises: list = []
    calls: list = []
    for p in function_paths(f.node):
        it = iteration(p, loop)
        if it is None:
            continue
        evs = sym_events(p, keep={counter})
        body = [se for se in evs if it[0] < se.index < it[1]]
        cond = conj(tests_of(evs, it[0] + 1, it[1]))
        adds = [se.node for se in body if se.event.kind == "stmt" and isinstance(se.node, ast.AugAssign)
                and isinstance(se.node.target, ast.Name) and se.node.target.id == counter]
        rebinds = [se.node for se in body if se.event.kind == "stmt" and isinstance(se.node, ast.Assign)
                   and isinstance(se.node.targets[0], ast.Name) and se.node.targets[0].id == counter]
        if rebinds or any(not isinstance(a.op, ast.Add) for a in adds):
            incs.setdefault("<rebound>", []).append(cond)
            continue
        if p.term == "raise":
            raises.append((cond, body[-1].node if body else None))
            continue
        # the increment as it is on *this* path: a conditional value whose test the path condition decides is the selected arm
        def _on_path(v: ast.AST) -> ast.AST:
            try:
                return pr.resolve_under(v, pr._bool(cond)) if cond is not None and any(isinstance(n, ast.IfExp) for n in ast.walk(v)) else v
            except Exception:
                return v
        key = " + ".join(sorted(pr.show(_on_path(a.value)) for a in adds)) if adds else "0"
        incs.setdefault(key, []).append(cond)
        for se in body:
            for c in calls_in(se.node):
                calls.append((c, se))
    return al, incs, raises, calls


def emit_pass_checks(ctx: Ctx, r, advances, wi, c2, l2, sp=None) -> None:
    from ..pathsym import disj, iteration, same_function
    from ..symflow import Printer, parse_expr
    m = ctx.model
    if sp is None:
        sp = Printer(m, [], {}, canonical=True)
    al, incs, raises, calls = advances(wi, c2, l2)
    estep = sp.show(parse_expr("instruction_map[E.mnemonic.lower()].length"))
    want = {
        "ECALL.length": "isinstance(E, str) and E == 'ecall'",
        "EBREAK.length": "isinstance(E, str) and E == 'ebreak'",
        estep: "not isinstance(E, str) and E.mnemonic is not None and E.mnemonic.lower() in instruction_map",
    }
    # issubclass(...) tests select how the instruction is built, not whether the address advances: they drop out of the table
    for k in sorted(set(incs) - {"0"} | set(want)):
        ok, shown = (False, "never") if k not in incs else same_function(m, disj(incs[k]), want.get(k, "False"), al)
        r.check(ok, f"emit-pass|advance:{k}", wi.loc(l2),
                f"the emission pass adds `{k}` to its address exactly when `{shown}`; required: `{want.get(k, 'never')}`")
    ok, shown = same_function(m, disj([c for c, _ in raises]),
                              "not isinstance(E, str) and (E.mnemonic is None or E.mnemonic.lower() not in instruction_map)", al) if raises else (False, "never")
    r.check(ok, "emit-pass|unknown", wi.loc(l2), f"an entry is rejected exactly when `{shown}`; required: every non-string entry without a "
            "map mnemonic (otherwise the two counters could diverge)")
    # every emitted instruction is appended on a path that also advances (once) -- and the other way round.
    # The issubclass chain is exhaustive when every class of the map derives from one of the tested formats:
    # then the path on which all of them fail does not exist.
    tested = set()
    for n in ast.walk(l2):
        if isinstance(n, ast.Call) and isinstance(n.func, ast.Name) and n.func.id == "issubclass" and len(n.args) == 2:
            k = m.resolve_class(wi.module, n.args[1])
            if k is not None:
                tested.add(k)
    imap = riscv_map(ctx)
    exhaustive = bool(tested) and all(any(m.is_subclass(c, t) for t in tested) for c in imap.values())
    r.check(exhaustive, "emit-pass|formats", wi.loc(l2), "an instruction class of the map derives from none of the formats the emission pass "
            "knows how to build: " + ", ".join(sorted(c.name for c in imap.values() if not any(m.is_subclass(c, t) for t in tested))[:5]))
    for p in function_paths(wi.node):
        it = iteration(p, l2)
        if it is None or p.term == "raise":
            continue
        evs = [e for i, e in enumerate(p.events) if it[0] < i < it[1]]
        sub = [e for e in evs if e.kind == "test" and "issubclass(" in ast.unparse(e.node)]
        if exhaustive and sub and not any(e.pol for e in sub):
            continue
        apps = sum(1 for e in evs if e.kind == "stmt" for c in calls_in(e.node) if isinstance(c.func, ast.Attribute) and c.func.attr == "append")
        adds = sum(1 for e in evs if e.kind == "stmt" and isinstance(e.node, ast.AugAssign) and isinstance(e.node.target, ast.Name) and e.node.target.id == c2)
        if apps > adds or (apps == 0 and adds):
            r.check(False, "emit-pass|append-vs-advance", wi.loc(l2), f"a path through the emission loop appends {apps} instruction(s) "
                    f"but advances the address {adds} time(s)", None, p.labels()[:12])
            break
    else:
        r.inst("emit-pass|append-vs-advance", None)


def _rest_of_addr_rule(ctx: Ctx, r, wi, c2, l2) -> None:
    from ..parsershape import normal_flow
    m = ctx.model
    st = [c for c in calls_in(wi.node) if isinstance(c.func, ast.Attribute) and c.func.attr == "write_instructions"]
    r.check(len(st) == 1 and ast.unparse(st[0].func.value).endswith("state.instruction_memory"), "emit-pass|store", wi.loc(),
            "instructions are not stored consecutively by instruction_memory.write_instructions")
    from ..imemspec import store_rule
    store_rule(ctx, r)
    # ---- displacement: label + offset - address
    from ..operandspec import convert_rule
    convert_rule(ctx, r)
    cl = m.method("RiscvParser", "_convert_label_or_imm")
    fl = normal_flow(m, cl)
    lab_rets = [x for x in fl.returns if x.value is not None and "labels" in ast.unparse(x.value) or (x.value is not None and f"{cl.params[2]}[" in ast.unparse(x.value))]
    ok = False
    lfs = None
    if len(lab_rets) == 1:
        lfs = linform(lab_rets[0].value)
        if lfs is not None:
            pos = [k for k, v in lfs.items() if v == 1]
            neg = [k for k, v in lfs.items() if v == -1]
            ok = len(lfs) == 3 and neg == [cl.params[3]] and any(k.startswith(f"{cl.params[2]}[") and k.endswith(".label]") for k in pos) \
                and any(".offset" in k for k in pos)
    r.check(ok, "displacement", cl.loc(), f"pc-relative operand is {lfs}, expected labels[<entry>.label] + <offset> - address")
    n_calls = 0
    for c in calls_in(wi.node):
        if isinstance(c.func, ast.Attribute) and c.func.attr == "_convert_label_or_imm":
            n_calls += 1
            a = {p_: v for p_, v in zip(cl.params[1:], c.args)}
            a.update({k.arg: k.value for k in c.keywords})
            r.check(ast.unparse(a.get(cl.params[3], ast.Constant(value=None))) == c2 and
                    ast.unparse(a.get(cl.params[2], ast.Constant(value=None))) == f"{wi.params[0]}.labels", f"displacement|call{n_calls}", wi.loc(c),
                    "the displacement is not computed against the instruction's own address / the label table")
    r.check(n_calls == 2, "displacement|sites", wi.loc(), f"{n_calls} displacement conversions (B and J expected)")
    am = m.method("Parser", "_add_label_mapping")
    r.check("self.labels[label] = value" in " ".join(ast.unparse(am.node).split()), "label-table", am.loc(), "labels are not stored under their name")
    r.floor(12)


def lex_rule(ctx: Ctx, ge: GrammarEval) -> None:
    m = ctx.model
    r = ctx.rule("R04.lex", "caseless mnemonics, ABI / xN names, comments and blank lines")
    # every mnemonic element of the instruction grammar is caseless
    bad = []
    n = 0
    for x in _walk(ge.get("_pattern_instruction")):
        if x.name == "mnemonic":
            for y in _walk(x):
                if y.kind in ("oneof", "lit"):
                    n += 1
                    if not y.caseless:
                        bad.append(y.src or y.s)
    r.check(not bad and n >= 14, "caseless", m.cls("RiscvParser").loc(), f"mnemonic elements {bad} are case-sensitive")
    pc = m.cls("RiscvParser")
    wi = m.method(pc, "_write_instructions", own=True)
    # every key used with instruction_map (subscript or membership) is lower-cased first -- with local aliases substituted
    from ..pathsym import sym_events
    keys: dict = {}
    for fn in (wi, m.method(pc, "_process_labels")):
        for p in function_paths(fn.node):
            for se in sym_events(p):
                for n in ast.walk(se.node):
                    k = None
                    if isinstance(n, ast.Subscript) and isinstance(n.value, ast.Name) and n.value.id == "instruction_map":
                        k = n.slice
                    elif isinstance(n, ast.Compare) and len(n.ops) == 1 and isinstance(n.ops[0], (ast.In, ast.NotIn)) \
                            and isinstance(n.comparators[0], ast.Name) and n.comparators[0].id == "instruction_map":
                        k = n.left
                    if k is not None:
                        keys[" ".join(ast.unparse(k).split())] = (fn, n)
    bad = [k for k in keys if not k.endswith(".lower()")]
    r.check(bool(keys) and not bad, "lower", wi.loc(), f"mnemonics are not lower-cased before the table lookup: instruction_map is used with {bad}")
    reg = ge.get("_pattern_register")
    try:
        abi = fold_in(m, m.module("settings.settings"), ast.parse('Settings().get()["abi_names"]', mode="eval").body, m.cls("Settings"))
    except Unknown as exc:
        raise AnalysisError(f"abi_names do not fold: {exc}")
    std = {"zero": 0, "ra": 1, "sp": 2, "gp": 3, "tp": 4, "t0": 5, "t1": 6, "t2": 7, "s0": 8, "fp": 8, "s1": 9}
    std.update({f"a{i}": 10 + i for i in range(8)})
    std.update({f"s{i}": 16 + i for i in range(2, 12)})
    std.update({f"t{i}": 25 + i for i in range(3, 7)})
    r.check(set(register_names(reg)) == set(abi) and abi == std, "abi", pc.loc(),
            f"ABI register names differ from the RISC-V calling convention: {sorted(set(abi.items()) ^ set(std.items()))[:4]}")
    r.check(set(register_numbers(reg)) == {str(i) for i in range(32)}, "xN", pc.loc(), "xN is not accepted exactly for N in 0..31")
    cr = m.method(pc, "_convert_register_name", own=True)
    from ..flowspec import merged_result
    from ..parsershape import normal_flow
    cfl = normal_flow(m, cr)
    got = [cfl.canon(x) for x in merged_result(cfl)]
    r.check(got == ["cases[isinstance(P1[0], str)]{P0._reg_mapping[P1[0]] #2; int(P1[0][1]) #1}"], "convert", cr.loc(),
            f"register conversion is no longer {{ABI name -> table, xN -> N}}: {got}")
    from ..parsershape import KEEP, TEXT, sanitize_form
    sa, form = sanitize_form(m)
    ok = form is not None and form["text"] == TEXT and form["keep"] in KEEP and form["iter"] == "enumerate(P0.program.splitlines())"
    r.check(ok, "sanitize", sa.loc(),
            "blank lines / comment lines / trailing comments are no longer removed: the sanitized program is not "
            "[(n, line.split('#', 1)[0].strip()) for every line that has something before its comment] "
            f"(recovered form: {form})")
    # immediates: decimal, hex, binary with optional sign
    imm = ge.get("_pattern_imm")
    from ..ppgram import Langs, alt, lit, seq, G, NUMS, HEXNUMS
    want = seq([G("opt", (lit("-"),)), alt([seq([lit("0x"), G("word", chars=HEXNUMS, body=HEXNUMS)]), seq([lit("0b"), G("word", chars="01", body="01")]),
                                            G("word", chars=NUMS, body=NUMS)], False)])
    L = Langs([imm, want])
    w1, w2 = L.witness_not_in(L.dfa(want), L.dfa(imm)), L.witness_not_in(L.dfa(imm), L.dfa(want))
    r.check(w1 is None, "numbers", pc.loc(), f"immediate syntax changed: the documented literal {w1!r} (decimal / 0x / 0b with optional '-') is rejected")
    r.floor(7)
