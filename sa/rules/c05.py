"""C05 -- data segment layout, name[i] addressing, li constants (structural clauses).

R05.types   per-type layout table in _write_data: recorded element size, stride, writer and
            cast agree (byte 1/+1/write_byte/UInt8, half 2/+2/write_halfword/UInt16, word
            4/+4/write_word/UInt32, string 1/+1 bytes plus a zero terminator, zero: element
            size 4 and a reservation of 4*n); every declaration starts word-aligned; all
            preloads are direct writes.
R05.split   the three copies of the upper-20/lower-12 split (li; la/load-by-name; store-by-
            name) are structurally identical up to the source variable, and their constants
            are the I-type geometry: >> 12, & 0xFFF, carry when the low part > 2047, with
            12 = I-immediate width = LUI shift.
R05.index   name[i] = base + i * element size; unknown names are rejected first.
R05.base    layout starts at the first data address of the memory, in declaration order;
            data is written before pseudo-instructions are expanded, whatever the segment order.
"""
from __future__ import annotations

import ast
from typing import Optional

from ..common import const_int, seg, short
from ..consteval import Unknown, fold_in
from ..linear import linform
from ..model import AnalysisError, walk_no_nested
from ..paths import calls_in, event_exprs
from ..report import Ctx

SEGMENT_REF = '''
def _segment(self):
    self.data = []
    self.text = []
    if self.token_list == []:
        return
    data_exists = False
    text_exists = True
    self.text = self.token_list
    if not isinstance(self.token_list[0][2][0], str):
        if self.token_list[0][2][0].get("directive") == "data":
            data_exists = True
            text_exists = False
            self.data = self.token_list[1:]
            self.text = []
        elif self.token_list[0][2][0].get("directive") == "text":
            self.text = self.token_list[1:]
    for line_number, line, line_parsed in self.token_list[1:]:
        if isinstance(line_parsed[0], str):
            continue
        line_parsed[0].get("directive")
        if line_parsed[0].get("directive") == "data":
            if not data_exists:
                data_exists = True
                index = self.text.index((line_number, line, line_parsed))
                self.data = self.text[index + 1:]
                self.text = self.text[:index]
            else:
                raise ParserDirectiveException(line_number=line_number, line=line)
        elif line_parsed[0].get("directive") == "text":
            if not text_exists:
                text_exists = True
                index = self.data.index((line_number, line, line_parsed))
                self.text = self.data[index + 1:]
                self.data = self.data[:index]
            else:
                raise ParserDirectiveException(line_number=line_number, line=line)
        elif line_parsed.get("directive") is not None:
            raise ParserDirectiveException(line_number=line_number, line=line)
'''

EXPLANATION = (
    "Decides the layout rules row by row: for each declaration type the element size recorded for "
    "name[i] addressing, the stride the address counter advances by, the memory writer and the "
    "fixed-width cast must describe the same width; word alignment precedes every declaration; "
    "the lui/addi split exists in three copies, which are compared as clones and whose constants "
    "are checked against the I-type immediate geometry (so the carry compensation sits exactly at "
    "the 12-bit sign boundary in all of them); index arithmetic is a linear form. That "
    "li rd, c leaves c mod 2^32 for every c is arithmetic over values and is argued only through "
    "these constants and R01.immw, not enumerated."
)
ASSUMPTIONS = ["fixedint UInt8/16/32 reduce modulo the element width (library semantics)"]
TRUSTED = ["CPython ast", "sa.consteval", "sa.linear"]

TYPES = {
    "byte": (1, 1, "write_byte", "UInt8"),
    "half": (2, 2, "write_halfword", "UInt16"),
    "word": (4, 4, "write_word", "UInt32"),
}


def _branches(f) -> dict[str, ast.If]:
    out = {}
    for n in ast.walk(f.node):
        if isinstance(n, ast.If) and isinstance(n.test, ast.Compare) and ast.unparse(n.test.left) == "line_parsed.type.type" \
                and isinstance(n.test.comparators[0], ast.Constant):
            out[n.test.comparators[0].value] = n
    return out


def _recorded(body: list[ast.stmt]) -> Optional[ast.AST]:
    """element-size expression recorded by `self.variables.update({name: (address_counter, SIZE)})`"""
    for st in body:
        for c in calls_in(st):
            if ast.unparse(c.func) == "self.variables.update" and c.args and isinstance(c.args[0], ast.Dict):
                v = c.args[0].values[0]
                if isinstance(v, ast.Tuple) and len(v.elts) == 2 and ast.unparse(v.elts[0]) == "address_counter":
                    return v.elts[1]
        if isinstance(st, ast.Assign) and ast.unparse(st.targets[0]).startswith("self.variables[") and isinstance(st.value, ast.Tuple):
            if ast.unparse(st.value.elts[0]) == "address_counter":
                return st.value.elts[1]
    return None


def _layout_starts(ctx: Ctx, r, wd) -> None:
    """Where declarations start, by abstract interpretation over residues mod 4.

    The address counter is c = 4*q + k with q symbolic and k = 0..3 concrete (four runs).  (1) The code in front of
    the declaration loop must turn START = memory.get_address_range().start into START rounded up to a multiple
    of 4.  (2) On every path through one iteration of the loop that records a variable, the recorded address must
    be the counter at the start of the iteration rounded up to a multiple of 4 -- whatever the previous declaration
    left behind.  How the rounding is written (`if c % 4: c += 4 - c % 4`, `(c + 3) & ~3`, a helper) is irrelevant."""
    from ..absrun import AbsRun
    from ..bitslice import Form, Inconclusive
    from ..pathsym import iteration
    from ..paths import function_paths
    m = ctx.model
    s0 = wd.params[0]
    loop, cn = _find_loop_and_counter(ctx, wd)
    START = f"{s0}.state.memory.get_address_range().start"
    recs = _recordings(loop, s0)
    if len(recs) < 3:
        raise AnalysisError(f"R05.types: only {len(recs)} variable recordings found in _write_data")

    def rounded(k: int, sym: str) -> Form:
        return Form.var(sym).scale(4) + Form.k(4 if k else 0)

    # (1) before the loop
    pre = wd.node.body[:wd.node.body.index(loop)]
    for k in range(4):
        run = AbsRun(m, wd, {START: Form.var("q").scale(4) + Form.k(k)}, {})
        run.lenient = True
        try:
            run.block(pre)
            got = run.env.get(cn)
        except Inconclusive as exc:
            raise AnalysisError(f"R05.types: the code before the declaration loop is outside the abstract interpreter: {exc}")
        ok = got is not None and got == rounded(k, "q")
        r.check(ok, f"start|base%4={k}", wd.loc(), f"with the first data address = 4q+{k}, the layout starts at "
                f"{got.describe() if got is not None else 'an unknown address'}; it must start at memory.get_address_range().start "
                f"rounded up to a word boundary ({rounded(k, 'q').describe()})")
    # (2) every recording path of one iteration
    rec_ids = {id(n) for n, _ in recs}
    seen: set = set()
    n_paths = 0
    for p in function_paths(wd.node):
        it = iteration(p, loop)
        if it is None:
            continue
        evs = p.events[it[0] + 1:it[1]]
        ridx = None
        for i, e in enumerate(evs):
            if e.kind == "stmt" and (id(e.node) in rec_ids or any(id(x) in rec_ids for x in ast.walk(e.node))):
                ridx = i
                break
        if ridx is None:
            continue
        sig = tuple((id(e.node), e.pol) for e in evs[:ridx + 1])
        if sig in seen:
            continue
        seen.add(sig)
        n_paths += 1
        rec_node = next(n for n, _ in recs if id(n) in {id(x) for x in ast.walk(evs[ridx].node)} | {id(evs[ridx].node)})
        tup = next(t for n, t in recs if n is rec_node)
        kind = next((ast.unparse(e.node.comparators[0]).strip("'\"") for e in evs[:ridx] if e.kind == "test" and e.pol
                     and isinstance(e.node, ast.Compare) and ast.unparse(e.node.left).endswith(".type.type")), "?")
        for k in range(4):
            run = AbsRun(m, wd, {cn: Form.var("c").scale(4) + Form.k(k)}, {})
            run.lenient = True
            try:
                if not run.run_events(evs[:ridx]):
                    continue  # this path does not exist for this residue
                got = run.ev.ev(tup.elts[0])
            except Inconclusive as exc:
                raise AnalysisError(f"R05.types: the path to the .{kind} recording is outside the abstract interpreter: {exc}")
            ok = got == rounded(k, "c")
            r.check(ok, f"alignment|.{kind}|counter%4={k}", wd.loc(rec_node), f".{kind}: when the previous declaration ends at 4c+{k}, "
                    f"the variable is recorded at {got.describe()}; every declaration must start on the next 4-byte boundary "
                    f"({rounded(k, 'c').describe()})", None, [x.label() for x in evs[:ridx + 1]][-8:])
    if n_paths < 5:
        raise AnalysisError(f"R05.types: only {n_paths} recording paths through the declaration loop")


def _find_loop_and_counter(ctx: Ctx, wd):
    """(declaration loop, counter name): the counter is the local that holds (a function of) the first data address when
    the declaration loop is entered."""
    from ..absrun import AbsRun
    from ..bitslice import Form, Inconclusive
    m = ctx.model
    s0 = wd.params[0]
    loop = next((n for n in wd.node.body if isinstance(n, ast.For) and ast.unparse(n.iter) == f"{s0}.data"), None)
    if loop is None:
        raise AnalysisError("anchor vanished: `for ... in self.data` in _write_data")
    START = f"{s0}.state.memory.get_address_range().start"
    run = AbsRun(m, wd, {START: Form.var("q").scale(4)}, {})
    run.lenient = True
    try:
        run.block(wd.node.body[:wd.node.body.index(loop)])
    except Inconclusive as exc:
        raise AnalysisError(f"R05.types: the code before the declaration loop is outside the abstract interpreter: {exc}")
    used = {n.id for n in ast.walk(loop) if isinstance(n, ast.Name) and isinstance(n.ctx, ast.Load)}
    cands = sorted(k for k, v in run.env.items() if k.isidentifier() and k in used and any(sym == "q" for (sym, _b) in list(v.bits) + list(v.tails)))
    if not cands:
        # not derived from the first data address (reported by the start|base check): the local the loop keeps advancing
        stored = {n.id for n in ast.walk(loop) if isinstance(n, ast.Name) and isinstance(n.ctx, ast.Store)}
        cands = sorted(k for k in run.env if k.isidentifier() and k in used and k in stored)
    if len(cands) != 1:
        raise AnalysisError(f"R05.types: the running address counter of _write_data is not recognisable (candidates {cands})")
    return loop, cands[0]


def _recordings(loop: ast.AST, s0: str) -> list:
    recs = []
    for n in ast.walk(loop):
        tup = None
        if isinstance(n, ast.Assign) and ast.unparse(n.targets[0]).startswith(f"{s0}.variables[") and isinstance(n.value, ast.Tuple):
            tup = n.value
        if isinstance(n, ast.Call) and ast.unparse(n.func) == f"{s0}.variables.update" and n.args and isinstance(n.args[0], ast.Dict) \
                and n.args[0].values and isinstance(n.args[0].values[0], ast.Tuple):
            tup = n.args[0].values[0]
        if tup is not None and len(tup.elts) == 2:
            recs.append((n, tup))
    return recs


def _type_rows(ctx: Ctx, r, wd) -> None:
    """Per declaration type, on every path through one iteration of the declaration loop (inner element loop unfolded once):
    the recorded (address, element size), every memory write (method, address, cast, direct flag), the address the next
    element would be written to, and the counter the next declaration sees -- all as linear forms over the counter at the
    start of the iteration (sa.absrun), so helpers, tables, cached locals and temporaries do not matter."""
    from ..absrun import AbsRun
    from ..bitslice import Form, Inconclusive
    from ..pathsym import iteration, sym_events
    from ..paths import function_paths
    m = ctx.model
    s0 = wd.params[0]
    loop, cn = _find_loop_and_counter(ctx, wd)
    recs = _recordings(loop, s0)
    rec_ids = {id(n): t for n, t in recs}
    seen: set = set()
    per_kind: dict = {}

    for p in function_paths(wd.node):
        it = iteration(p, loop)
        if it is None:
            continue
        sig = tuple((id(e.node), e.pol, e.kind) for e in p.events[it[0] + 1:it[1]])
        if sig in seen:
            continue
        seen.add(sig)
        sev = [se for se in sym_events(p) if it[0] < se.index < it[1]]
        pos, neg = set(), set()
        for se in sev:
            if se.event.kind == "test" and isinstance(se.node, ast.Compare) and len(se.node.ops) == 1 and isinstance(se.node.ops[0], ast.Eq) \
                    and ast.unparse(se.node.left).endswith(".type.type") and isinstance(se.node.comparators[0], ast.Constant):
                (pos if se.event.pol else neg).add(se.node.comparators[0].value)
        if len(pos) != 1 or pos & neg:
            continue
        kind = next(iter(pos))
        # replay
        writes: list = []
        state = {"inner": None, "depth": 0}

        def hook(c: ast.Call, ev):
            if isinstance(c.func, ast.Attribute) and c.func.attr.startswith("write_") and not getattr(c, "_seen_write", False):
                args = list(c.args)
                kw = {k.arg: k.value for k in c.keywords}
                addr = args[0] if args else kw.get("address")
                val = args[1] if len(args) > 1 else kw.get("value")
                direct = args[2] if len(args) > 2 else kw.get("directly_write_to_lower_memory")
                try:
                    af = ev.ev(addr) if addr is not None else None
                except Inconclusive:
                    af = None
                val = ev.resolve_alias(val) if val is not None and hasattr(ev, "resolve_alias") else val
                cast = inner = "?"
                if isinstance(val, ast.Call):
                    fn = ev.resolve_alias(val.func) if hasattr(ev, "resolve_alias") else val.func
                    cast = ast.unparse(fn).split(".")[-1]
                    inner = " ".join(ast.unparse(val.args[0]).split()) if val.args else ""
                writes.append({"method": c.func.attr, "addr": af, "addr_expr": addr, "cast": cast, "arg": inner,
                               "direct": isinstance(direct, ast.Constant) and direct.value is True, "in_loop": state["inner"] is not None,
                               "line": getattr(c, "lineno", 0)})
                return Form.k(0)
            if isinstance(c.func, ast.Attribute) and c.func.attr == "_literal_to_int":
                return Form.var("n")
            return None

        run = AbsRun(m, wd, {cn: Form.var("c").scale(4)}, {}, on_call=hook)
        run.lenient = True
        rec = None
        a_next = None
        inner_iter = None
        inner_target = None
        feasible = True
        try:
            for e in p.events[it[0] + 1:it[1]]:
                if e.kind == "loop" and isinstance(e.node, ast.For):
                    if e.pol:
                        state["inner"] = e.node
                        inner_iter = " ".join(ast.unparse(e.node.iter).split())
                        inner_target = ast.unparse(e.node.target)
                    else:
                        inner_iter = inner_iter or " ".join(ast.unparse(e.node.iter).split())
                if e.kind == "loopend" and e.node is state["inner"]:
                    w_in = [w for w in writes if w["in_loop"]]
                    if w_in and w_in[-1]["addr_expr"] is not None:
                        try:
                            a_next = run.ev.ev(w_in[-1]["addr_expr"])
                        except Inconclusive:
                            a_next = None
                    state["inner"] = None
                if e.kind == "stmt":
                    hit = next((t for n, t in recs if n is e.node or any(x is n for x in ast.walk(e.node))), None)
                    if hit is not None and rec is None:
                        try:
                            rec = (run.ev.ev(hit.elts[0]), run.ev.ev(hit.elts[1]), e.node)
                        except Inconclusive:
                            rec = (None, None, e.node)
                if not run.run_events([e]):
                    feasible = False
                    break
            c_end = run.env.get(cn)
        except Inconclusive as exc:
            # the interpreter cannot follow this path.  One thing is still decided from the calls on it: elements of a declaration are
            # stored one by one through the accessor of their own width (each element reduced modulo its width by the cast in front
            # of the call); a path that stores them through another accessor (bytes packed into words ..) does something else
            want_acc = {"byte": {"write_byte"}, "half": {"write_halfword"}, "word": {"write_word"}, "string": {"write_byte"}, "zero": set()}.get(kind)
            used = set()
            for e in p.events[it[0] + 1:it[1]]:
                for x in event_exprs(e):
                    for c_ in calls_in(x):
                        if isinstance(c_.func, ast.Attribute) and c_.func.attr.startswith("write_") and "memory" in ast.unparse(c_.func.value):
                            used.add(c_.func.attr)
                        elif isinstance(c_.func, (ast.Attribute, ast.Name)) and (getattr(c_.func, "attr", None) or getattr(c_.func, "id", "")).startswith("_write_"):
                            used.add(getattr(c_.func, "attr", None) or c_.func.id)  # type: ignore[union-attr]
            if want_acc is not None and used and not used <= want_acc:
                r.check(False, f".{kind}|accessor", wd.loc(), f"a path of the declaration loop stores `.{kind}` elements through {sorted(used - want_acc)} "
                        f"instead of {sorted(want_acc) or 'nothing'}: the elements are no longer written one by one at their own width (reduced modulo "
                        f"the element width by the cast in front of each store), and the path is outside the abstract interpreter ({exc})")
                continue
            raise AnalysisError(f"R05.types: the .{kind} path of the declaration loop is outside the abstract interpreter: {exc}")
        if not feasible or p.term == "raise" and it[1] >= len(p.events):
            continue
        per_kind.setdefault(kind, []).append({"rec": rec, "writes": writes, "a_next": a_next, "c_end": c_end, "entered": any(
            e.kind == "loop" and e.pol and isinstance(e.node, ast.For) for e in p.events[it[0] + 1:it[1]]),
            "iter": inner_iter, "target": inner_target, "labels": [x.label() for x in p.events[it[0] + 1:it[1]]][-10:]})

    def d(f_) -> str:
        return f_.describe() if f_ is not None else "an unknown value"

    for t in ("byte", "half", "word", "string", "zero"):
        if not per_kind.get(t):
            raise AnalysisError(f"anchor vanished: no path of the declaration loop handles `.{t}`")
    for t, (size, stride, writer, cast) in list(TYPES.items()) + [("string", (1, 1, "write_byte", "UInt8")), ("zero", (4, None, None, None))]:
        rows = per_kind[t]
        loc = wd.loc(rows[0]["rec"][2]) if rows[0]["rec"] else wd.loc(loop)
        # recorded element size
        sizes = sorted({d(x["rec"][1]) if x["rec"] else "nothing" for x in rows})
        ok = all(x["rec"] is not None and x["rec"][1] is not None and x["rec"][1].is_const() and x["rec"][1].const == size for x in rows)
        r.check(ok, f".{t}|element-size", loc, f".{t}: recorded element size is {sizes}, elements are {size} byte(s) wide "
                f"(name[i] would address base + i*{sizes[0]})" if t != "zero" else
                f".zero: recorded element size is {sizes}; .zero n reserves n *words*, so element i lives at base + 4*i")
        if t == "zero":
            ok = all(not x["writes"] and x["rec"] and x["rec"][0] is not None and x["c_end"] is not None
                     and x["c_end"] == x["rec"][0] + Form.var("n").scale(4) for x in rows)
            r.check(ok, ".zero|reservation", loc, ".zero n must advance the address counter by 4*n and write nothing; found the next declaration at "
                    + ", ".join(sorted({d(x["c_end"]) for x in rows})))
            continue
        ent = [x for x in rows if x["entered"]]
        if not ent:
            raise AnalysisError(f"anchor vanished: the element loop of `.{t}`")
        for x in rows:
            a0 = x["rec"][0] if x["rec"] else None
            win = [w for w in x["writes"] if w["in_loop"]]
            wout = [w for w in x["writes"] if not w["in_loop"]]
            detail = [{k: (d(v) if k == "addr" else v) for k, v in w.items() if k not in ("addr_expr",)} for w in x["writes"]]
            if t != "string":
                want_iter = "values"
                ok = not wout and x["c_end"] is not None and a0 is not None
                if x["entered"]:
                    ok = ok and len(win) == 1 and win[0]["method"] == writer and win[0]["cast"] == cast and win[0]["direct"] \
                        and win[0]["addr"] is not None and win[0]["addr"] == a0 and x["a_next"] is not None \
                        and x["a_next"] == a0 + Form.k(stride) and x["c_end"] == x["a_next"] and want_iter in (x["iter"] or "") \
                        and "_literal_to_int" in win[0]["arg"] and (x["target"] or "?") in win[0]["arg"]
                else:
                    ok = ok and not win and x["c_end"] == a0
                r.check(ok, f".{t}|writer", loc, f".{t}: every element must be stored with {writer}(<running address>, {cast}(<the literal>), direct), the first at the "
                        f"recorded address, the next {stride} byte(s) further, and the next declaration continues behind the last element; found "
                        f"{detail}, next element at {d(x['a_next'])}, next declaration from {d(x['c_end'])}", None, x["labels"])
            else:
                ok = a0 is not None and x["c_end"] is not None and len(wout) == 1 and wout[0]["method"] == "write_byte" and wout[0]["cast"] == "UInt8" \
                    and wout[0]["arg"] == "0" and wout[0]["direct"]
                if x["entered"]:
                    okb = len(win) == 1 and win[0]["method"] == "write_byte" and win[0]["cast"] == "UInt8" and win[0]["direct"] \
                        and win[0]["addr"] is not None and win[0]["addr"] == a0 and x["a_next"] is not None and x["a_next"] == a0 + Form.k(1) \
                        and win[0]["arg"] == f"ord({x['target']})" and x["iter"] == "line_parsed.string[1:-1]"
                    end = x["a_next"]
                else:
                    okb = not win
                    end = a0
                r.check(okb, ".string|bytes", loc, ".string: the characters between the quotes must be stored as consecutive bytes (write_byte, UInt8(ord(c)), direct) "
                        f"from the recorded address; found {detail}", None, x["labels"])
                ok = ok and end is not None and wout[0]["addr"] is not None and wout[0]["addr"] == end and x["c_end"] == end + Form.k(1)
                r.check(ok, ".string|terminator", loc, ".string: a terminating zero byte (write_byte, UInt8(0), direct) must follow the characters and the next "
                        f"declaration starts behind it; found {detail}, next declaration from {d(x['c_end'])}", None, x["labels"])
    r.inst("paths", {k: len(v) for k, v in sorted(per_kind.items())})



def run(ctx: Ctx) -> None:
    m = ctx.model
    pc = m.cls("RiscvParser")
    wd = m.method(pc, "_write_data", own=True)
    r = ctx.rule("R05.types", "element size, stride, writer and cast agree per declaration type")
    _type_rows(ctx, r, wd)
    # alignment before every declaration: residue analysis (see _layout_starts)
    _layout_starts(ctx, r, wd)
    # (that preloads are uncounted direct writes is C09's clause: R09.once)
    r.floor(12)

    split_rule(ctx)

    r = ctx.rule("R05.index", "name[i] = base + i * element size (the source of each by-name lui/addi pair, locals substituted)")
    from ..sliceval import enclosing_blocks, forms_at, symbolic_at
    from ..symflow import Printer
    pp_ = m.method(pc, "_process_pseudo_instructions")
    loop = next((n for n in pp_.node.body if isinstance(n, ast.For)), None)
    al = {}
    ltgt = loop.target if loop is not None else None
    if isinstance(ltgt, ast.Tuple) and len(ltgt.elts) == 2 and isinstance(ltgt.elts[1], ast.Tuple) and isinstance(loop.iter, ast.Call) \
            and isinstance(loop.iter.func, ast.Name) and loop.iter.func.id == "enumerate":
        ltgt = ltgt.elts[1]  # for i, (n, l, e) in enumerate(self.text)
    if isinstance(ltgt, ast.Tuple) and len(ltgt.elts) == 3 and all(isinstance(x, ast.Name) for x in ltgt.elts):
        al = {ltgt.elts[0].id: "N", ltgt.elts[1].id: "L", ltgt.elts[2].id: "E"}
    pr = Printer(m, pp_.params, al, canonical=True)
    n_idx = 0
    VAR = "P0.variables[E.variable.name]"
    IDX = "P0._literal_to_int(base=10, line=L, line_number=N, literal=E.variable.index)"
    want = {f"Add(Mult({VAR}[1], cases[E.variable.index]{{0 #1; {IDX} #2}}), {VAR}[0])",
            f"Add(Mult({VAR}[1], cases[E.variable.index]{{0 #1; int(E.variable.index) #2}}), {VAR}[0])"}
    for st in ast.walk(pp_.node):
        if not isinstance(st, ast.stmt) or isinstance(st, (ast.If, ast.For, ast.While, ast.Try, ast.With, ast.FunctionDef, ast.Match)):
            continue
        for js in ast.walk(st):
            if isinstance(js, ast.JoinedStr) and js.values and isinstance(js.values[0], ast.Constant) and str(js.values[0].value).lower().startswith("lui "):
                holes = [v.value for v in js.values if isinstance(v, ast.FormattedValue)]
                try:
                    (hi,), env = forms_at(m, pp_, st, [holes[-1]])
                except Exception:
                    continue
                srcs = sorted({v for (v, _b) in list(hi.bits) + list(hi.tails)})
                if len(srcs) != 1:
                    continue
                defs = symbolic_at(pp_, st, {srcs[0]})
                if srcs[0] not in defs or "variables" not in ast.unparse(defs[srcs[0]]):
                    continue  # li: the source is the literal itself
                n_idx += 1
                got = pr.show(defs[srcs[0]]).replace(".get('variable')", ".variable")  # two spellings of the same named token
                r.check(got in want, f"address#{n_idx}", pp_.loc(st),
                        f"the address of name[i] is `{Printer(m, pp_.params, al).show(defs[srcs[0]])}`; it must be "
                        "variables[name][0] + variables[name][1] * (index or 0)")
    if n_idx < 2:
        raise AnalysisError("R05.index: the two by-name address computations (load/la and store) vanished")
    r.floor(2)

    r = ctx.rule("R05.base", "layout starts at the first data address; data before expansion; declaration order")
    txt = " ".join(ast.unparse(wd.node).split())
    # (that the layout starts at the first data address, rounded up to a word boundary, is decided by the residue
    #  analysis of R05.types: instance `start`)
    r.inst("base", "see R05.types start")
    # declaration order: the declaration loop walks self.data itself (anchor of _find_loop_and_counter), in list order
    loop, _cn = _find_loop_and_counter(ctx, wd)
    r.check(isinstance(loop.iter, ast.Attribute) and loop.iter.attr == "data", "order", wd.loc(loop), "declarations are not laid out in self.data order")
    # duplicates: every path that records a variable has tested `name in self.variables` (False) before; the True side raises
    from ..pathsym import iteration, sym_events
    from ..paths import function_paths
    s0 = wd.params[0]
    recs = _recordings(loop, s0)
    n_rec = bad_rec = n_dup = bad_dup = 0
    seen_sig: set = set()
    for p_ in function_paths(wd.node):
        it = iteration(p_, loop)
        if it is None:
            continue
        sig = tuple((id(e.node), e.pol, e.kind) for e in p_.events[it[0] + 1:it[1]]) + (p_.term,)
        if sig in seen_sig:
            continue
        seen_sig.add(sig)
        tested = None
        for se in sym_events(p_):
            if not (it[0] < se.index < it[1]):
                continue
            if se.event.kind == "test" and isinstance(se.node, ast.Compare) and len(se.node.ops) == 1 and isinstance(se.node.ops[0], (ast.In, ast.NotIn)) \
                    and ast.unparse(se.node.comparators[0]) == f"{s0}.variables" \
                    and " ".join(ast.unparse(se.node.left).split()) in ("line_parsed.name", "line_parsed.get('name')", "line_parsed['name']"):
                tested = bool(se.event.pol) == isinstance(se.node.ops[0], ast.In)  # True: the name is already declared
                if tested:
                    n_dup += 1
                    exc = p_.term_node.exc if p_.term == "raise" and isinstance(p_.term_node, ast.Raise) and it[1] >= len(p_.events) else None
                    if not (isinstance(exc, ast.Call) and ast.unparse(exc.func).endswith("ParserDataDuplicateException")):
                        bad_dup += 1
                    break
            if se.event.kind == "stmt" and any(n is se.event.node or any(x is n for x in ast.walk(se.event.node)) for n, _t in recs):
                n_rec += 1
                if tested is not False:
                    bad_rec += 1
                break
    r.check(n_rec >= 5 and bad_rec == 0 and n_dup >= 1 and bad_dup == 0, "duplicates", wd.loc(loop),
            f"duplicate names are no longer rejected: {bad_rec} of {n_rec} recording paths have not tested `name in self.variables` first; "
            f"{bad_dup} of {n_dup} already-declared paths do not raise ParserDataDuplicateException")
    pa = m.method(pc, "parse", own=True)
    order = [c.func.attr for c in calls_in(pa.node) if isinstance(c.func, ast.Attribute) and c.func.attr.startswith("_")]
    want = ["_sanitize", "_tokenize", "_segment", "_list_access_at_zero_and_remove_inline_labels", "_write_data",
            "_process_pseudo_instructions", "_process_labels", "_write_instructions"]
    r.check(order == want, "phases", pa.loc(), f"parse phases are {order}, expected {want}")
    try:
        base = fold_in(m, m.module("settings.settings"), ast.parse('Settings().get()["memory_address_min_bytes"]', mode="eval").body,
                       m.cls("Settings"))
    except Unknown as exc:
        raise AnalysisError(f"settings do not fold: {exc}")
    r.check(isinstance(base, int) and base % 4 == 0, "first-data-address", "architecture_simulator/settings/settings.py:22", f"first data address {base} is not word aligned")
    # segment order does not matter: _segment splits on either order
    sg = m.method("Parser", "_segment", own=True)
    from ..flowspec import compare
    # comments never reach the declarations: the sanitiser keeps, of every line, exactly what stands in front of its first '#'
    from ..parsershape import KEEP, TEXT, sanitize_form
    sa_f, form = sanitize_form(m)
    r.check(form is not None and form["text"] == TEXT and form["keep"] in KEEP and form["iter"] == "enumerate(P0.program.splitlines())", "sanitize", sa_f.loc(),
            "declarations with a trailing comment are no longer cut at the first '#': the sanitized program is not "
            f"[(n, line.split('#', 1)[0].strip()) for every line that has something before its comment] (recovered form: {form})")
    # `.zero n` and the padding behind short variables are never written: they rely on a memory that a reload really empties
    from ..resetrule import check_reset
    check_reset(ctx, r, "Memory", fields={"memory_file": "empty"})
    check_reset(ctx, r, "BaseCacheMemorySystem", fields={"cache": "reconstruct", "memory": "delegate"})
    compare(r, m, sg, SEGMENT_REF, "segments", keep=lambda k, t: not (k == "call" and t.endswith(".get('directive')")), what="_segment splits the token list at the .data / .text directives in either order "
            "(a repeated or unknown directive is a ParserDirectiveException)")
    r.floor(6)


def split_rule(ctx: Ctx, rid: str = "R05.split") -> None:
    """Every `lui r, {HI}` / `addi r, r, {LO}` pair the pseudo-instruction expander emits splits its source
    value X as LO = X[0:12], HI = X[12:32] + X[11] (the carry that undoes addi's sign extension).

    HI and LO are evaluated at the emitting statement from their backward slice (sa.sliceval) in the
    bit-slice domain, so the three sites may share a helper, use temporaries, or write the carry as an
    if, a conditional expression or an addition."""
    from ..bitslice import Form, Inconclusive, NotABit
    from ..pathsym import same_function
    from ..sliceval import enclosing_blocks, forms_at
    m = ctx.model
    r = ctx.rule(rid, "every lui/addi pair splits its source as X[12:32] + X[11] and X[0:12] (bit-slice evaluation of the slice)")
    f = m.method("RiscvParser", "_process_pseudo_instructions")

    def templates(prefix: str):
        out = []
        for st in ast.walk(f.node):
            if isinstance(st, ast.stmt) and not isinstance(st, (ast.If, ast.For, ast.While, ast.Try, ast.With, ast.FunctionDef, ast.Match)):
                for js in ast.walk(st):
                    if isinstance(js, ast.JoinedStr) and js.values and isinstance(js.values[0], ast.Constant) \
                            and str(js.values[0].value).lower().startswith(prefix):
                        holes = [v.value for v in js.values if isinstance(v, ast.FormattedValue)]
                        out.append((st, js, holes))
        return out

    luis = templates("lui ")
    addis = [(st, js, h) for st, js, h in templates("addi ") if len(h) == 3]
    if len(luis) < 3:
        raise AnalysisError(f"{rid}: expected the three lui/addi expansions (li, la/load-by-name, store-by-name), found {len(luis)} lui templates")
    labels = {0: "li", 1: "la/load-by-name", 2: "store-by-name"}
    for n, (st, js, holes) in enumerate(luis):
        key = f"split|{labels.get(n, n)}"
        blk = enclosing_blocks(f.node, st)[0][0]
        mate = next(((s2, j2, h2) for s2, j2, h2 in addis if any(s2 is x or any(y is s2 for y in ast.walk(x)) for x in blk)), None)
        if mate is None or len(holes) != 2:
            r.check(False, key, f.loc(st), f"`{ast.unparse(js)}` is not followed by `addi r, r, <low part>` in the same branch")
            continue
        hi_e, lo_e = holes[-1], mate[2][-1]
        try:
            (hi, lo), env = forms_at(m, f, st, [hi_e, lo_e])
        except NotABit as exc:
            r.check(False, key, f.loc(st), f"{labels.get(n, n)} expansion: the carry into the upper part is not bit 11 of the low part ({exc}); "
                    "addi sign-extends its 12-bit immediate, so lui needs +1 exactly when the low part exceeds 2047")
            continue
        except Inconclusive as exc:
            raise AnalysisError(f"{rid}: the operands of `{ast.unparse(js)}` are outside the bit-slice domain: {exc}")
        srcs = sorted({v for (v, _b) in list(hi.bits) + list(lo.bits)} | {v for (v, _b) in list(hi.tails) + list(lo.tails)})
        ok = len(srcs) == 1
        x = srcs[0] if srcs else "?"
        if ok:
            ok = lo == Form.field(x, 0, 12) and hi == Form.field(x, 12, 32) + Form.field(x, 11, 12)
        r.check(ok, key, f.loc(st), f"{labels.get(n, n)} expansion emits lui {hi.describe()} / addi {lo.describe()}; a lui/addi pair that "
                f"reproduces {x} needs addi {x}[0:12] and lui {x}[12:32] + {x}[11] (addi sign-extends its 12 bits, so bit 11 must be carried "
                "into the upper part)", {"source": x})
        # both instructions name the same register
        r.check(ast.dump(holes[0]) == ast.dump(mate[2][0]) == ast.dump(mate[2][1]), f"{key}|register", f.loc(mate[0]),
                f"`{ast.unparse(js)}` and `{ast.unparse(mate[1])}` do not build the value in one register")
    # li chooses the short form exactly for 12-bit signed constants
    found = False
    for nd in ast.walk(f.node):
        if isinstance(nd, ast.If) and {x.id for x in ast.walk(nd.test) if isinstance(x, ast.Name)} == {"imm"}:
            ok, _ = same_function(m, nd.test, "imm > 2047 or imm < -2048", {})
            ok2, _ = same_function(m, nd.test, "not (imm > 2047 or imm < -2048)", {})
            found = found or ok or ok2
    r.check(found, "li|short-form", f.loc(), "li no longer uses a single addi exactly for constants in -2048..2047")
    r.floor(7)


