"""C05 -- data segment layout, name[i] addressing, li constants (structural clauses).

R05.types   per-type layout table in _write_data: recorded element size, stride, writer and
            cast agree (byte 1/+1/write_byte/UInt8, half 2/+2/write_halfword/UInt16, word
            4/+4/write_word/UInt32, string 1/+1 bytes plus a zero terminator, zero: element
            size 4 and a reservation of 4*n); every declaration starts word-aligned; all
            preloads are direct writes.
R05.split   the three copies of the upper-20/lower-12 split (li; la/load-by-name; store-by-
            name) are structurally identical up to the source variable, and their constants
            are the I-type geometry: >> 12, & 0xFFF, carry when the low part > 2047, with
            12 = I-immediate width = LUI shift.
R05.index   name[i] = base + i * element size; unknown names are rejected first.
R05.base    layout starts at the first data address of the memory, in declaration order;
            data is written before pseudo-instructions are expanded, whatever the segment order.
"""
from __future__ import annotations

import ast
from typing import Optional

from ..common import const_int, seg, short
from ..consteval import Unknown, fold_in
from ..linear import linform
from ..model import AnalysisError, walk_no_nested
from ..paths import calls_in
from ..report import Ctx

EXPLANATION = (
    "Decides the layout rules row by row: for each declaration type the element size recorded for "
    "name[i] addressing, the stride the address counter advances by, the memory writer and the "
    "fixed-width cast must describe the same width; word alignment precedes every declaration; "
    "the lui/addi split exists in three copies, which are compared as clones and whose constants "
    "are checked against the I-type immediate geometry (so the carry compensation sits exactly at "
    "the 12-bit sign boundary in all of them); index arithmetic is a linear form. That "
    "li rd, c leaves c mod 2^32 for every c is arithmetic over values and is argued only through "
    "these constants and R01.immw, not enumerated."
)
ASSUMPTIONS = ["fixedint UInt8/16/32 reduce modulo the element width (library semantics)"]
TRUSTED = ["CPython ast", "sa.consteval", "sa.linear"]

TYPES = {
    "byte": (1, 1, "write_byte", "UInt8"),
    "half": (2, 2, "write_halfword", "UInt16"),
    "word": (4, 4, "write_word", "UInt32"),
}


def _branches(f) -> dict[str, ast.If]:
    out = {}
    for n in ast.walk(f.node):
        if isinstance(n, ast.If) and isinstance(n.test, ast.Compare) and ast.unparse(n.test.left) == "line_parsed.type.type" \
                and isinstance(n.test.comparators[0], ast.Constant):
            out[n.test.comparators[0].value] = n
    return out


def _recorded(body: list[ast.stmt]) -> Optional[ast.AST]:
    """element-size expression recorded by `self.variables.update({name: (address_counter, SIZE)})`"""
    for st in body:
        for c in calls_in(st):
            if ast.unparse(c.func) == "self.variables.update" and c.args and isinstance(c.args[0], ast.Dict):
                v = c.args[0].values[0]
                if isinstance(v, ast.Tuple) and len(v.elts) == 2 and ast.unparse(v.elts[0]) == "address_counter":
                    return v.elts[1]
        if isinstance(st, ast.Assign) and ast.unparse(st.targets[0]).startswith("self.variables[") and isinstance(st.value, ast.Tuple):
            if ast.unparse(st.value.elts[0]) == "address_counter":
                return st.value.elts[1]
    return None


def _layout_starts(ctx: Ctx, r, wd) -> None:
    """Where declarations start, by abstract interpretation over residues mod 4.

    The address counter is c = 4*q + k with q symbolic and k = 0..3 concrete (four runs).  (1) The code in front of
    the declaration loop must turn START = memory.get_address_range().start into START rounded up to a multiple
    of 4.  (2) On every path through one iteration of the loop that records a variable, the recorded address must
    be the counter at the start of the iteration rounded up to a multiple of 4 -- whatever the previous declaration
    left behind.  How the rounding is written (`if c % 4: c += 4 - c % 4`, `(c + 3) & ~3`, a helper) is irrelevant."""
    from ..absrun import AbsRun
    from ..bitslice import Form, Inconclusive
    from ..pathsym import iteration
    from ..paths import function_paths
    m = ctx.model
    s0 = wd.params[0]
    loop = next((n for n in wd.node.body if isinstance(n, ast.For) and ast.unparse(n.iter) == f"{s0}.data"), None)
    if loop is None:
        raise AnalysisError("anchor vanished: `for ... in self.data` in _write_data")
    START = f"{s0}.state.memory.get_address_range().start"
    # the counter: the local that is recorded as a variable's address
    recs = []
    for n in ast.walk(loop):
        tup = None
        if isinstance(n, ast.Assign) and ast.unparse(n.targets[0]).startswith(f"{s0}.variables[") and isinstance(n.value, ast.Tuple):
            tup = n.value
        if isinstance(n, ast.Call) and ast.unparse(n.func) == f"{s0}.variables.update" and n.args and isinstance(n.args[0], ast.Dict) \
                and n.args[0].values and isinstance(n.args[0].values[0], ast.Tuple):
            tup = n.args[0].values[0]
        if tup is not None and len(tup.elts) == 2:
            recs.append((n, tup))
    if len(recs) < 5:
        raise AnalysisError(f"R05.types: only {len(recs)} variable recordings found in _write_data (byte, half, word, string, zero expected)")
    counters = {ast.unparse(t.elts[0]) for _, t in recs}
    if len(counters) != 1 or not next(iter(counters)).isidentifier():
        r.check(False, "start|counter", wd.loc(recs[0][0]), f"variables are recorded at {sorted(counters)}: not one running address counter")
        return
    cn = next(iter(counters))

    def rounded(k: int, sym: str) -> Form:
        return Form.var(sym).scale(4) + Form.k(4 if k else 0)

    # (1) before the loop
    pre = wd.node.body[:wd.node.body.index(loop)]
    for k in range(4):
        run = AbsRun(m, wd, {START: Form.var("q").scale(4) + Form.k(k)}, {})
        run.lenient = True
        try:
            run.block(pre)
            got = run.env.get(cn)
        except Inconclusive as exc:
            raise AnalysisError(f"R05.types: the code before the declaration loop is outside the abstract interpreter: {exc}")
        ok = got is not None and got == rounded(k, "q")
        r.check(ok, f"start|base%4={k}", wd.loc(), f"with the first data address = 4q+{k}, the layout starts at "
                f"{got.describe() if got is not None else 'an unknown address'}; it must start at memory.get_address_range().start "
                f"rounded up to a word boundary ({rounded(k, 'q').describe()})")
    # (2) every recording path of one iteration
    rec_ids = {id(n) for n, _ in recs}
    seen: set = set()
    n_paths = 0
    for p in function_paths(wd.node):
        it = iteration(p, loop)
        if it is None:
            continue
        evs = p.events[it[0] + 1:it[1]]
        ridx = None
        for i, e in enumerate(evs):
            if e.kind == "stmt" and (id(e.node) in rec_ids or any(id(x) in rec_ids for x in ast.walk(e.node))):
                ridx = i
                break
        if ridx is None:
            continue
        sig = tuple((id(e.node), e.pol) for e in evs[:ridx + 1])
        if sig in seen:
            continue
        seen.add(sig)
        n_paths += 1
        rec_node = next(n for n, _ in recs if id(n) in {id(x) for x in ast.walk(evs[ridx].node)} | {id(evs[ridx].node)})
        tup = next(t for n, t in recs if n is rec_node)
        kind = next((ast.unparse(e.node.comparators[0]).strip("'\"") for e in evs[:ridx] if e.kind == "test" and e.pol
                     and isinstance(e.node, ast.Compare) and ast.unparse(e.node.left).endswith(".type.type")), "?")
        for k in range(4):
            run = AbsRun(m, wd, {cn: Form.var("c").scale(4) + Form.k(k)}, {})
            run.lenient = True
            try:
                if not run.run_events(evs[:ridx]):
                    continue  # this path does not exist for this residue
                got = run.ev.ev(tup.elts[0])
            except Inconclusive as exc:
                raise AnalysisError(f"R05.types: the path to the .{kind} recording is outside the abstract interpreter: {exc}")
            ok = got == rounded(k, "c")
            r.check(ok, f"alignment|.{kind}|counter%4={k}", wd.loc(rec_node), f".{kind}: when the previous declaration ends at 4c+{k}, "
                    f"the variable is recorded at {got.describe()}; every declaration must start on the next 4-byte boundary "
                    f"({rounded(k, 'c').describe()})", None, [x.label() for x in evs[:ridx + 1]][-8:])
    if n_paths < 5:
        raise AnalysisError(f"R05.types: only {n_paths} recording paths through the declaration loop")


def run(ctx: Ctx) -> None:
    m = ctx.model
    pc = m.cls("RiscvParser")
    wd = m.method(pc, "_write_data", own=True)
    br = _branches(wd)
    for t in ("byte", "half", "word", "string", "zero"):
        if t not in br:
            raise AnalysisError(f"anchor vanished: `type == \"{t}\"` branch of _write_data")

    r = ctx.rule("R05.types", "element size, stride, writer and cast agree per declaration type")
    for t, (size, stride, writer, cast) in TYPES.items():
        b = br[t].body
        rec = _recorded(b)
        r.check(rec is not None and const_int(rec) == size, f".{t}|element-size", wd.loc(br[t]),
                f".{t}: recorded element size is `{ast.unparse(rec) if rec is not None else '?'}`, elements are {size} byte(s) wide "
                f"(name[i] would address base + i*{ast.unparse(rec) if rec is not None else '?'})")
        loop = next((s for s in b if isinstance(s, ast.For)), None)
        ok = False
        detail = None
        if loop is not None and "values" in ast.unparse(loop.iter):
            wc = [c for c in calls_in(loop) if isinstance(c.func, ast.Attribute) and c.func.attr.startswith("write_")]
            inc = [s for s in loop.body if isinstance(s, ast.AugAssign) and ast.unparse(s.target) == "address_counter" and isinstance(s.op, ast.Add)]
            if len(wc) == 1 and len(inc) == 1:
                c = wc[0]
                castname = ast.unparse(c.args[1].func).split(".")[-1] if len(c.args) > 1 and isinstance(c.args[1], ast.Call) else "?"
                direct = any(k.arg == "directly_write_to_lower_memory" and isinstance(k.value, ast.Constant) and k.value.value is True for k in c.keywords)
                detail = {"writer": c.func.attr, "cast": castname, "stride": const_int(inc[0].value), "direct": direct}
                ok = c.func.attr == writer and castname == cast and const_int(inc[0].value) == stride \
                    and ast.unparse(c.args[0]) == "address_counter" and loop.body.index(inc[0]) > 0
        r.check(ok, f".{t}|writer", wd.loc(br[t]), f".{t}: elements must be stored with {writer}(address_counter, {cast}(..), direct) and a "
                f"stride of {stride}; found {detail}", detail)
    # string
    b = br["string"].body
    rec = _recorded(b)
    r.check(rec is not None and const_int(rec) == 1, ".string|element-size", wd.loc(br["string"]), ".string: element size must be 1")
    loop = next((s for s in b if isinstance(s, ast.For)), None)
    ok = loop is not None and ast.unparse(loop.iter) == "line_parsed.string[1:-1]"
    if ok:
        wc = [c for c in calls_in(loop) if isinstance(c.func, ast.Attribute) and c.func.attr == "write_byte"]
        inc = [s for s in loop.body if isinstance(s, ast.AugAssign) and ast.unparse(s.target) == "address_counter"]
        ok = len(wc) == 1 and " ".join(ast.unparse(wc[0].args[1]).split()) == f"fixedint.UInt8(ord({ast.unparse(loop.target)}))" and \
            len(inc) == 1 and const_int(inc[0].value) == 1
    r.check(ok, ".string|bytes", wd.loc(br["string"]), ".string: characters between the quotes must be stored as consecutive bytes")
    after = b[b.index(loop) + 1:] if loop in b else []
    term = [c for s in after for c in calls_in(s) if isinstance(c.func, ast.Attribute) and c.func.attr == "write_byte"]
    inc = [s for s in after if isinstance(s, ast.AugAssign) and ast.unparse(s.target) == "address_counter"]
    ok = len(term) == 1 and " ".join(ast.unparse(term[0].args[1]).split()) == "fixedint.UInt8(0)" and len(inc) == 1 and const_int(inc[0].value) == 1
    r.check(ok, ".string|terminator", wd.loc(br["string"]), ".string: a terminating zero byte must follow the characters")
    # zero
    b = br["zero"].body
    rec = _recorded(b)
    r.check(rec is not None and const_int(rec) == 4, ".zero|element-size", wd.loc(br["zero"]),
            f".zero: recorded element size is `{ast.unparse(rec) if rec is not None else '?'}`; .zero n reserves n *words*, so element i "
            "lives at base + 4*i")
    inc = [s for s in b if isinstance(s, ast.AugAssign) and ast.unparse(s.target) == "address_counter"]
    n_name = next((ast.unparse(s.targets[0]) for s in b if isinstance(s, ast.Assign) and isinstance(s.targets[0], ast.Name)), "num_words")
    ok = len(inc) == 1 and linform(inc[0].value) in ({f"{n_name}": 4},)
    r.check(ok, ".zero|reservation", wd.loc(br["zero"]), ".zero n must advance the address counter by 4*n")
    # alignment before every declaration: residue analysis (see _layout_starts)
    _layout_starts(ctx, r, wd)
    # (that preloads are uncounted direct writes is C09's clause: R09.once)
    r.floor(12)

    split_rule(ctx)

    r = ctx.rule("R05.index", "name[i] = base + i * element size (the source of each by-name lui/addi pair, locals substituted)")
    from ..sliceval import enclosing_blocks, forms_at, symbolic_at
    from ..symflow import Printer
    pp_ = m.method(pc, "_process_pseudo_instructions")
    loop = next((n for n in pp_.node.body if isinstance(n, ast.For)), None)
    al = {}
    if loop is not None and isinstance(loop.target, ast.Tuple) and len(loop.target.elts) == 3:
        al = {loop.target.elts[0].id: "N", loop.target.elts[1].id: "L", loop.target.elts[2].id: "E"}
    pr = Printer(m, pp_.params, al, canonical=True)
    n_idx = 0
    VAR = "P0.variables[E.variable.name]"
    IDX = "P0._literal_to_int(base=10, line=L, line_number=N, literal=E.variable.index)"
    want = {f"Add(Mult({VAR}[1], cases[E.variable.index]{{0 #1; {IDX} #2}}), {VAR}[0])",
            f"Add(Mult({VAR}[1], cases[E.variable.index]{{0 #1; int(E.variable.index) #2}}), {VAR}[0])"}
    for st in ast.walk(pp_.node):
        if not isinstance(st, ast.stmt) or isinstance(st, (ast.If, ast.For, ast.While, ast.Try, ast.With, ast.FunctionDef, ast.Match)):
            continue
        for js in ast.walk(st):
            if isinstance(js, ast.JoinedStr) and js.values and isinstance(js.values[0], ast.Constant) and str(js.values[0].value).lower().startswith("lui "):
                holes = [v.value for v in js.values if isinstance(v, ast.FormattedValue)]
                try:
                    (hi,), env = forms_at(m, pp_, st, [holes[-1]])
                except Exception:
                    continue
                srcs = sorted({v for (v, _b) in list(hi.bits) + list(hi.tails)})
                if len(srcs) != 1:
                    continue
                defs = symbolic_at(pp_, st, {srcs[0]})
                if srcs[0] not in defs or "variables" not in ast.unparse(defs[srcs[0]]):
                    continue  # li: the source is the literal itself
                n_idx += 1
                got = pr.show(defs[srcs[0]])
                r.check(got in want, f"address#{n_idx}", pp_.loc(st),
                        f"the address of name[i] is `{Printer(m, pp_.params, al).show(defs[srcs[0]])}`; it must be "
                        "variables[name][0] + variables[name][1] * (index or 0)")
    if n_idx < 2:
        raise AnalysisError("R05.index: the two by-name address computations (load/la and store) vanished")
    r.floor(2)

    r = ctx.rule("R05.base", "layout starts at the first data address; data before expansion; declaration order")
    txt = " ".join(ast.unparse(wd.node).split())
    # (that the layout starts at the first data address, rounded up to a word boundary, is decided by the residue
    #  analysis of R05.types: instance `start`)
    r.inst("base", "see R05.types start")
    r.check("for line_number, line, line_parsed in self.data" in txt, "order", wd.loc(), "declarations are not laid out in self.data order")
    r.check("if line_parsed.name in self.variables: raise ParserDataDuplicateException" in txt, "duplicates", wd.loc(), "duplicate names are no longer rejected")
    pa = m.method(pc, "parse", own=True)
    order = [c.func.attr for c in calls_in(pa.node) if isinstance(c.func, ast.Attribute) and c.func.attr.startswith("_")]
    want = ["_sanitize", "_tokenize", "_segment", "_list_access_at_zero_and_remove_inline_labels", "_write_data",
            "_process_pseudo_instructions", "_process_labels", "_write_instructions"]
    r.check(order == want, "phases", pa.loc(), f"parse phases are {order}, expected {want}")
    try:
        base = fold_in(m, m.module("settings.settings"), ast.parse('Settings().get()["memory_address_min_bytes"]', mode="eval").body,
                       m.cls("Settings"))
    except Unknown as exc:
        raise AnalysisError(f"settings do not fold: {exc}")
    r.check(isinstance(base, int) and base % 4 == 0, "first-data-address", "architecture_simulator/settings/settings.py:22", f"first data address {base} is not word aligned")
    # segment order does not matter: _segment splits on either order
    sg = m.method("Parser", "_segment", own=True)
    t2 = " ".join(ast.unparse(sg.node).split())
    r.check("self.data = self.text[index + 1:]" in t2 and "self.text = self.data[index + 1:]" in t2, "segments", sg.loc(),
            "_segment no longer handles both .data-first and .text-first programs")
    r.floor(6)


def split_rule(ctx: Ctx, rid: str = "R05.split") -> None:
    """Every `lui r, {HI}` / `addi r, r, {LO}` pair the pseudo-instruction expander emits splits its source
    value X as LO = X[0:12], HI = X[12:32] + X[11] (the carry that undoes addi's sign extension).

    HI and LO are evaluated at the emitting statement from their backward slice (sa.sliceval) in the
    bit-slice domain, so the three sites may share a helper, use temporaries, or write the carry as an
    if, a conditional expression or an addition."""
    from ..bitslice import Form, Inconclusive, NotABit
    from ..pathsym import same_function
    from ..sliceval import enclosing_blocks, forms_at
    m = ctx.model
    r = ctx.rule(rid, "every lui/addi pair splits its source as X[12:32] + X[11] and X[0:12] (bit-slice evaluation of the slice)")
    f = m.method("RiscvParser", "_process_pseudo_instructions")

    def templates(prefix: str):
        out = []
        for st in ast.walk(f.node):
            if isinstance(st, ast.stmt) and not isinstance(st, (ast.If, ast.For, ast.While, ast.Try, ast.With, ast.FunctionDef, ast.Match)):
                for js in ast.walk(st):
                    if isinstance(js, ast.JoinedStr) and js.values and isinstance(js.values[0], ast.Constant) \
                            and str(js.values[0].value).lower().startswith(prefix):
                        holes = [v.value for v in js.values if isinstance(v, ast.FormattedValue)]
                        out.append((st, js, holes))
        return out

    luis = templates("lui ")
    addis = [(st, js, h) for st, js, h in templates("addi ") if len(h) == 3]
    if len(luis) < 3:
        raise AnalysisError(f"{rid}: expected the three lui/addi expansions (li, la/load-by-name, store-by-name), found {len(luis)} lui templates")
    labels = {0: "li", 1: "la/load-by-name", 2: "store-by-name"}
    for n, (st, js, holes) in enumerate(luis):
        key = f"split|{labels.get(n, n)}"
        blk = enclosing_blocks(f.node, st)[0][0]
        mate = next(((s2, j2, h2) for s2, j2, h2 in addis if any(s2 is x or any(y is s2 for y in ast.walk(x)) for x in blk)), None)
        if mate is None or len(holes) != 2:
            r.check(False, key, f.loc(st), f"`{ast.unparse(js)}` is not followed by `addi r, r, <low part>` in the same branch")
            continue
        hi_e, lo_e = holes[-1], mate[2][-1]
        try:
            (hi, lo), env = forms_at(m, f, st, [hi_e, lo_e])
        except NotABit as exc:
            r.check(False, key, f.loc(st), f"{labels.get(n, n)} expansion: the carry into the upper part is not bit 11 of the low part ({exc}); "
                    "addi sign-extends its 12-bit immediate, so lui needs +1 exactly when the low part exceeds 2047")
            continue
        except Inconclusive as exc:
            raise AnalysisError(f"{rid}: the operands of `{ast.unparse(js)}` are outside the bit-slice domain: {exc}")
        srcs = sorted({v for (v, _b) in list(hi.bits) + list(lo.bits)} | {v for (v, _b) in list(hi.tails) + list(lo.tails)})
        ok = len(srcs) == 1
        x = srcs[0] if srcs else "?"
        if ok:
            ok = lo == Form.field(x, 0, 12) and hi == Form.field(x, 12, 32) + Form.field(x, 11, 12)
        r.check(ok, key, f.loc(st), f"{labels.get(n, n)} expansion emits lui {hi.describe()} / addi {lo.describe()}; a lui/addi pair that "
                f"reproduces {x} needs addi {x}[0:12] and lui {x}[12:32] + {x}[11] (addi sign-extends its 12 bits, so bit 11 must be carried "
                "into the upper part)", {"source": x})
        # both instructions name the same register
        r.check(ast.dump(holes[0]) == ast.dump(mate[2][0]) == ast.dump(mate[2][1]), f"{key}|register", f.loc(mate[0]),
                f"`{ast.unparse(js)}` and `{ast.unparse(mate[1])}` do not build the value in one register")
    # li chooses the short form exactly for 12-bit signed constants
    found = False
    for nd in ast.walk(f.node):
        if isinstance(nd, ast.If) and {x.id for x in ast.walk(nd.test) if isinstance(x, ast.Name)} == {"imm"}:
            ok, _ = same_function(m, nd.test, "imm > 2047 or imm < -2048", {})
            ok2, _ = same_function(m, nd.test, "not (imm > 2047 or imm < -2048)", {})
            found = found or ok or ok2
    r.check(found, "li|short-form", f.loc(), "li no longer uses a single addi exactly for constants in -2048..2047")
    r.floor(7)


