"""C06 -- TOY execution (structural clauses).

R06.fetch  instructions come from memory: the only run-time writer of the instruction
           register decodes the word read from memory at the program counter, under
           `pc <= max_pc`, else clears it; pc is incremented after the fetch.
R06.cost   two cycles and one count per executed instruction; no other writer of the
           TOY counters.
R06.op     operator table: for each of the 13 classes which operator combines which
           operands in which order (accu, MEM[address], constants), what is stored
           where, and that BRZ writes pc := address only under `accu == 0`.
R06.wrap   accu and pc stay fixed-width by type: every value stored into them is built
           from UInt16 / UInt12 operands by fixedint operators.
R06.dec    decode table and field widths (R19.tab / R19.fields instances).
"""
from __future__ import annotations

import ast
from typing import Optional

from ..common import attr_stores, const_int, seg, short
from ..guards import facts_of
from ..model import AnalysisError, walk_no_nested
from ..paths import calls_in, function_paths
from ..report import Ctx
from .c19 import decode_chain, fields_rule, toy_table

EXPLANATION = (
    "Decides the TOY clauses visible in the code's shape: the instruction register is only ever "
    "loaded by decoding the memory word at the program counter (so self-modifying stores take "
    "effect), halting is tied to `pc <= max_pc`, each half-step costs one cycle and the second "
    "counts the instruction, with no other writer of the counters; an operator table fixes for "
    "each opcode which operator is applied to (accu, MEM[address]) in which order and where the "
    "result goes; values stored into accu/pc are UInt16/UInt12-typed so they wrap by type. The "
    "numeric result of each opcode on each value, wrap-around at the boundaries and the halting "
    "address for arbitrary programs are value-level and not decided."
)
ASSUMPTIONS = ["fixedint UInt16/UInt12 arithmetic wraps at its width (library semantics)"]
TRUSTED = ["CPython ast", "sa.paths", "ISA operator table encoded in the checker"]

MEM = "MEM"
OPTABLE = {
    "STO": {"accu": None, "store": "accu"},
    "LDA": {"accu": MEM},
    "BRZ": {"accu": None, "branch": True},
    "ADD": {"accu": ("+", "accu", MEM)},
    "SUB": {"accu": ("-", "accu", MEM)},
    "OR": {"accu": ("|", "accu", MEM)},
    "AND": {"accu": ("&", "accu", MEM)},
    "XOR": {"accu": ("^", "accu", MEM)},
    "NOT": {"accu": ("~", "accu")},
    "INC": {"accu": ("+", "accu", 1)},
    "DEC": {"accu": ("-", "accu", 1)},
    "ZRO": {"accu": 0},
    "NOP": {"accu": None},
}
COMM = {"+", "|", "&", "^"}
OPS = {ast.Add: "+", ast.Sub: "-", ast.BitOr: "|", ast.BitAnd: "&", ast.BitXor: "^"}


def _norm(e: ast.AST, env: dict, f) -> object:
    """Normal form of a TOY value expression."""
    if isinstance(e, ast.Name) and e.id in env:
        return _norm(env[e.id], env, f)
    txt = ast.unparse(e)
    if txt == "state.accu":
        return "accu"
    if isinstance(e, ast.Call):
        fn = ast.unparse(e.func)
        if fn == "state.memory.read_halfword":
            a = e.args[0] if e.args else next((k.value for k in e.keywords if k.arg == "address"), None)
            if a is not None and ast.unparse(a) == "self.address":
                return MEM
            return ("MEM?", ast.unparse(a) if a is not None else "?")
        if fn in ("UInt16", "fixedint.UInt16") and len(e.args) == 1:
            c = const_int(e.args[0])
            if c is not None:
                return c
            return _norm(e.args[0], env, f)
    c = const_int(e)
    if c is not None:
        return c
    if isinstance(e, ast.BinOp) and type(e.op) in OPS:
        op = OPS[type(e.op)]
        l, r = _norm(e.left, env, f), _norm(e.right, env, f)
        if op in COMM and repr(l) > repr(r):
            l, r = r, l
        return (op, l, r)
    if isinstance(e, ast.UnaryOp) and isinstance(e.op, ast.Invert):
        return ("~", _norm(e.operand, env, f))
    return ("?", txt)


def _canon(t: object) -> object:
    if isinstance(t, tuple) and len(t) == 3 and t[0] in COMM:
        l, r = t[1], t[2]
        if repr(l) > repr(r):
            l, r = r, l
        return (t[0], l, r)
    return t


def run(ctx: Ctx) -> None:
    m = ctx.model
    # execution stops exactly when the pc passes the last instruction: run() is the plain step loop (C13's rule, TOY half)
    from .c13 import run_rule
    run_rule(ctx, "R06.run", classes=("ToySimulation",))
    # "from any initial memory": a loaded program starts from its own image -- load_program builds a fresh state on every path (C13's rule)
    from .c13 import load_rules
    load_rules(ctx, "R06.load")
    tab = toy_table(ctx)
    rows = tab["rows"]
    sim = m.cls("ToySimulation")

    # ------------------------------------------------------------------ fetch
    r = ctx.rule("R06.fetch", "instruction register is loaded only by decoding memory[pc] under pc <= max_pc")
    second = m.method(sim, "second_cycle_step", own=True)
    writers = attr_stores(m, "loaded_instruction")
    for f, st, t in writers:
        key = f"{short(f.qname)}|loaded_instruction"
        if f is second:
            continue
        ok = (f.cls is not None and f.cls.name == "ToyArchitecturalState" and f.name == "__init__") or \
             (f.cls is not None and f.cls.name == "ToyParser" and f.name == "_load_instructions")
        r.check(ok, key, f.loc(st), f"unexpected writer of the instruction register: `{seg(f, st)}`")
    # the two half-steps against their reference formulation (normal forms: aliases, conditional expressions,
    # `pc += 1` versus `pc = pc + 1` are the same thing)
    from ..toyspec import cost_keep, fetch_keep, half_steps
    first = m.method(sim, "first_cycle_step")
    half_steps(ctx, r, fetch_keep,
               "the first half runs loaded_instruction.behavior(state)",
               "the second half loads ToyInstruction.from_integer(memory.read_halfword(pc)) exactly when pc <= max_pc (None otherwise: "
               "execution stops) and then increments pc by UInt12(1)")
    r.floor(4)

    # ------------------------------------------------------------------- cost
    r = ctx.rule("R06.cost", "two cycles, one count; no other writer of the TOY counters")

    def is_inc(n: ast.AST, attr: str) -> bool:
        return isinstance(n, ast.AugAssign) and isinstance(n.op, ast.Add) and isinstance(n.target, ast.Attribute) \
            and n.target.attr == attr and const_int(n.value) == 1

    half_steps(ctx, r, cost_keep, "the first half costs one cycle and counts no instruction",
               "the second half costs one cycle and counts the instruction")
    for f, st, t in attr_stores(m, "instruction_count"):
        if not ("toy" in f.module.name):
            continue  # the RISC-V writers are C02's business (R02.cnt)
        ok = f is second
        r.check(ok and is_inc(st, "instruction_count"), f"{short(f.qname)}|instruction_count-writer", f.loc(st),
                f"unexpected TOY writer of instruction_count: `{seg(f, st)}`")
    for f, st, t in attr_stores(m, "branch_count"):
        if ".toy." in f.qname or "toy_" in f.module.name:
            r.check(f.cls is not None and f.cls.name == "BRZ" and is_inc(st, "branch_count"), f"{short(f.qname)}|branch_count-writer", f.loc(st),
                    f"unexpected TOY writer of branch_count: `{seg(f, st)}`")
    r.floor(4)

    # --------------------------------------------------------------- operators
    r = ctx.rule("R06.op", "operator table of the 13 opcodes")
    for key in sorted(OPTABLE):
        if key not in rows:
            raise AnalysisError(f"TOY instruction_map lost {key}")
        c = rows[key]["cls"]
        beh = c.methods.get("behavior")
        if beh is None:
            r.check(False, f"{c.name}.behavior", c.loc(), f"{c.name} has no behavior of its own")
            continue
        env: dict = {}
        accu_val = None
        stores = []
        pc_sets = []
        for n in walk_no_nested(beh.node):
            if isinstance(n, ast.Assign) and isinstance(n.targets[0], ast.Name):
                env[n.targets[0].id] = n.value
        for n in walk_no_nested(beh.node):
            if isinstance(n, ast.Assign) and ast.unparse(n.targets[0]) == "state.accu":
                accu_val = _norm(n.value, env, beh)
            elif isinstance(n, ast.AugAssign) and ast.unparse(n.target) == "state.accu" and type(n.op) in OPS:
                accu_val = _canon((OPS[type(n.op)], "accu", _norm(n.value, env, beh)))
            elif isinstance(n, ast.Call) and ast.unparse(n.func) == "state.memory.write_halfword":
                kw = {k.arg: k.value for k in n.keywords}
                a = kw.get("address", n.args[0] if n.args else None)
                v = kw.get("value", n.args[1] if len(n.args) > 1 else None)
                stores.append((ast.unparse(a) if a is not None else "?", _norm(v, env, beh) if v is not None else "?"))
            elif isinstance(n, ast.Call) and ast.unparse(n.func) in ("state.set_current_pc",):
                pc_sets.append(n)
            elif isinstance(n, (ast.Assign, ast.AugAssign)) and "program_counter" in ast.unparse(n.targets[0] if isinstance(n, ast.Assign) else n.target):
                pc_sets.append(n)
        want = OPTABLE[key]
        wa = _canon(want["accu"]) if isinstance(want["accu"], tuple) else want["accu"]
        r.check(_canon(accu_val) == wa if isinstance(accu_val, tuple) else accu_val == wa, f"{c.name}|accu", beh.loc(),
                f"TOY {key}: accumulator becomes {accu_val!r}, documented {wa!r}", {"accu": repr(accu_val)})
        if want.get("store"):
            r.check(stores == [("self.address", "accu")], f"{c.name}|store", beh.loc(), f"TOY {key}: stores {stores}, documented MEM[address] = accu")
        else:
            r.check(not stores, f"{c.name}|store", beh.loc(), f"TOY {key} writes memory: {stores}")
        if want.get("branch"):
            ok = False
            for p in function_paths(beh.node):
                facts = set()
                sets = 0
                for e in p.events:
                    if e.kind == "test":
                        facts |= facts_of(e.node, bool(e.pol))
                    if e.kind == "stmt":
                        for cc in calls_in(e.node):
                            if ast.unparse(cc.func) == "state.set_current_pc":
                                sets += 1
                                ok = ast.unparse(cc.args[0]) in ("UInt12(self.address)", "self.address") and \
                                    (("state.accu", False) in facts or ("0 == state.accu", True) in facts)
                                if not ok:
                                    r.viol(f"{c.name}|branch", beh.loc(cc), "BRZ sets pc under the wrong condition or to the wrong target "
                                           "(taken exactly when accu == 0, to its address field)", p.labels())
                if (("state.accu", False) in facts or ("0 == state.accu", True) in facts) and sets != 1:
                    r.viol(f"{c.name}|branch-taken", beh.loc(), f"BRZ with accu == 0 sets pc {sets} times", p.labels())
                if (("state.accu", True) in facts or ("0 == state.accu", False) in facts) and sets:
                    r.viol(f"{c.name}|branch-not-taken", beh.loc(), "BRZ with accu != 0 changes pc", p.labels())
            r.inst(f"{c.name}|branch", None)
        else:
            r.check(not pc_sets, f"{c.name}|pc", beh.loc(), f"TOY {key} writes the program counter")
    r.floor(30)

    # ------------------------------------------------------------------- wrap
    r = ctx.rule("R06.wrap", "values stored into accu / pc are UInt16 / UInt12 typed")
    for f, st, t in attr_stores(m, "accu"):
        if not ("toy" in f.module.name):
            continue
        v = st.value if isinstance(st, (ast.Assign, ast.AugAssign, ast.AnnAssign)) else None
        ok = v is not None and _typed16(v, f)
        r.check(ok, f"{short(f.qname)}|accu", f.loc(st), f"`{seg(f, st)}` may store a value that is not a UInt16 (no 16-bit wrap-around)")
    for f, st, t in attr_stores(m, "program_counter"):
        if not ("toy" in f.module.name):
            continue
        v = st.value if isinstance(st, (ast.Assign, ast.AugAssign, ast.AnnAssign)) else None
        txt = ast.unparse(v) if v is not None else ""
        ok = (v is not None and _typed12(v, f)) or txt == "address" and f.name == "set_current_pc"
        r.check(ok, f"{short(f.qname)}|pc", f.loc(st), f"`{seg(f, st)}` may store a value that is not a UInt12 (no 12-bit wrap-around)")
    r.floor(10)

    r = ctx.rule("R06.dec", "decode is total and opcodes 13-15 act as NOP")
    chain, default, total = decode_chain(ctx)
    nop = rows["NOP"]["cls"]
    r.check(total and default is nop, "from_integer|default", m.method("ToyInstruction", "from_integer").loc(),
            "words with an unassigned opcode do not decode to NOP")
    r.check(set(range(12)) <= set(chain), "from_integer|explicit", m.method("ToyInstruction", "from_integer").loc(),
            f"opcodes decoded to a class of their own are {sorted(chain)}; 0..11 are required")
    fields_rule(ctx, "R06.fields")


def _typed12(v: ast.AST, f) -> bool:
    """RHS is a UInt12: a UInt12(...) call, the program counter itself (through local aliases), or an arithmetic
    combination whose left operand is one (fixedint: UInt12 op x -> UInt12)."""
    env = {}
    for n in walk_no_nested(f.node):
        if isinstance(n, ast.Assign) and isinstance(n.targets[0], ast.Name):
            env.setdefault(n.targets[0].id, []).append(n.value)

    def rec(e: ast.AST, depth: int = 0) -> bool:
        if depth > 6:
            return False
        if isinstance(e, ast.Name) and e.id in env:
            return all(rec(x, depth + 1) for x in env[e.id])
        if isinstance(e, ast.Attribute) and e.attr == "program_counter":
            return True  # every writer is checked by this very rule
        if isinstance(e, ast.Call):
            return ast.unparse(e.func) in ("UInt12", "fixedint_12.UInt12")
        if isinstance(e, ast.BinOp) and type(e.op) in OPS:
            l, rr = rec(e.left, depth + 1), rec(e.right, depth + 1)
            return (l and (rr or const_int(e.right) is not None)) or (rr and l)
        return False

    return rec(v)


def _typed16(v: ast.AST, f) -> bool:
    """RHS is built from UInt16 operands by operators (so the result is a UInt16)."""
    env = {}
    for n in walk_no_nested(f.node):
        if isinstance(n, ast.Assign) and isinstance(n.targets[0], ast.Name):
            env[n.targets[0].id] = n.value

    def rec(e: ast.AST, depth: int = 0) -> bool:
        if depth > 6:
            return False
        if isinstance(e, ast.Name) and e.id in env:
            return rec(env[e.id], depth + 1)
        t = ast.unparse(e)
        if t == "state.accu":
            return True
        if isinstance(e, ast.Call):
            fn = ast.unparse(e.func)
            if fn in ("UInt16", "fixedint.UInt16"):
                return True
            if fn == "state.memory.read_halfword":
                return True
            return False
        if isinstance(e, ast.BinOp) and type(e.op) in OPS:
            # fixedint: UInt16 op int -> UInt16 ; at least one side must be typed
            l, rr = rec(e.left, depth + 1), rec(e.right, depth + 1)
            return (l and (rr or const_int(e.right) is not None)) or (rr and const_int(e.left) is not None)
        if isinstance(e, ast.UnaryOp) and isinstance(e.op, ast.Invert):
            return rec(e.operand, depth + 1)
        return False

    return rec(v)
