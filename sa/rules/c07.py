"""C07 -- retire times / cycle count follow the documented schedule.

R07.tick   Pipeline.step counts exactly one cycle, before any stage can run or raise.
R07.own    `cycles` has no writer besides Pipeline.step (+1), the miss branches of the
           ten counted cache methods (+miss penalty) and the two TOY half-steps (+1).
R07.pen    the penalty is added exactly on counted miss paths (R09.acct instances).
R07.order / R07.depth / R07.stallpair / R07.drain / R07.src
           the schedule's structural constants: write-before-read stage order, two
           bubbles = distance ID..WB, flush cancels stall, ecall drain window.
"""
from __future__ import annotations

import ast

from ..cachepaths import counted_methods, sanctioned_helpers
from ..common import attr_stores, seg, short
from ..model import AnalysisError
from ..paths import calls_in, event_exprs, function_paths
from ..pipelinerules import depth_rule, drain_rule, order_rule, src_rule, stallpair_rule, flushres_rule
from ..report import Ctx
from .c09 import acct_rule

EXPLANATION = (
    "Decides the clauses of the schedule that are visible in the code's shape: the cycle counter "
    "is incremented exactly once per pipeline step before anything can raise, has no writer other "
    "than that tick, the miss-penalty statements (each on a counted miss path only) and the TOY "
    "half-steps -- hence 'each step advances the counter by one plus the miss penalties'; and the "
    "constants the documented schedule is built from agree with each other (write-back runs "
    "before decode, the interlock looks at and stalls for exactly the stages between ID and WB, "
    "control transfers are resolved in MEM and flush the three younger latches, a flush cancels a "
    "stall, the ecall drain window covers MEM and WB). The retire cycle of each instruction of "
    "each program is a dynamic quantity and is not decided."
)
ASSUMPTIONS = ["a stall's duration semantics inside Pipeline.step (duration+1 countdown) is value-level and not decided"]
TRUSTED = ["CPython ast", "sa.paths enumeration", "sa.consteval"]


def run(ctx: Ctx) -> None:
    m = ctx.model
    step = m.method("Pipeline", "step", own=True)
    sn = step.params[0]

    def is_tick(n: ast.AST) -> bool:
        return isinstance(n, ast.AugAssign) and isinstance(n.op, ast.Add) and isinstance(n.target, ast.Attribute) \
            and n.target.attr == "cycles" and isinstance(n.value, ast.Constant) and n.value.value == 1 \
            and not isinstance(n.value.value, bool)

    r = ctx.rule("R07.tick", "Pipeline.step: exactly one `cycles += 1`, before any stage dispatch")
    npaths = 0
    bad_reported = False
    for p in function_paths(step.node):
        npaths += 1
        ticks = [i for i, e in enumerate(p.events) if e.kind == "stmt" and is_tick(e.node)]
        if len(ticks) != 1:
            if not bad_reported:
                r.viol("Pipeline.step|tick-count", step.loc(), f"a path through Pipeline.step ticks the cycle counter "
                       f"{len(ticks)} times", p.labels()[:12])
                bad_reported = True
            continue
        before = p.events[: ticks[0]]
        risky = [c for e in before for x in event_exprs(e) for c in calls_in(x) if isinstance(c.func, ast.Attribute)]
        if (risky or any(e.kind in ("test", "loop") for e in before)) and not bad_reported:
            r.viol("Pipeline.step|tick-late", step.loc(p.events[ticks[0]].node),
                   "the cycle tick is not the first thing Pipeline.step does: a raising stage or an early exit "
                   "could skip it", p.labels()[: ticks[0] + 1])
            bad_reported = True
    r.inst("Pipeline.step", {"paths": npaths})
    r.floor(1)

    r = ctx.rule("R07.own", "who may write `cycles`")
    counted = {f.qname for f, _ in counted_methods(m)} | sanctioned_helpers(m)
    n = 0
    for f, st, t in attr_stores(m, "cycles"):
        n += 1
        key = f"{short(f.qname)}|{seg(f, st)}"
        if f is step:
            ok = is_tick(st)
        elif f.qname in counted:
            ok = isinstance(st, ast.AugAssign) and isinstance(st.op, ast.Add) and ast.unparse(st.value) == f"{f.params[0]}.miss_penality"
        elif f.cls is not None and f.cls.name == "ToySimulation" and f.name in ("first_cycle_step", "second_cycle_step"):
            ok = is_tick(st)
        else:
            ok = False
        r.check(ok, key, f.loc(st), f"unexpected writer of the cycle counter: {short(f.qname)}: `{seg(f, st)}`")
    r.floor(6)  # the pipeline tick, the two TOY ticks, and a penalty writer per cache system
    # the TOY halves tick exactly once per non-done, non-raising path
    for name in ("first_cycle_step", "second_cycle_step"):
        f = m.method("ToySimulation", name, own=True)
        for p in function_paths(f.node):
            if p.term in ("raise", "return") and p.term_node is not None:
                continue
            k = sum(1 for e in p.events if e.kind == "stmt" and is_tick(e.node))
            r.check(k == 1, f"ToySimulation.{name}|tick", f.loc(), f"{name} ticks {k} times on its normal path")

    acct_rule(ctx, "R07.pen", penalty_only=True)
    from ..wiring import wiring_rule
    wiring_rule(ctx, "R07.wire", fields=("miss_penality", "performance_metrics"))
    from ..wiring import metrics_identity_rule
    metrics_identity_rule(ctx, "R07.metrics")
    order_rule(ctx, "R07.order")
    depth_rule(ctx, "R07.depth")
    src_rule(ctx, "R07.src")
    stallpair_rule(ctx, "R07.stallpair")
    drain_rule(ctx, "R07.drain")
    flushres_rule(ctx, "R07.resolve")
    from .c01 import riscv_map
    from .c02 import split_rule
    split_rule(ctx, riscv_map(ctx), "R07.split", interlock_only=True)
    from ..stagespec import datapath_rule
    datapath_rule(ctx, "R07.mux")
    from ..pipelinespec import step_rule
    step_rule(ctx, "R07.step")
