"""C08 -- hazard detection off behaves as an interlock-free pipeline (structural clauses).

R08.gate    detect_data_hazards is read exactly once, as the test of an `if` in ID.behavior
            whose body's only effect is binding stall_signal; every StallSignal(..) of ID is
            inside it; register read, write-register lookup and the returned latch are not.
R08.thread  the constructor flag flows unmodified RiscvSimulation -> RiscvArchitecturalState
            -> InstructionDecodeStage -> self.detect_data_hazards.
R08.order   WB runs before ID in a cycle (write-before-read), ID reads in decode.
R08.conf    ID writes nothing, WB is the only register writer among the stages.
R08.ecall   the ecall drain (EX) and flush handling do not consult the flag.
"""
from __future__ import annotations

import ast

from ..common import all_functions, effects, seg, short
from ..model import AnalysisError, walk_no_nested
from ..paths import calls_in
from ..pipelinerules import drain_rule, order_rule, stallpair_rule
from ..report import Ctx

EXPLANATION = (
    "Decides that the flag gates the decode interlock and nothing else: it has one reader (the "
    "`if` around the hazard comparison in ID.behavior), that `if` only binds the stall signal, "
    "every other statement of decode (register read, destination lookup, the latch it returns) "
    "lies outside it, and the constructor parameter reaches that attribute unmodified through "
    "three hops; together with write-before-read stage order and effect confinement (ID writes "
    "nothing; only WB writes registers) this is the mechanism behind 'observes exactly the "
    "completed write-backs'. The stale-read semantics by value and the equivalence for nop-padded "
    "programs quantify over dynamic producer/consumer distances and are not decided."
)
ASSUMPTIONS = ["tabled control hazards / ecall drain do not depend on the flag (checked: no other reader)"]
TRUSTED = ["CPython ast", "sa.effects"]


def run(ctx: Ctx) -> None:
    m = ctx.model
    r = ctx.rule("R08.gate", "detect_data_hazards gates the interlock only")
    idc = m.cls("InstructionDecodeStage")
    beh = m.method(idc, "behavior", own=True)
    readers = []
    for f in all_functions(m):
        for n in walk_no_nested(f.node):
            if isinstance(n, ast.Attribute) and n.attr == "detect_data_hazards" and isinstance(n.ctx, ast.Load):
                readers.append((f, n))
    r.check(len(readers) == 1 and readers[0][0] is beh, "detect_data_hazards|readers", beh.loc(),
            f"detect_data_hazards is read in {[short(f.qname) for f, _ in readers]}; it must have exactly one reader, ID.behavior")
    # On the normal form of ID.behavior (every local substituted, the returned latch one constructor call): with F = the flag,
    #   (a) no latch field but stall_signal and no effect's condition or arguments depend on F, except pure look-ups of the
    #       in-flight destinations (get_write_register of other latches) that only feed the stall decision;
    #   (b) stall_signal with F assumed false is None, with F assumed true it does not mention F any more (F gates, nothing else);
    #   (c) every StallSignal(..) the stage can produce sits under F.
    from ..stagespec import stage_flow
    fl = stage_flow(ctx, "InstructionDecodeStage")
    pr = fl.cprinter
    F = ast.Attribute(value=ast.Name(id=beh.params[0], ctx=ast.Load()), attr="detect_data_hazards", ctx=ast.Load())
    Ftxt = pr.show(F)

    def mentions(x: ast.AST) -> bool:
        return any(isinstance(y, ast.Attribute) and y.attr == "detect_data_hazards" for y in ast.walk(x))

    full = [x for x in fl.returns if isinstance(x.value, ast.Call) and x.value.keywords]
    if not full:
        raise AnalysisError("anchor vanished: InstructionDecodeStage.behavior no longer returns a latch built with keyword arguments")
    n_f = 0
    for x in full:
        for k in x.value.keywords:  # type: ignore[union-attr]
            if k.arg == "stall_signal":
                n_f += 1
                off = pr.resolve_under(k.value, pr._bool(F, False))
                on = pr.resolve_under(k.value, pr._bool(F, True))
                r.check(isinstance(off, ast.Constant) and off.value is None, "ID.behavior|gate", beh.loc(),
                        f"with detect_data_hazards off the stall signal is `{pr.show(off)}`, not None: the flag no longer disables the interlock")
                r.check(not mentions(on), "ID.behavior|gate-else", beh.loc(),
                        "with detect_data_hazards on the stall decision still consults the flag (negated / combined tests change what the flag disables)")
                stalls = [y for y in ast.walk(off) if isinstance(y, ast.Call) and isinstance(y.func, ast.Name) and y.func.id == "StallSignal"]
                r.check(not stalls, "ID.behavior|StallSignal", beh.loc(), "a decode stall is requested although the flag is off")
            else:
                r.check(not mentions(k.value), f"ID.behavior|field {k.arg}", beh.loc(),
                        f"latch field `{k.arg}` depends on detect_data_hazards: decode would behave differently with detection off beyond the missing stall")
        r.check(not any(mentions(t) for t, _p in x.cond), "ID.behavior|gate-body", beh.loc(), "whether ID returns its latch depends on detect_data_hazards")
    for e in fl.effects:
        dep = any(mentions(t) for t, _p in e.cond) or mentions(e.expr)
        if not dep:
            continue
        pure_lookup = e.kind == "call" and isinstance(e.expr, ast.Call) and isinstance(e.expr.func, ast.Attribute) \
            and e.expr.func.attr in ("get_write_register",) and not mentions(e.expr)
        pure_lookup = pure_lookup or (e.kind == "call" and isinstance(e.expr, ast.Call) and isinstance(e.expr.func, ast.Name)
                                      and e.expr.func.id == "StallSignal" and not mentions(e.expr))  # building the signal itself
        is_assert = e.kind == "raise" and "AssertionError" in pr.show(e.expr)
        if e.kind == "call" and isinstance(e.expr, ast.Call) and isinstance(e.expr.func, ast.Name) and e.expr.func.id == "InstructionDecodePipelineRegister" \
                and not any(mentions(t) for t, _p in e.cond):
            continue  # the returned latch: judged field by field above
        r.check(pure_lookup or is_assert, "ID.behavior|gate-body", beh.loc(e.node),
                f"`{pr.show(e.expr)[:120]}` happens depending on detect_data_hazards: the gated part must only decide the stall signal")
    if n_f == 0:
        raise AnalysisError("anchor vanished: stall_signal field of the ID latch")
    for what in ("access_register_file", "InstructionDecodePipelineRegister"):
        r.inst(f"ID.behavior|{what}", "independent of the flag (see field / effect checks)")
    r.floor(8)

    r = ctx.rule("R08.thread", "constructor flag reaches ID unmodified")
    sim = m.method("RiscvSimulation", "__init__", own=True)
    st = m.method("RiscvArchitecturalState", "__init__", own=True)
    idi = m.method(idc, "__init__", own=True)
    def arg_of(call: ast.Call, callee, pname: str):
        ps = callee.params[1:]
        given = {ps[i]: a for i, a in enumerate(call.args) if i < len(ps)}
        given.update({k.arg: k.value for k in call.keywords if k.arg})
        return given.get(pname)

    def is_param(e, f, pname: str) -> bool:
        return isinstance(e, ast.Name) and e.id == pname and pname in f.params

    hop1 = any(m.resolve_class(sim.module, c.func) is m.cls("RiscvArchitecturalState") and is_param(arg_of(c, st, "detect_data_hazards"), sim, "detect_data_hazards")
               for c in calls_in(sim.node))
    r.check(hop1 and "detect_data_hazards" in sim.params, "RiscvSimulation->state", sim.loc(),
            "RiscvSimulation does not pass detect_data_hazards=detect_data_hazards to the architectural state")
    # every other place that builds an architectural state (a rewind on reload, a copy) must hand the same flag on: a state built
    # without it runs with the default (detection on)
    stc = m.cls("RiscvArchitecturalState")
    for f in all_functions(m, skip_cli=True):
        if f is sim:
            continue
        for c in calls_in(f.node):
            if isinstance(c.func, (ast.Name, ast.Attribute)) and m.resolve_class(f.module, c.func) is stc:
                a = arg_of(c, st, "detect_data_hazards")
                ok = a is not None and not isinstance(a, ast.Constant)
                r.check(ok, f"{short(f.qname)}|RiscvArchitecturalState(..)", f.loc(c), f"{short(f.qname)} builds a RiscvArchitecturalState "
                        f"{'without' if a is None else 'with a constant'} detect_data_hazards: the simulation's flag is lost for what runs on that state")
    from ..pipelinerules import five_stage_config
    try:
        cfg = five_stage_config(ctx)
        id_calls = [c for c in cfg["stage_calls"] if m.resolve_class(st.module, c.func) is idc]
    except AnalysisError as exc:
        # the state no longer builds its own list of fresh stages: then it does not hand its flag to a decode stage of its own either
        ctx.notes.append(f"R08.thread: {exc}")
        id_calls = []
    hop2 = len(id_calls) == 1 and is_param(arg_of(id_calls[0], idi, "detect_data_hazards"), st, "detect_data_hazards")
    r.check(hop2 and "detect_data_hazards" in st.params, "state->ID", st.loc(),
            "RiscvArchitecturalState does not pass detect_data_hazards on to InstructionDecodeStage")
    hop3 = any(isinstance(n, ast.Assign) and ast.unparse(n.targets[0]) == f"{idi.params[0]}.detect_data_hazards"
               and is_param(n.value, idi, "detect_data_hazards") for n in walk_no_nested(idi.node))
    r.check(hop3, "ID.__init__", idi.loc(), "InstructionDecodeStage does not store the flag unmodified")
    for f in (sim, st, idi):
        re = [n for n in walk_no_nested(f.node) if isinstance(n, (ast.Assign, ast.AugAssign)) and any(
            isinstance(t, ast.Name) and t.id == "detect_data_hazards" for t in (n.targets if isinstance(n, ast.Assign) else [n.target]))]
        r.check(not re, f"{short(f.qname)}|rebinding", f.loc(re[0]) if re else f.loc(), "detect_data_hazards is rebound on its way to ID")
    stores = []
    for f in all_functions(m):
        for n in walk_no_nested(f.node):
            if isinstance(n, (ast.Assign, ast.AugAssign)):
                for t in (n.targets if isinstance(n, ast.Assign) else [n.target]):
                    if isinstance(t, ast.Attribute) and t.attr == "detect_data_hazards":
                        stores.append(f)
    r.check(stores == [idi], "detect_data_hazards|writers", idi.loc(), f"detect_data_hazards is written by {[short(f.qname) for f in stores]}")
    # front end hop
    gw = m.func("gui.webgui.get_riscv_simulation")
    ok = any(any(k.arg == "detect_data_hazards" and ast.unparse(k.value) == "data_hazard_detection" for k in c.keywords) for c in calls_in(gw.node))
    r.check(ok, "webgui.get_riscv_simulation", gw.loc(), "the web entry point does not forward data_hazard_detection")
    r.floor(8)

    order_rule(ctx, "R08.order")
    drain_rule(ctx, "R08.drain")
    stallpair_rule(ctx, "R08.stallpair")

    r = ctx.rule("R08.readsite", "the register file is read in decode only (access_register_file), never in EX/MEM/WB callbacks")
    n_cls = 0
    for c in m.subclasses(m.cls("RiscvInstruction")):
        for mn in ("alu_compute", "memory_access", "write_back", "control_unit_signals", "get_write_register"):
            f = c.methods.get(mn)
            if f is None:
                continue
            n_cls += 1
            reads = [n for n in ast.walk(f.node) if isinstance(n, ast.Subscript) and isinstance(n.ctx, ast.Load)
                     and isinstance(n.value, ast.Attribute) and n.value.attr == "registers"]
            r.check(not reads, f"{c.name}.{mn}", f.loc(reads[0]) if reads else f.loc(),
                    f"{c.name}.{mn} reads the register file after decode: with hazard detection off it would observe a younger "
                    "write-back than the documented stale value (and differ from the operand latched in ID)")
    r.floor(60)

    r = ctx.rule("R08.conf", "ID writes nothing; among the five stages only WB writes registers")
    eff = effects(ctx)
    for sn in ("InstructionFetchStage", "InstructionDecodeStage", "ExecuteStage", "MemoryAccessStage", "RegisterWritebackStage"):
        f = m.method(sn, "behavior", own=True)
        s = eff.solved(f)
        if s.unresolved:
            raise AnalysisError(f"R08.conf: unresolved call in {sn}: {sorted(s.unresolved)[0]}")
        regw = [w for w in s.writes.values() if w.path[:2] == ("register_file", "registers")]
        if sn == "InstructionDecodeStage":
            r.check(not s.writes, sn, f.loc(), f"ID has write effects: {[w.describe() for w in list(s.writes.values())[:2]]}")
        elif sn == "RegisterWritebackStage":
            r.check(bool(regw), sn, f.loc(), "WB no longer writes the register file")
        else:
            r.check(not regw, sn, f.loc(), f"{sn} writes registers: {[w.describe() for w in regw[:2]]}")
    r.floor(5)
    from ..stagespec import datapath_rule
    datapath_rule(ctx, "R08.mux")
    from ..pipelinespec import step_rule
    step_rule(ctx, "R08.step")
