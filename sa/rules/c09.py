"""C09 -- data-cache accounting.

R09.acct  on every counted path of each of the ten counted access methods exactly
          one `accesses += 1`, one hit-count update by the hit flag, one
          `last_was_hit = hit`, and the miss penalty exactly on the miss branch;
          on every uncounted path none of them.
R09.hit   the hit flag is `block is not None` of the block the *cache* returned,
          taken before the block variable is rebound by the fill.
R09.own   hits / accesses / last_was_hit are written nowhere else.
R09.once  each executed load / store performs exactly one counted access; the
          display re-read, ECALL string read and parser preloads are uncounted;
          no other call site reaches the data memory.
"""
from __future__ import annotations

import ast

from ..cachepaths import READS, STAT_FIELDS, WRITES, classify, counted_methods, hit_names, sanctioned_helpers, self_attr
from ..common import all_functions, attr_stores, seg, short
from ..model import AnalysisError, walk_no_nested
from ..paths import calls_in
from ..report import Ctx

EXPLANATION = (
    "Decides the accounting discipline structurally: every enumerated path of the ten counted "
    "cache access methods (3 reads, 3+3 writes, instruction fetch) carries the complete accounting "
    "group exactly once when the access is counted and not at all when it is uncounted, the hit "
    "flag is the cache lookup's verdict, the counters have no other writer, and every load/store "
    "instruction performs exactly one counted access in either pipeline mode while display, ECALL "
    "and parser accesses are uncounted. Equality with a reference cache's hit/miss *sequence* "
    "depends on replacement state over histories and is not decided."
)
ASSUMPTIONS = ["tests on a path are not correlated (adds infeasible paths only; conservative)"]
TRUSTED = ["CPython ast", "sa.paths enumeration"]


def _strip_tags(t: str) -> str:
    import re
    return re.sub(r"@\d+", "", t)


def stat_stores(m, f):
    """The statistic updates of one counted method from its normal form (sa.symflow + exclusive-store merge):
    {field: [(value text, value AST, condition AST)]}, the raise conditions, and the flow."""
    from ..flowspec import _cond_ast, _merge_exclusive_stores
    from ..parsershape import normal_flow
    fl = normal_flow(m, f)
    out: dict = {k: [] for k in ("accesses", "hits", "last_was_hit", "cycles")}
    raises = []
    for e, expr, cond in _merge_exclusive_stores(fl):
        if e.kind == "raise":
            raises.append(_cond_ast(cond))
        if e.kind != "store" or not isinstance(expr, ast.Assign):
            continue
        tgt = _strip_tags(fl.canon(expr.targets[0]))
        for fld, want in (("accesses", "P0.accesses"), ("hits", "P0.hits"), ("last_was_hit", "P0.last_was_hit"), ("cycles", "P0.performance_metrics.cycles")):
            if tgt == want:
                out[fld].append((_strip_tags(fl.canon(expr.value)), expr.value, _cond_ast(cond), e))
    return out, raises, fl


def acct_rule(ctx: Ctx, rid: str = "R09.acct", only=None, penalty_only: bool = False) -> None:
    """Accounting of every counted method, decided on its normal form: with C = "this call is counted" (update_statistics /
    not directly_write_to_lower_memory / always for the instruction cache), A = the condition under which `accesses` is
    incremented and H = the value stored in `last_was_hit`:
        A implies C, and a counted call that is not accounted ends in a raise (rejected access);
        accesses += 1, last_was_hit = H and hits += int(H) (or += 1 under H) exactly under A, each once;
        cycles += miss_penality exactly under A and not H, once.
    Conditions are compared as truth functions, so flags, early returns, helpers and `if hit: .. else: ..` are one form."""
    from ..symflow import Printer
    m = ctx.model
    r = ctx.rule(rid, "accounting group exactly once on counted accesses, never on uncounted ones (normal-form stores, truth-function conditions)")
    n_inst = 0
    for f, kind in counted_methods(m):
        if only is not None and not only(f):
            continue
        key0 = short(f.qname)
        st, raises, fl = stat_stores(m, f)
        pr = Printer(m, f.params, {}, canonical=True)

        def same(a_: ast.AST, b_: ast.AST) -> bool:
            t = pr._tables([pr._bool(a_), pr._bool(b_)])
            return t is not None and t[1][0] == t[1][1]

        def conj_(*xs):
            xs = [x for x in xs if x is not None]
            return xs[0] if len(xs) == 1 else ast.BoolOp(op=ast.And(), values=list(xs))

        def neg(x):
            return ast.UnaryOp(op=ast.Not(), operand=x)

        if kind == "read":
            C: ast.AST = ast.Name(id="update_statistics", ctx=ast.Load())
        elif kind == "write":
            C = neg(ast.Name(id="directly_write_to_lower_memory", ctx=ast.Load()))
        else:
            C = ast.Constant(value=True)
        key = f"{key0}|counted"
        n_inst += 1
        r.inst(key, {k: [(v[0], fl.cprinter.show_test(v[2])) for v in vs] for k, vs in st.items()})
        probs: list = []
        loc = f.loc()
        if not penalty_only:
            if len(st["accesses"]) != 1 or st["accesses"][0][0] != "Add(1, P0.accesses)":
                probs.append(f"`accesses += 1` must happen exactly once per counted access; found {[v[0] for v in st['accesses']]}")
        if not st["last_was_hit"] or (not st["accesses"] and not penalty_only):
            if not probs:
                probs.append("the last-access hit flag is not recorded")
        if not probs:
            H = st["last_was_hit"][0][1]
            A = st["accesses"][0][2] if st["accesses"] else st["last_was_hit"][0][2]
            Htxt = st["last_was_hit"][0][0]
            # A implies C; counted calls that are not accounted are rejected (raise)
            if not same(conj_(A, neg(C)), ast.Constant(value=False)):
                probs.append("an uncounted access (update_statistics false / direct write) updates the statistics")
            rej = ast.BoolOp(op=ast.Or(), values=raises) if len(raises) > 1 else raises[0] if raises else ast.Constant(value=False)
            if not probs and not same(conj_(C, neg(A)), conj_(C, rej)):
                probs.append("a counted access that is not rejected leaves `accesses` untouched")
            if not penalty_only:
                if len(st["last_was_hit"]) != 1 or not same(st["last_was_hit"][0][2], A):
                    probs.append(f"`last_was_hit` is not set exactly once on every counted access")
                hs = st["hits"]
                ok_h = False
                if len(hs) == 1:
                    v, vast, c, _e = hs[0]
                    if v in (f"Add(P0.hits, int({Htxt}))", f"Add(P0.hits, {Htxt})", f"Add(P0.hits, int(B:{Htxt}))") and same(c, A):
                        ok_h = True
                    elif v == "Add(1, P0.hits)" and same(c, conj_(A, H)):
                        ok_h = True
                    elif v.startswith("cases[") and same(c, A):
                        # hits = hits + 1 if H else hits
                        leaves = fl.cprinter.show(ast.IfExp(test=H, body=ast.parse("self.hits + 1", mode="eval").body,
                                                            orelse=ast.parse("self.hits", mode="eval").body))
                        ok_h = _strip_tags(leaves).replace("self.", "P0.") == v
                if not ok_h:
                    probs.append(f"the hit counter is not incremented exactly on counted hits (by the recorded hit flag); found {[(x[0], fl.cprinter.show_test(x[2])) for x in hs]}")
                    if hs:
                        loc = f.loc(hs[0][3].node)
            cy = st["cycles"]
            if len(cy) != 1 or cy[0][0] != "Add(P0.miss_penality, P0.performance_metrics.cycles)" or not same(cy[0][2], conj_(A, neg(H))):
                probs.append("the miss penalty is not added exactly once on every counted miss and never on a hit / uncounted access; found "
                             f"{[(x[0], fl.cprinter.show_test(x[2])) for x in cy]}")
                if cy:
                    loc = f.loc(cy[0][3].node)
        for msg in probs[:1]:
            r.viol(key, loc, f"{key0}: {msg}")
    ctx.extra.setdefault("paths_enumerated", {})[rid] = n_inst
    r.floor(10 if only is None else 1)


READ_BLOCK_REFS = {
    "WriteBackMemorySystem": '''
def _read_block(self, decoded_address):
    block_values = self.cache.read_block(decoded_address)
    hit = block_values is not None
    if block_values is None:
        block_values = self._read_block_from_memory(decoded_address)
        h, displaced_block = self.cache.write_block(decoded_address, block_values)
        if displaced_block is not None:
            db_addr, db_block = displaced_block
            self._write_block_to_memory(db_addr, db_block)
    return block_values, hit
''',
    "WriteThroughMemorySystem": '''
def _read_block(self, decoded_address):
    block_values = self.cache.read_block(decoded_address)
    hit = block_values is not None
    if block_values is None:
        block_values = self._read_block_from_memory(decoded_address)
        self.cache.write_block(decoded_address, block_values)
    return block_values, hit
''',
    "InstructionMemoryCacheSystem": '''
def _read_block(self, decoded_address):
    block_values = self.cache.read_block(decoded_address)
    hit = block_values is not None
    if block_values is None:
        block_values = self._read_block_from_memory(decoded_address)
        self.cache.write_block(decoded_address, block_values)
    return block_values, hit
''',
}


def hit_rule(ctx: Ctx, rid: str = "R09.hit") -> None:
    m = ctx.model
    r = ctx.rule(rid, "hit flag = `block is not None` of the cache lookup, taken before the fill rebinds it")
    funcs = [f for f, _ in counted_methods(m)]
    # the three lookups: compared with their reference formulation as normal forms (returns as decision
    # tables: `hit = x is not None ... return x, hit` and `if x is not None: return x, True` are the same)
    from ..flowspec import compare
    for cn, ref in READ_BLOCK_REFS.items():
        f = m.method(cn, "_read_block")
        compare(r, m, f, ref, f"{cn}._read_block",
                what="returns (cached block, True) on a hit and (block filled from below, False) on a miss, allocating the fill")
    # the flag each counted method records is the lookup's verdict: the second result of _read_block, or `block is not None` of
    # cache.read_block taken before the fill (the normal form substitutes the value the local had at that point)
    for f in funcs:
        key = short(f.qname)
        st, _raises, fl = stat_stores(m, f)
        vals = sorted({v[0] for v in st["last_was_hit"]})
        D = "P0._decode_address(address=P1)"
        ok = len(vals) == 1 and vals[0] in (f"P0._read_block(decoded_address={D})[1]", f"B:not(Is(None, P0.cache.read_block(decoded_address={D})))",
                                             f"B:P0._read_block(decoded_address={D})[1]")
        r.check(ok, f"{key}|hit", f.loc(), f"{key}: the recorded hit flag is `{vals}`; it must be the cache lookup's verdict for the accessed address "
                "(`_read_block(..)[1]`, or `cache.read_block(..) is not None` before the block is refilled)")
    # the hit decision inside the set (every valid way is looked at)
    from .c03 import block_index_rule
    block_index_rule(ctx, r)
    r.floor(13)


def run(ctx: Ctx) -> None:
    m = ctx.model
    acct_rule(ctx)
    hit_rule(ctx)

    r = ctx.rule("R09.own", "hits/accesses/last_was_hit have no writer outside the counted methods")
    allowed = {f.qname for f, _ in counted_methods(m)} | sanctioned_helpers(m)
    for fld in STAT_FIELDS:
        for f, st, t in attr_stores(m, fld):
            ok = f.qname in allowed or (f.cls is not None and f.cls.name in ("BaseCacheMemorySystem", "InstructionMemoryCacheSystem")
                                        and f.name in ("__init__", "reset"))
            r.check(ok, f"{short(f.qname)}|{fld}", f.loc(st),
                    f"{short(f.qname)} writes the cache statistic `{fld}`: `{seg(f, st)}`")
    # (the count of writers shrinks when duplicated blocks are merged into a helper: the floor only
    # guards against the three fields vanishing -- __init__, reset and one counted writer each)
    r.floor(9)

    r = ctx.rule("R09.cyc", "inside the cache code only the counted methods add to the cycle counter (their paths are judged by R09.acct)")
    allowed_cyc = {f.qname for f, _ in counted_methods(m)} | sanctioned_helpers(m)
    n_cyc = 0
    for f, st, t in attr_stores(m, "cycles"):
        if ".uarch.memory." not in f.qname:
            continue
        n_cyc += 1
        ok = f.qname in allowed_cyc and isinstance(st, ast.AugAssign) and isinstance(st.op, ast.Add) \
            and ast.unparse(st.value) == f"{f.params[0]}.miss_penality"
        r.check(ok, f"{short(f.qname)}|cycles", f.loc(st), f"{short(f.qname)} adds to the cycle counter (`{seg(f, st)}`): every counted miss must "
                "add exactly the configured miss penalty, and nothing else in the cache may")
    r.floor(3)

    once_rule(ctx)
    # five-stage mode counts every executed load / store once: MEM performs the instruction's memory access exactly once,
    # exactly when it holds an instruction (no shortcut for rd = x0 or the like); the single stage does the same through behavior()
    from ..stagespec import datapath_rule
    datapath_rule(ctx, "R09.mux", fields_only={"MemoryAccessStage": {"memory_read_data", "once:memory_access"}},
                  desc="MEM performs memory_access exactly once under the stage guard and latches what it returns")
    from .c10 import perset_rule
    perset_rule(ctx, "R09.perset")
    from ..siblingrule import sibling_rule
    from ..wiring import wiring_rule
    sibling_rule(ctx, "R09.sib", mode="accounting")
    wiring_rule(ctx, "R09.wire", which=("data",))
    from ..wiring import metrics_identity_rule
    metrics_identity_rule(ctx, "R09.metrics")
    # hit or miss is decided by set index and tag: two spellings of one address (wrapped / unwrapped) must decode alike (C03's rule)
    from .c03 import addr_rule
    addr_rule(ctx, "R09.addr")
    # which accesses hit depends on the replacement policy the cache is (re)built with: after reset() / load_program() the data cache is
    # the one the constructor built -- same geometry, same policy class (reset completeness, shared with C03 / C10 / C13)
    from ..resetrule import check_reset
    r_ = ctx.rule("R09.reset", "reset() rebuilds the data cache exactly as the constructor does (geometry and replacement policy)")
    check_reset(ctx, r_, "BaseCacheMemorySystem", fields={"cache": "reconstruct", "memory": "delegate"})


LOADS = {"LB": "read_byte", "LH": "read_halfword", "LW": "read_word", "LBU": "read_byte", "LHU": "read_halfword"}
STORES = {"SB": "write_byte", "SH": "write_halfword", "SW": "write_word"}


def _mem_calls(f) -> list[ast.Call]:
    """Calls ``<x>.memory.read_*/write_*`` in f."""
    out = []
    for c in calls_in(f.node):
        if isinstance(c.func, ast.Attribute) and c.func.attr in READS + WRITES \
                and isinstance(c.func.value, ast.Attribute) and c.func.value.attr == "memory":
            out.append(c)
    return out


def _flag_arg(c: ast.Call, flag: str):
    for k in c.keywords:
        if k.arg == flag:
            return k.value
    if len(c.args) >= (2 if c.func.attr in READS else 3):  # type: ignore[attr-defined]
        return c.args[1 if c.func.attr in READS else 2]  # type: ignore[attr-defined]
    return None


def once_rule(ctx: Ctx) -> None:
    m = ctx.model
    r = ctx.rule("R09.once", "one counted access per executed load/store; display/ECALL/preload uncounted")
    mod = m.module("isa.riscv.rv32i_instructions")
    sanctioned: set = set()
    for cn, meth in list(LOADS.items()) + list(STORES.items()):
        c = mod.classes.get(cn)
        if c is None:
            raise AnalysisError(f"anchor vanished: class {cn}")
        isload = cn in LOADS
        flag = "update_statistics" if isload else "directly_write_to_lower_memory"
        beh = m.method(c, "behavior", own=True)
        calls = _mem_calls(beh)
        sanctioned |= {id(x) for x in calls}
        ok = len(calls) == 1 and (calls[0].func.attr in READS) == isload and _flag_arg(calls[0], flag) is None  # type: ignore[attr-defined]
        r.check(ok, f"{cn}.behavior", beh.loc(), f"{cn}.behavior must perform exactly one counted "
                f"memory {'read' if isload else 'write'} (found {[ast.unparse(x.func) for x in calls]}, flag argument "
                f"{'present' if calls and _flag_arg(calls[0], flag) is not None else 'absent'})")
        ma = m.method(c, "memory_access", own=True)
        calls = _mem_calls(ma)
        sanctioned |= {id(x) for x in calls}
        ok = len(calls) == 1 and (calls[0].func.attr in READS) == isload  # type: ignore[attr-defined]
        if ok:
            a = _flag_arg(calls[0], flag)
            txt = ast.unparse(a) if a is not None else ""
            ok = txt == ("update_statistics" if isload else "not update_statistics")
        r.check(ok, f"{cn}.memory_access", ma.loc(), f"{cn}.memory_access must forward update_statistics to exactly "
                f"one memory.{meth}(..)")
    # callers of memory_access
    n_callers = 0
    for f in all_functions(m):
        for c in calls_in(f.node):
            if isinstance(c.func, ast.Attribute) and c.func.attr == "memory_access":
                n_callers += 1
                key = f"{short(f.qname)}|memory_access"
                flagv = None
                for k in c.keywords:
                    if k.arg == "update_statistics":
                        flagv = k.value
                if len(c.args) >= 4:
                    flagv = c.args[3]
                if f.cls is not None and f.cls.name == "MemoryAccessStage":
                    r.check(flagv is None, key, f.loc(c), "MemoryAccessStage must perform the counted access "
                            "(update_statistics left at its default)")
                elif f.cls is not None and f.cls.name == "SingleStage":
                    ok = isinstance(flagv, ast.Constant) and flagv.value is False
                    r.check(ok, key, f.loc(c), "the single-stage display re-read must pass update_statistics=False")
                else:
                    r.check(False, key, f.loc(c), f"unexpected caller of memory_access: {short(f.qname)}")
    if n_callers < 2:
        raise AnalysisError("R09.once: callers of memory_access vanished")
    # every other call site that reaches the data memory
    for f in all_functions(m):
        if f.cls is not None and (m.is_subclass(f.cls, m.cls("MemorySystem"))):
            continue  # the memory systems' own plumbing (self.memory.* is the lower memory)
        for c in _mem_calls(f):
            if id(c) in sanctioned:
                continue
            key = f"{short(f.qname)}|{c.func.attr}"  # type: ignore[attr-defined]
            isread = c.func.attr in READS  # type: ignore[attr-defined]
            a = _flag_arg(c, "update_statistics" if isread else "directly_write_to_lower_memory")
            if f.cls is not None and f.cls.name == "ECALL":
                ok = isinstance(a, ast.Constant) and a.value is False and isread
                r.check(ok, key, f.loc(c), "ECALL's string read must be uncounted (update_statistics=False)")
            elif f.cls is not None and f.cls.name == "RiscvParser":
                ok = (not isread) and isinstance(a, ast.Constant) and a.value is True
                r.check(ok, key, f.loc(c), "parser preloads must pass directly_write_to_lower_memory=True")
            elif f.cls is not None and f.cls.name in ("ToyParser",) or ".toy." in f.qname or "toy_" in f.qname:
                r.inst(key, "TOY memory (uncached Memory)")
            else:
                r.check(False, key, f.loc(c), f"unsanctioned data-memory access in {short(f.qname)}: `{seg(f, c)}`")
    r.floor(25)
