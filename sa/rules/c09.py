"""C09 -- data-cache accounting.

R09.acct  on every counted path of each of the ten counted access methods exactly
          one `accesses += 1`, one hit-count update by the hit flag, one
          `last_was_hit = hit`, and the miss penalty exactly on the miss branch;
          on every uncounted path none of them.
R09.hit   the hit flag is `block is not None` of the block the *cache* returned,
          taken before the block variable is rebound by the fill.
R09.own   hits / accesses / last_was_hit are written nowhere else.
R09.once  each executed load / store performs exactly one counted access; the
          display re-read, ECALL string read and parser preloads are uncounted;
          no other call site reaches the data memory.
"""
from __future__ import annotations

import ast

from ..cachepaths import READS, STAT_FIELDS, WRITES, classify, counted_methods, hit_names, sanctioned_helpers, self_attr
from ..common import all_functions, attr_stores, seg, short
from ..model import AnalysisError, walk_no_nested
from ..paths import calls_in
from ..report import Ctx

EXPLANATION = (
    "Decides the accounting discipline structurally: every enumerated path of the ten counted "
    "cache access methods (3 reads, 3+3 writes, instruction fetch) carries the complete accounting "
    "group exactly once when the access is counted and not at all when it is uncounted, the hit "
    "flag is the cache lookup's verdict, the counters have no other writer, and every load/store "
    "instruction performs exactly one counted access in either pipeline mode while display, ECALL "
    "and parser accesses are uncounted. Equality with a reference cache's hit/miss *sequence* "
    "depends on replacement state over histories and is not decided."
)
ASSUMPTIONS = ["tests on a path are not correlated (adds infeasible paths only; conservative)"]
TRUSTED = ["CPython ast", "sa.paths enumeration"]


def acct_rule(ctx: Ctx, rid: str = "R09.acct", only=None, penalty_only: bool = False) -> None:
    m = ctx.model
    r = ctx.rule(rid, "accounting group exactly once on counted paths, never on uncounted ones")
    total_paths = 0
    for f, kind in counted_methods(m):
        if only is not None and not only(f):
            continue
        key0 = short(f.qname)
        pcs = classify(f, kind)
        for j, pc in enumerate(pcs):
            if pc.path.term == "raise":
                continue
            total_paths += 1
            label = ("counted" if pc.counted else "uncounted" if pc.counted is False else "flag-untested") + \
                    ("/miss" if pc.hit_pol is False else "/hit" if pc.hit_pol else "")
            key = f"{key0}|{label}"
            r.inst(key, None)
            probs = []
            if penalty_only:
                pc.acc, pc.hits_val, pc.hits_lit, pc.last = [], [], [], []
                pc.acc_bad, pc.hits_bad, pc.last_bad = [], [], []
            stats = len(pc.acc) + len(pc.hits_val) + len(pc.hits_lit) + len(pc.last) + len(pc.pen) \
                + len(pc.acc_bad) + len(pc.hits_bad) + len(pc.last_bad) + len(pc.pen_bad)
            if pc.acc_bad or pc.hits_bad or pc.last_bad or pc.pen_bad:
                n = (pc.acc_bad + pc.hits_bad + pc.last_bad + pc.pen_bad)[0]
                probs.append((n, f"unrecognised statistic update `{seg(f, n)}`"))
            if pc.counted is None:
                if stats:
                    probs.append((f.node, "statistics are updated on a path that never consults the "
                                  "update_statistics / directly_write_to_lower_memory flag"))
            elif pc.counted is False:
                if stats:
                    n = (pc.acc + pc.hits_val + [x[0] for x in pc.hits_lit] + pc.last + [x[0] for x in pc.pen] + [f.node])[0]
                    probs.append((n, "an uncounted access updates statistics"))
            else:
                if penalty_only:
                    # C07 cares about the cycle counter only: exactly the miss penalty on counted misses
                    pc.acc, pc.last = [None], [None]
                    pc.hits_val, pc.hits_lit = [None], []
                if len(pc.acc) != 1:
                    probs.append((f.node, f"`accesses += 1` occurs {len(pc.acc)} times on a counted path"))
                if pc.hits_val:
                    if len(pc.hits_val) != 1 or pc.hits_lit:
                        probs.append((pc.hits_val[0], "hit counter updated more than once"))
                else:
                    want = 1 if pc.hit_pol else 0
                    if pc.hit_pol is None or len(pc.hits_lit) != want or any(pol is not True for _, pol in pc.hits_lit):
                        probs.append((f.node, "hit counter is not updated by the hit flag on a counted path"))
                if len(pc.last) != 1:
                    probs.append((f.node, f"`last_was_hit = hit` occurs {len(pc.last)} times on a counted path"))
                if pc.hit_pol is None:
                    probs.append((f.node, "the miss penalty is not conditioned on the hit flag"))
                elif pc.hit_pol is False and len(pc.pen) != 1:
                    probs.append((f.node, f"miss path adds the penalty {len(pc.pen)} times"))
                elif pc.hit_pol is True and pc.pen:
                    probs.append((pc.pen[0][0], "hit path adds the miss penalty"))
                if any(pol is not False for _, pol in pc.pen):
                    probs.append((pc.pen[0][0], "miss penalty is added outside the `not hit` branch"))
            for n, msg in probs[:1]:
                r.viol(key, f.loc(n), f"{key0}: {msg}", ["path assumptions:"] + pc.path.assumptions())
    ctx.extra.setdefault("paths_enumerated", {})[rid] = total_paths
    r.floor(30 if only is None else 2)


READ_BLOCK_REFS = {
    "WriteBackMemorySystem": '''
def _read_block(self, decoded_address):
    block_values = self.cache.read_block(decoded_address)
    hit = block_values is not None
    if block_values is None:
        block_values = self._read_block_from_memory(decoded_address)
        h, displaced_block = self.cache.write_block(decoded_address, block_values)
        if displaced_block is not None:
            db_addr, db_block = displaced_block
            self._write_block_to_memory(db_addr, db_block)
    return block_values, hit
''',
    "WriteThroughMemorySystem": '''
def _read_block(self, decoded_address):
    block_values = self.cache.read_block(decoded_address)
    hit = block_values is not None
    if block_values is None:
        block_values = self._read_block_from_memory(decoded_address)
        self.cache.write_block(decoded_address, block_values)
    return block_values, hit
''',
    "InstructionMemoryCacheSystem": '''
def _read_block(self, decoded_address):
    block_values = self.cache.read_block(decoded_address)
    hit = block_values is not None
    if block_values is None:
        block_values = self._read_block_from_memory(decoded_address)
        self.cache.write_block(decoded_address, block_values)
    return block_values, hit
''',
}


def hit_rule(ctx: Ctx, rid: str = "R09.hit") -> None:
    m = ctx.model
    r = ctx.rule(rid, "hit flag = `block is not None` of the cache lookup, taken before the fill rebinds it")
    funcs = [f for f, _ in counted_methods(m)]
    # the three lookups: compared with their reference formulation as normal forms (returns as decision
    # tables: `hit = x is not None ... return x, hit` and `if x is not None: return x, True` are the same)
    from ..flowspec import compare
    for cn, ref in READ_BLOCK_REFS.items():
        f = m.method(cn, "_read_block")
        compare(r, m, f, ref, f"{cn}._read_block",
                what="returns (cached block, True) on a hit and (block filled from below, False) on a miss, allocating the fill")
    for f in funcs:
        key = short(f.qname)
        sn = f.params[0]
        hn = hit_names(f)
        if not hn:
            r.check(False, key, f.loc(), f"{key}: no hit flag computed")
            continue
        for h, how in hn.items():
            if how == "unpack":
                r.inst(f"{key}|{h}", "second result of self._read_block")
                continue
            x = how[4:]
            binds = []
            hit_line = None
            for n in walk_no_nested(f.node):
                if isinstance(n, ast.Assign):
                    for t in n.targets:
                        if isinstance(t, ast.Name) and t.id == x:
                            binds.append(n)
                        if isinstance(t, ast.Name) and t.id == h:
                            hit_line = n.lineno if hit_line is None else min(hit_line, n.lineno)
            binds.sort(key=lambda n: n.lineno)
            first = binds[0] if binds else None
            ok = first is not None and isinstance(first.value, ast.Call) and isinstance(first.value.func, ast.Attribute) \
                and first.value.func.attr == "read_block" and self_attr(first.value.func.value, sn, "cache") \
                and hit_line is not None and first.lineno < hit_line \
                and all(b.lineno > hit_line for b in binds[1:])
            r.check(ok, f"{key}|{h}", f.loc(first or f.node),
                    f"{key}: hit flag `{h}` is not the cache lookup's verdict (must be `{x} is not None` "
                    f"right after `{x} = self.cache.read_block(..)` and before `{x}` is refilled)")
    r.floor(13)


def run(ctx: Ctx) -> None:
    m = ctx.model
    acct_rule(ctx)
    hit_rule(ctx)

    r = ctx.rule("R09.own", "hits/accesses/last_was_hit have no writer outside the counted methods")
    allowed = {f.qname for f, _ in counted_methods(m)} | sanctioned_helpers(m)
    for fld in STAT_FIELDS:
        for f, st, t in attr_stores(m, fld):
            ok = f.qname in allowed or (f.cls is not None and f.cls.name in ("BaseCacheMemorySystem", "InstructionMemoryCacheSystem")
                                        and f.name in ("__init__", "reset"))
            r.check(ok, f"{short(f.qname)}|{fld}", f.loc(st),
                    f"{short(f.qname)} writes the cache statistic `{fld}`: `{seg(f, st)}`")
    # (the count of writers shrinks when duplicated blocks are merged into a helper: the floor only
    # guards against the three fields vanishing -- __init__, reset and one counted writer each)
    r.floor(9)

    r = ctx.rule("R09.cyc", "inside the cache code only the counted methods add to the cycle counter (their paths are judged by R09.acct)")
    allowed_cyc = {f.qname for f, _ in counted_methods(m)} | sanctioned_helpers(m)
    n_cyc = 0
    for f, st, t in attr_stores(m, "cycles"):
        if ".uarch.memory." not in f.qname:
            continue
        n_cyc += 1
        ok = f.qname in allowed_cyc and isinstance(st, ast.AugAssign) and isinstance(st.op, ast.Add) \
            and ast.unparse(st.value) == f"{f.params[0]}.miss_penality"
        r.check(ok, f"{short(f.qname)}|cycles", f.loc(st), f"{short(f.qname)} adds to the cycle counter (`{seg(f, st)}`): every counted miss must "
                "add exactly the configured miss penalty, and nothing else in the cache may")
    r.floor(3)

    once_rule(ctx)
    from .c10 import perset_rule
    perset_rule(ctx, "R09.perset")
    from ..siblingrule import sibling_rule
    from ..wiring import wiring_rule
    sibling_rule(ctx, "R09.sib", mode="accounting")
    wiring_rule(ctx, "R09.wire", which=("data",))


LOADS = {"LB": "read_byte", "LH": "read_halfword", "LW": "read_word", "LBU": "read_byte", "LHU": "read_halfword"}
STORES = {"SB": "write_byte", "SH": "write_halfword", "SW": "write_word"}


def _mem_calls(f) -> list[ast.Call]:
    """Calls ``<x>.memory.read_*/write_*`` in f."""
    out = []
    for c in calls_in(f.node):
        if isinstance(c.func, ast.Attribute) and c.func.attr in READS + WRITES \
                and isinstance(c.func.value, ast.Attribute) and c.func.value.attr == "memory":
            out.append(c)
    return out


def _flag_arg(c: ast.Call, flag: str):
    for k in c.keywords:
        if k.arg == flag:
            return k.value
    if len(c.args) >= (2 if c.func.attr in READS else 3):  # type: ignore[attr-defined]
        return c.args[1 if c.func.attr in READS else 2]  # type: ignore[attr-defined]
    return None


def once_rule(ctx: Ctx) -> None:
    m = ctx.model
    r = ctx.rule("R09.once", "one counted access per executed load/store; display/ECALL/preload uncounted")
    mod = m.module("isa.riscv.rv32i_instructions")
    sanctioned: set = set()
    for cn, meth in list(LOADS.items()) + list(STORES.items()):
        c = mod.classes.get(cn)
        if c is None:
            raise AnalysisError(f"anchor vanished: class {cn}")
        isload = cn in LOADS
        flag = "update_statistics" if isload else "directly_write_to_lower_memory"
        beh = m.method(c, "behavior", own=True)
        calls = _mem_calls(beh)
        sanctioned |= {id(x) for x in calls}
        ok = len(calls) == 1 and (calls[0].func.attr in READS) == isload and _flag_arg(calls[0], flag) is None  # type: ignore[attr-defined]
        r.check(ok, f"{cn}.behavior", beh.loc(), f"{cn}.behavior must perform exactly one counted "
                f"memory {'read' if isload else 'write'} (found {[ast.unparse(x.func) for x in calls]}, flag argument "
                f"{'present' if calls and _flag_arg(calls[0], flag) is not None else 'absent'})")
        ma = m.method(c, "memory_access", own=True)
        calls = _mem_calls(ma)
        sanctioned |= {id(x) for x in calls}
        ok = len(calls) == 1 and (calls[0].func.attr in READS) == isload  # type: ignore[attr-defined]
        if ok:
            a = _flag_arg(calls[0], flag)
            txt = ast.unparse(a) if a is not None else ""
            ok = txt == ("update_statistics" if isload else "not update_statistics")
        r.check(ok, f"{cn}.memory_access", ma.loc(), f"{cn}.memory_access must forward update_statistics to exactly "
                f"one memory.{meth}(..)")
    # callers of memory_access
    n_callers = 0
    for f in all_functions(m):
        for c in calls_in(f.node):
            if isinstance(c.func, ast.Attribute) and c.func.attr == "memory_access":
                n_callers += 1
                key = f"{short(f.qname)}|memory_access"
                flagv = None
                for k in c.keywords:
                    if k.arg == "update_statistics":
                        flagv = k.value
                if len(c.args) >= 4:
                    flagv = c.args[3]
                if f.cls is not None and f.cls.name == "MemoryAccessStage":
                    r.check(flagv is None, key, f.loc(c), "MemoryAccessStage must perform the counted access "
                            "(update_statistics left at its default)")
                elif f.cls is not None and f.cls.name == "SingleStage":
                    ok = isinstance(flagv, ast.Constant) and flagv.value is False
                    r.check(ok, key, f.loc(c), "the single-stage display re-read must pass update_statistics=False")
                else:
                    r.check(False, key, f.loc(c), f"unexpected caller of memory_access: {short(f.qname)}")
    if n_callers < 2:
        raise AnalysisError("R09.once: callers of memory_access vanished")
    # every other call site that reaches the data memory
    for f in all_functions(m):
        if f.cls is not None and (m.is_subclass(f.cls, m.cls("MemorySystem"))):
            continue  # the memory systems' own plumbing (self.memory.* is the lower memory)
        for c in _mem_calls(f):
            if id(c) in sanctioned:
                continue
            key = f"{short(f.qname)}|{c.func.attr}"  # type: ignore[attr-defined]
            isread = c.func.attr in READS  # type: ignore[attr-defined]
            a = _flag_arg(c, "update_statistics" if isread else "directly_write_to_lower_memory")
            if f.cls is not None and f.cls.name == "ECALL":
                ok = isinstance(a, ast.Constant) and a.value is False and isread
                r.check(ok, key, f.loc(c), "ECALL's string read must be uncounted (update_statistics=False)")
            elif f.cls is not None and f.cls.name == "RiscvParser":
                ok = (not isread) and isinstance(a, ast.Constant) and a.value is True
                r.check(ok, key, f.loc(c), "parser preloads must pass directly_write_to_lower_memory=True")
            elif f.cls is not None and f.cls.name in ("ToyParser",) or ".toy." in f.qname or "toy_" in f.qname:
                r.inst(key, "TOY memory (uncached Memory)")
            else:
                r.check(False, key, f.loc(c), f"unsanctioned data-memory access in {short(f.qname)}: `{seg(f, c)}`")
    r.floor(25)
