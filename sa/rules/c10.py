"""C10 -- replacement policies (coupling clauses only).

R10.notify  the policy hears of every access and only then: read hit -> access(i);
            write hit -> access(i); fill -> i = get_next_to_replace() first, then the
            block write, then access(i) with that same i; a read miss tells it nothing.
R10.victim  get_next_to_replace() has no caller besides the fill path of CacheSet.write.
R10.pre     PLRU refuses a non-power-of-two associativity before building its tree.
R10.lru     LRU's three methods agree on which end of the order list is "oldest":
            access = remove(i) + re-insert at the young end; victim = the other end;
            ages count from the victim end; initial order is ascending block index.
R10.plru    PLRU's two walks agree: leaf offset in access() and in the victim walk are
            inverse, parent = (i-1)//2 matches children 2i+1 / 2i+2, and the bit written
            for an accessed child sends the victim walk to the *other* child (parity domain).
"""
from __future__ import annotations

import ast
from typing import Optional

from ..cachepaths import self_attr
from ..common import all_functions, seg, short
from ..guards import facts_of
from ..linear import linform
from ..model import AnalysisError, walk_no_nested
from ..paths import calls_in, event_exprs, function_paths
from ..report import Ctx

EXPLANATION = (
    "Decides what is visible in the shape of the code: the coupling between the cache set and its "
    "policy on every path of CacheSet.read/write (which index is reported, in which order, and "
    "that the victim query has a single caller), and the internal agreement of each policy's "
    "methods on list end / tree orientation, evaluated in a parity abstract domain for PLRU. "
    "That LRU evicts the least recently used block after an arbitrary history, and that PLRU "
    "follows its tree, are statements over all reachable policy states; exploring those states "
    "is model checking by execution and is not done here."
)
ASSUMPTIONS = ["unrecognised policy implementations are reported as not decided (note), never guessed"]
TRUSTED = ["CPython ast", "sa.paths enumeration", "sa.linear"]


def _policy_calls(e, f, sn):
    out = []
    for x in event_exprs(e):
        for c in calls_in(x):
            if isinstance(c.func, ast.Attribute) and self_attr(c.func.value, sn, "replacement_strategy"):
                out.append(c)
    return out


def run(ctx: Ctx) -> None:
    m = ctx.model
    cs = m.cls("CacheSet")

    from ..cachesetspec import notify_rule
    notify_rule(ctx, "R10.notify")

    r = ctx.rule("R10.victim", "get_next_to_replace() is called only by the fill path")
    n = 0
    for g in all_functions(m):
        for c in calls_in(g.node):
            if isinstance(c.func, ast.Attribute) and c.func.attr == "get_next_to_replace":
                n += 1
                ok = g.cls is cs and g.name == "write"
                r.check(ok, f"{short(g.qname)}|get_next_to_replace", g.loc(c),
                        f"{short(g.qname)} queries the victim outside the fill path")
    r.floor(1)

    r = ctx.rule("R10.pre", "PLRU asserts power-of-two associativity before use")
    init = m.method("PLRU", "__init__", own=True)
    body = [s for s in init.node.body if not (isinstance(s, ast.Expr) and isinstance(s.value, ast.Constant))]
    first_assert = next((i for i, s in enumerate(body) if isinstance(s, ast.Assert)), None)
    first_use = next((i for i, s in enumerate(body) if not isinstance(s, ast.Assert)), None)
    ok = first_assert is not None and (first_use is None or first_assert < first_use)
    if ok:
        t = body[first_assert].test  # type: ignore[index]
        ok = _pow2_test(t)
    r.check(ok, "PLRU.__init__", init.loc(), "PLRU.__init__ does not assert (associativity != 0 and associativity & "
            "(associativity - 1) == 0) before building the tree")

    lru_rule(ctx)
    plru_rule(ctx)

    r = ctx.rule("R10.perset", "every cache set owns its own policy object")
    ci = m.method("Cache", "__init__", own=True)
    comps = [n for n in ast.walk(ci.node) if isinstance(n, ast.ListComp) and any(
        isinstance(c.func, ast.Subscript) and ast.unparse(c.func.value) == "CacheSet" or ast.unparse(c.func) == "CacheSet" for c in calls_in(n))]
    ok = False
    if len(comps) == 1:
        cs_call = next(c for c in calls_in(comps[0]) if ast.unparse(c.func).startswith("CacheSet"))
        args = list(cs_call.args) + [k.value for k in cs_call.keywords]
        ok = any(isinstance(a, ast.Call) and ast.unparse(a.func) == "replacement_strategy" and [ast.unparse(x) for x in a.args] == ["associativity"] for a in args)
    r.check(ok, "Cache.__init__|policy-per-set", ci.loc(), "the policy object is not constructed inside the per-set comprehension "
            "(`replacement_strategy(associativity)` per CacheSet): sets would share replacement state")
    cset = m.method("CacheSet", "__init__", own=True)
    t = " ".join(ast.unparse(cset.node).split())
    r.check("self.blocks = [CacheBlock[T](2 ** block_bits) for _ in range(associativity)]" in t and "self.replacement_strategy = replacement_strategy" in t,
            "CacheSet.__init__", cset.loc(), "a set no longer owns `associativity` fresh blocks and the policy it was given")


def _pow2_test(t: ast.AST) -> bool:
    """Evaluate the assertion on 0..16 in a tiny interpreter: true exactly on powers of two."""
    src = ast.unparse(t)
    names = {n.id for n in ast.walk(t) if isinstance(n, ast.Name)}
    if names != {"associativity"}:
        return False
    if any(isinstance(n, (ast.Call, ast.Attribute, ast.Subscript, ast.Lambda)) for n in ast.walk(t)):
        return False
    from ..consteval import Folder, Val, Unknown
    try:
        for a in range(0, 17):
            v = Folder(None, None, None, {"associativity": Val(a)}).fold(t)  # type: ignore[arg-type]
            if bool(v) != (a != 0 and a & (a - 1) == 0):
                return False
    except (Unknown, Exception):
        return False
    return True


def _list_ops(f, attr: str) -> list[tuple[str, list[str]]]:
    """Mutating/reading method calls on self.<attr> in source order."""
    out = []
    for c in calls_in(f.node):
        if isinstance(c.func, ast.Attribute) and self_attr(c.func.value, f.params[0], attr):
            out.append((c.func.attr, [ast.unparse(a) for a in c.args]))
    return out


def lru_rule(ctx: Ctx) -> None:
    m = ctx.model
    r = ctx.rule("R10.lru", "LRU: access / victim / ages / initial order agree on the list ends")
    c = m.cls("LRU")
    try:
        init, acc, vic, rep = (m.method(c, n, own=True) for n in ("__init__", "access", "get_next_to_replace", "get_repr"))
    except AnalysisError:
        raise
    sn = acc.params[0]
    ops = _list_ops(acc, "lru")
    idx = acc.params[1] if len(acc.params) > 1 else "index"
    stores = [n for n in walk_no_nested(acc.node) if isinstance(n, (ast.Assign, ast.AugAssign, ast.Delete))]
    young = None
    if ops == [("remove", [idx]), ("append", [idx])] and not stores:
        young = "back"
    elif ops == [("remove", [idx]), ("insert", ["0", idx])] and not stores:
        young = "front"
    if young is None:
        ctx.notes.append("R10.lru: LRU.access is not the remove+reinsert idiom; order agreement not decided")
        r.inst("LRU|unrecognised", "not decided")
        return
    r.inst("LRU.access", {"young_end": young})
    rets = [n for n in walk_no_nested(vic.node) if isinstance(n, ast.Return)]
    want = f"{vic.params[0]}.lru[0]" if young == "back" else f"{vic.params[0]}.lru[-1]"
    ok = len(rets) == 1 and rets[0].value is not None and ast.unparse(rets[0].value) == want
    r.check(ok, "LRU.get_next_to_replace", vic.loc(), f"access() keeps the youngest block at the {young} of the list, "
            f"so the victim must be `{want}`; found `{ast.unparse(rets[0].value) if rets and rets[0].value else '?'}`")
    # initial order ascending: never-accessed blocks are evicted in index order
    iv = None
    for n in walk_no_nested(init.node):
        if isinstance(n, ast.Assign) and isinstance(n.targets[0], ast.Attribute) and n.targets[0].attr == "lru":
            iv = n.value
    txt = ast.unparse(iv) if iv is not None else ""
    asc = txt in ("[i for i in range(associativity)]", "list(range(associativity))", "[*range(associativity)]")
    desc = txt in ("list(reversed(range(associativity)))", "list(range(associativity - 1, -1, -1))")
    ok = asc if young == "back" else desc
    r.check(ok, "LRU.__init__", init.loc(), f"initial order `{txt}` does not put block 0 at the victim end "
            "(never-accessed blocks must be evicted in index order)")
    # ages: 0 = next victim
    rets = [n for n in walk_no_nested(rep.node) if isinstance(n, ast.Return)]
    ok = False
    if len(rets) == 1 and isinstance(rets[0].value, ast.ListComp) and len(rets[0].value.generators) == 1:
        lc = rets[0].value
        g = lc.generators[0]
        s0 = rep.params[0]
        it_ok = ast.unparse(g.iter) in (f"range(len({s0}.lru))", f"range({s0}.associativity)")
        v = ast.unparse(g.target)
        elt = ast.unparse(lc.elt)
        if young == "back":
            ok = it_ok and elt == f"{s0}.lru.index({v})"
        else:
            ok = it_ok and elt in (f"len({s0}.lru) - 1 - {s0}.lru.index({v})", f"{s0}.associativity - 1 - {s0}.lru.index({v})")
    r.check(ok, "LRU.get_repr", rep.loc(), "reported ages are not the position counted from the victim end (0 = replaced next)")


def _parity(e: ast.AST, var: str, p: int) -> Optional[int]:
    """Parity (0/1) of an integer expression linear in var with parity p; None if unknown."""
    lf = linform(e)
    if lf is None:
        return None
    tot = lf.get("", 0)
    for k, c in lf.items():
        if k == "":
            continue
        if k == var:
            tot += c * p
        else:
            if c % 2:
                return None
    return tot % 2


def plru_rule(ctx: Ctx) -> None:
    m = ctx.model
    r = ctx.rule("R10.plru", "PLRU: leaf offsets inverse, parent/children heap-consistent, bit points away")
    c = m.cls("PLRU")
    acc, vic = m.method(c, "access", own=True), m.method(c, "get_next_to_replace", own=True)
    s0 = acc.params[0]
    idx = acc.params[1]
    # ---- access(): i = index + assoc - 1; loop: bit = parity-test(i); i = (i-1)//2; tree[i] = bit
    start = loop = None
    for n in acc.node.body:
        if isinstance(n, ast.Assign) and isinstance(n.targets[0], ast.Name) and start is None and not isinstance(n.value, ast.Constant):
            start = n
        if isinstance(n, ast.For):
            loop = n
    if start is None or loop is None:
        ctx.notes.append("R10.plru: PLRU.access shape not recognised; not decided")
        r.inst("PLRU|unrecognised", "not decided")
        return
    iv = start.targets[0].id  # type: ignore[attr-defined]
    lf = linform(start.value)
    r.check(lf == {idx: 1, f"{s0}.associativity": 1, "": -1}, "PLRU.access|leaf", acc.loc(start),
            f"leaf position of block b must be b + associativity - 1 in a heap-ordered tree; found `{seg(acc, start.value)}`")
    bit_expr = parent_expr = None
    bit_name = None
    store_ok = False
    order = []
    for n in loop.body:
        if isinstance(n, ast.Assign) and isinstance(n.targets[0], ast.Name):
            if n.targets[0].id == iv:
                parent_expr = n.value
                order.append("parent")
            else:
                bit_name, bit_expr = n.targets[0].id, n.value
                order.append("bit")
        elif isinstance(n, ast.Assign) and isinstance(n.targets[0], ast.Subscript) and self_attr(n.targets[0].value, s0, "tree_array"):
            store_ok = ast.unparse(n.targets[0].slice) == iv and (ast.unparse(n.value) == bit_name)
            order.append("store")
    if bit_expr is None or parent_expr is None or order != ["bit", "parent", "store"]:
        ctx.notes.append("R10.plru: PLRU.access loop shape not recognised; not decided")
        r.inst("PLRU|unrecognised", "not decided")
        return
    r.check(store_ok, "PLRU.access|store", acc.loc(loop), "the direction bit is not stored at the parent node")
    exits = [n for n in ast.walk(loop) if isinstance(n, (ast.Break, ast.Continue, ast.Return, ast.If))]
    r.check(not exits, "PLRU.access|every-level", acc.loc(exits[0]) if exits else acc.loc(loop),
            "the walk from the leaf to the root is conditional / can stop early: an access must set *every* bit on its path")
    r.check(ast.unparse(parent_expr) == f"({iv} - 1) // 2", "PLRU.access|parent", acc.loc(loop),
            f"parent of node i must be (i - 1) // 2; found `{ast.unparse(parent_expr)}`")
    r.check(ast.unparse(loop.iter) == f"range({s0}.tree_depth)", "PLRU.access|depth", acc.loc(loop),
            "access() does not walk tree_depth levels")

    def acc_bit(par: int) -> Optional[bool]:
        e = bit_expr
        if isinstance(e, ast.Compare) and len(e.ops) == 1 and isinstance(e.ops[0], (ast.Eq, ast.NotEq)) \
                and isinstance(e.left, ast.BinOp) and isinstance(e.left.op, ast.Mod) and ast.unparse(e.left.right) == "2" \
                and isinstance(e.comparators[0], ast.Constant):
            q = _parity(e.left.left, iv, par)
            if q is None:
                return None
            res = q == e.comparators[0].value
            return res if isinstance(e.ops[0], ast.Eq) else not res
        return None

    # ---- victim walk
    vloop = next((n for n in vic.node.body if isinstance(n, ast.For)), None)
    rets = [n for n in walk_no_nested(vic.node) if isinstance(n, ast.Return)]
    if vloop is None or len(rets) != 1 or not (len(vloop.body) == 1 and isinstance(vloop.body[0], ast.If)):
        ctx.notes.append("R10.plru: PLRU.get_next_to_replace shape not recognised; not decided")
        r.inst("PLRU|unrecognised", "not decided")
        return
    iff = vloop.body[0]
    s1 = vic.params[0]
    jv = None
    child = {}
    for pol, blk in ((True, iff.body), (False, iff.orelse)):
        if len(blk) == 1 and isinstance(blk[0], ast.Assign) and isinstance(blk[0].targets[0], ast.Name):
            jv = blk[0].targets[0].id
            child[pol] = blk[0].value
    test_ok = jv is not None and ast.unparse(iff.test) == f"{s1}.tree_array[{jv}]"
    if not test_ok or len(child) != 2:
        ctx.notes.append("R10.plru: victim walk shape not recognised; not decided")
        r.inst("PLRU|unrecognised", "not decided")
        return
    forms = {pol: linform(e) for pol, e in child.items()}
    kids = [{jv: 2, "": 1}, {jv: 2, "": 2}]
    r.check(all(fm in kids for fm in forms.values()) and forms[True] != forms[False], "PLRU.victim|children", vic.loc(vloop),
            f"children of node i must be 2i+1 and 2i+2; found `{ast.unparse(child[True])}` / `{ast.unparse(child[False])}`")
    r.check(ast.unparse(vloop.iter) == f"range({s1}.tree_depth)", "PLRU.victim|depth", vic.loc(vloop),
            "victim walk does not descend tree_depth levels")
    lfr = linform(rets[0].value) if rets[0].value is not None else None
    r.check(lfr == {jv: 1, "": 1, f"{s1}.associativity": -1}, "PLRU.victim|leaf", vic.loc(rets[0]),
            f"leaf i denotes block i + 1 - associativity (inverse of access()'s leaf position); found "
            f"`{ast.unparse(rets[0].value) if rets[0].value else '?'}`")
    # ---- polarity: the bit written for an accessed child of parity p sends the walk to the other parity
    for par, nm in ((1, "odd (left) child"), (0, "even (right) child")):
        b = acc_bit(par)
        if b is None:
            ctx.notes.append("R10.plru: direction-bit expression outside the parity domain; polarity not decided")
            r.inst("PLRU|polarity-unrecognised", "not decided")
            continue
        chosen = child[b]
        q = _parity(chosen, jv, 0)  # 2*i is even whatever i is
        r.check(q is not None and q != par, f"PLRU|polarity-{'odd' if par else 'even'}", vic.loc(vloop),
                f"accessing the {nm} stores bit {b}, and the victim walk then goes to `{ast.unparse(chosen)}` -- the same "
                "side: PLRU would evict the block that was just used", {"accessed_parity": par, "bit": b, "victim_child": ast.unparse(chosen)})
    # tree size / depth
    init = m.method(c, "__init__", own=True)
    txt = " ".join(ast.unparse(init.node).split())
    r.check("[False] * (associativity - 1)" in txt, "PLRU.__init__|tree", init.loc(), "tree_array is not associativity-1 cleared bits")
    r.check("int(math.log2(self.associativity))" in txt or "int(math.log2(associativity))" in txt or "associativity.bit_length() - 1" in txt,
            "PLRU.__init__|depth", init.loc(), "tree_depth is not log2(associativity)")
