"""C10 -- replacement policies (coupling clauses only).

R10.notify  the policy hears of every access and only then: read hit -> access(i);
            write hit -> access(i); fill -> i = get_next_to_replace() first, then the
            block write, then access(i) with that same i; a read miss tells it nothing.
R10.victim  get_next_to_replace() has no caller besides the fill path of CacheSet.write.
R10.pre     PLRU refuses a non-power-of-two associativity before building its tree.
R10.lru     LRU's three methods agree on which end of the order list is "oldest":
            access = remove(i) + re-insert at the young end; victim = the other end;
            ages count from the victim end; initial order is ascending block index.
R10.plru    PLRU's two walks agree: leaf offset in access() and in the victim walk are
            inverse, parent = (i-1)//2 matches children 2i+1 / 2i+2, and the bit written
            for an accessed child sends the victim walk to the *other* child (parity domain).
"""
from __future__ import annotations

import ast
from typing import Optional

from ..cachepaths import self_attr
from ..common import all_functions, seg, short
from ..guards import facts_of
from ..linear import linform
from ..model import AnalysisError, walk_no_nested
from ..paths import calls_in, event_exprs, function_paths
from ..report import Ctx

EXPLANATION = (
    "Decides what is visible in the shape of the code: the coupling between the cache set and its "
    "policy on every path of CacheSet.read/write (which index is reported, in which order, and "
    "that the victim query has a single caller), and the internal agreement of each policy's "
    "methods on list end / tree orientation, evaluated in a parity abstract domain for PLRU. "
    "That LRU evicts the least recently used block after an arbitrary history, and that PLRU "
    "follows its tree, are statements over all reachable policy states; exploring those states "
    "is model checking by execution and is not done here."
)
ASSUMPTIONS = ["unrecognised policy implementations are reported as not decided (note), never guessed"]
TRUSTED = ["CPython ast", "sa.paths enumeration", "sa.linear"]


def _policy_calls(e, f, sn):
    out = []
    for x in event_exprs(e):
        for c in calls_in(x):
            if isinstance(c.func, ast.Attribute) and self_attr(c.func.value, sn, "replacement_strategy"):
                out.append(c)
    return out


def run(ctx: Ctx) -> None:
    m = ctx.model
    cs = m.cls("CacheSet")

    from ..cachesetspec import notify_rule
    notify_rule(ctx, "R10.notify")

    r = ctx.rule("R10.victim", "get_next_to_replace() is called only by the fill path")
    n = 0
    for g in all_functions(m):
        for c in calls_in(g.node):
            if isinstance(c.func, ast.Attribute) and c.func.attr == "get_next_to_replace":
                n += 1
                ok = g.cls is cs and g.name == "write"
                r.check(ok, f"{short(g.qname)}|get_next_to_replace", g.loc(c),
                        f"{short(g.qname)} queries the victim outside the fill path")
    r.floor(1)

    r = ctx.rule("R10.pre", "PLRU asserts power-of-two associativity before use")
    init = m.method("PLRU", "__init__", own=True)
    body = [s for s in init.node.body if not (isinstance(s, ast.Expr) and isinstance(s.value, ast.Constant))]
    first_assert = next((i for i, s in enumerate(body) if isinstance(s, ast.Assert)), None)
    first_use = next((i for i, s in enumerate(body) if not isinstance(s, ast.Assert)), None)
    ok = first_assert is not None and (first_use is None or first_assert < first_use)
    if ok:
        t = body[first_assert].test  # type: ignore[index]
        ok = _pow2_test(t)
    r.check(ok, "PLRU.__init__", init.loc(), "PLRU.__init__ does not assert (associativity != 0 and associativity & "
            "(associativity - 1) == 0) before building the tree")

    # the policy state is the order list / the tree bits and nothing else: a second mutable attribute (a remembered victim, a
    # counter) is state the walks do not derive from the tree, so `victim = the leaf the tree bits lead to` no longer holds by construction
    from ..common import attr_stores
    r = ctx.rule("R10.state", "the only mutable state of a policy is its order list / tree array")
    STATE = {"LRU": {"lru"}, "PLRU": {"tree_array"}}
    n_w = 0
    for cn, allowed in STATE.items():
        c = m.cls(cn)
        for name, f in sorted(c.methods.items()):
            s0 = f.params[0] if f.params else "self"
            for n in ast.walk(f.node):
                tg = n.targets if isinstance(n, ast.Assign) else [n.target] if isinstance(n, (ast.AugAssign, ast.AnnAssign)) else []
                for t in tg:
                    base = t
                    while isinstance(base, ast.Subscript):
                        base = base.value
                    if isinstance(base, ast.Attribute) and isinstance(base.value, ast.Name) and base.value.id == s0:
                        n_w += 1
                        ok = base.attr in allowed or name == "__init__"
                        r.check(ok, f"{cn}.{name}|{base.attr}", f.loc(n), f"{cn}.{name} keeps state in `self.{base.attr}` besides {sorted(allowed)}: "
                                "the victim / the ages must be read off the order list / tree bits when they are asked for")
    if n_w < 3:
        ctx.floor_misses.append("R10.state: policy state stores vanished")
    lru_rule(ctx)
    plru_rule(ctx)

    perset_rule(ctx, "R10.perset")
    # "blocks never accessed first, in index order": after a reset / reload the policy state is the initial one again -- both cache
    # systems rebuild their cache (and with it one fresh policy object per set) instead of clearing it in place
    from ..resetrule import check_reset
    r = ctx.rule("R10.reset", "reset() rebuilds the caches, and with them every policy object")
    check_reset(ctx, r, "BaseCacheMemorySystem", fields={"cache": "reconstruct", "memory": "delegate"})
    check_reset(ctx, r, "InstructionMemoryCacheSystem", fields={"cache": "reconstruct", "instruction_memory": "delegate",
                                                              "hits": "init", "accesses": "init", "last_was_hit": "init"})


def perset_rule(ctx: Ctx, rid: str) -> None:
    """Every CacheSet built by Cache.__init__ gets a policy object constructed for it: the `replacement_strategy` argument of each
    CacheSet(..) call is a constructor call evaluated once per set (inside the per-set comprehension / loop), not an object
    created once in front of it."""
    m = ctx.model
    r = ctx.rule(rid, "every cache set owns its own policy object")
    ci = m.method("Cache", "__init__", own=True)
    cset = m.method("CacheSet", "__init__", own=True)
    params = cset.params[1:]
    pos = params.index("replacement_strategy") if "replacement_strategy" in params else None
    if pos is None:
        raise AnalysisError("anchor vanished: CacheSet.__init__(.., replacement_strategy, ..)")

    def is_cacheset(c: ast.Call) -> bool:
        f = c.func.value if isinstance(c.func, ast.Subscript) else c.func
        return isinstance(f, ast.Name) and f.id == "CacheSet"

    # per-set constructs of Cache.__init__: comprehensions and loops
    scopes = [n for n in ast.walk(ci.node) if isinstance(n, (ast.ListComp, ast.GeneratorExp, ast.For, ast.While))]
    n_calls = 0
    for c in calls_in(ci.node):
        if not is_cacheset(c):
            continue
        n_calls += 1
        arg = c.args[pos] if len(c.args) > pos else next((k.value for k in c.keywords if k.arg == "replacement_strategy"), None)
        inside = [sc for sc in scopes if any(x is c for x in ast.walk(sc))]
        ok = bool(inside) and arg is not None
        if ok and isinstance(arg, ast.Name):
            # a local: it must be (re)bound to a fresh object inside the innermost per-set loop
            loop = min(inside, key=lambda sc: sum(1 for _ in ast.walk(sc)))
            binds = [x for x in ast.walk(loop) if isinstance(x, ast.Assign) and any(isinstance(t, ast.Name) and t.id == arg.id for t in x.targets)]
            ok = isinstance(loop, (ast.For, ast.While)) and len(binds) == 1 and isinstance(binds[0].value, ast.Call)
            arg = binds[0].value if ok else arg
        ok = ok and isinstance(arg, ast.Call) and ast.unparse(arg.func) in ("replacement_strategy", "LRU", "PLRU") \
            and [ast.unparse(x) for x in arg.args] + [ast.unparse(k.value) for k in arg.keywords] == ["associativity"]
        r.check(ok, "Cache.__init__|policy-per-set", ci.loc(c), "the policy object handed to CacheSet(..) is not constructed once per set "
                f"(`replacement_strategy(associativity)` inside the per-set comprehension/loop; found `{ast.unparse(arg) if arg is not None else None}`): "
                "all sets would share one replacement state, so an access to one set changes the victim in every other set")
    if n_calls == 0:
        raise AnalysisError("anchor vanished: CacheSet(..) construction in Cache.__init__")
    from ..parsershape import normal_flow
    fl = normal_flow(m, cset)
    stores = {fl.canon(e.expr) for e in fl.effects if e.kind == "store" and fl.canon_cond(e.cond) == "TRUE"}
    pa, pb, ps = (f"P{cset.params.index(x)}" for x in ("associativity", "block_bits", "replacement_strategy"))
    blocks = {f"P0.blocks := ListComp(CacheBlock{t}({sz}) for _c0 in range({pa}))" for t in ("[T]", "") for sz in (f"Pow(2, {pb})", f"LShift(1, {pb})")}
    r.check(bool(stores & blocks) and f"P0.replacement_strategy := {ps}" in stores,
            "CacheSet.__init__", cset.loc(), "a set no longer owns `associativity` fresh blocks and the policy it was given "
            f"(stores: {sorted(x for x in stores if 'blocks' in x or 'replacement' in x)})")


def _pow2_test(t: ast.AST) -> bool:
    """Evaluate the assertion on 0..16 in a tiny interpreter: true exactly on powers of two."""
    src = ast.unparse(t)
    names = {n.id for n in ast.walk(t) if isinstance(n, ast.Name)}
    if names != {"associativity"}:
        return False
    if any(isinstance(n, (ast.Call, ast.Attribute, ast.Subscript, ast.Lambda)) for n in ast.walk(t)):
        return False
    from ..consteval import Folder, Val, Unknown
    try:
        for a in range(0, 17):
            v = Folder(None, None, None, {"associativity": Val(a)}).fold(t)  # type: ignore[arg-type]
            if bool(v) != (a != 0 and a & (a - 1) == 0):
                return False
    except (Unknown, Exception):
        return False
    return True


def _list_ops(f, attr: str) -> list[tuple[str, list[str]]]:
    """Mutating/reading method calls on self.<attr> in source order."""
    out = []
    for c in calls_in(f.node):
        if isinstance(c.func, ast.Attribute) and self_attr(c.func.value, f.params[0], attr):
            out.append((c.func.attr, [ast.unparse(a) for a in c.args]))
    return out


LRU_ACCESS_FORMS = {
    "back": [
        "self.lru.remove(index); self.lru.append(index)",
        "self.lru = [b for b in self.lru if b != index]; self.lru.append(index)",
        "self.lru = [b for b in self.lru if b != index] + [index]",
        "self.lru[:] = [b for b in self.lru if b != index]; self.lru.append(index)",
        "self.lru.pop(self.lru.index(index)); self.lru.append(index)",
        "del self.lru[self.lru.index(index)]; self.lru.append(index)",
        "self.lru.append(self.lru.pop(self.lru.index(index)))",
    ],
    "front": [
        "self.lru.remove(index); self.lru.insert(0, index)",
        "self.lru = [b for b in self.lru if b != index]; self.lru.insert(0, index)",
        "self.lru = [index] + [b for b in self.lru if b != index]",
        "self.lru.pop(self.lru.index(index)); self.lru.insert(0, index)",
        "del self.lru[self.lru.index(index)]; self.lru.insert(0, index)",
        "self.lru.insert(0, self.lru.pop(self.lru.index(index)))",
    ],
}


def lru_rule(ctx: Ctx) -> None:
    m = ctx.model
    r = ctx.rule("R10.lru", "LRU: access / victim / ages / initial order agree on the list ends")
    c = m.cls("LRU")
    try:
        init, acc, vic, rep = (m.method(c, n, own=True) for n in ("__init__", "access", "get_next_to_replace", "get_repr"))
    except AnalysisError:
        raise
    # access(i) moves block i to the young end of the order list; the ways of writing that are enumerated as reference
    # sources and compared as normal forms (returns + effects in order)
    from ..flowspec import signature
    young = None
    got_sig = signature(m, acc)
    for end, srcs in LRU_ACCESS_FORMS.items():
        for src in srcs:
            if signature(m, acc, "def access(self, index):\n" + "\n".join("    " + x for x in src.split("; ")) + "\n") == got_sig:
                young = end
    if young is None:
        r.check(False, "LRU.access", acc.loc(), "LRU.access(i) is not recognised as `move block i (compared by value) to the young end of self.lru`: "
                f"effects {[e[1] for e in got_sig[1]]}")
        return
    r.inst("LRU.access", {"young_end": young})
    from ..parsershape import normal_flow
    vfl = normal_flow(m, vic)
    want = "P0.lru[0]" if young == "back" else "P0.lru[USub(1)]"
    got = [vfl.canon(x.value) for x in vfl.returns]
    r.check(got == [want], "LRU.get_next_to_replace", vic.loc(), f"access() keeps the youngest block at the {young} of the list, "
            f"so the victim must be `self.lru[{'0' if young == 'back' else '-1'}]`; found {[vfl.show(x.value) for x in vfl.returns]}")
    # initial order ascending: never-accessed blocks are evicted in index order
    ifl = normal_flow(m, init)
    iv = [ifl.canon(e.expr.value) for e in ifl.effects if e.kind == "store" and ifl.canon(e.expr.targets[0]) == "P0.lru"]  # type: ignore[attr-defined]
    n_ = "P1"
    asc = {f"ListComp(_c0 for _c0 in range({n_}))", f"list(range({n_}))", f"[*range({n_})]"}
    desc = {f"list(reversed(range({n_})))", f"list(range(Sub({n_}, 1), USub(1), USub(1)))"}
    ok = len(iv) == 1 and iv[0] in (asc if young == "back" else desc)
    r.check(ok, "LRU.__init__", init.loc(), f"initial order {iv} does not put block 0 at the victim end "
            "(never-accessed blocks must be evicted in index order)")
    # ages: 0 = next victim
    rfl = normal_flow(m, rep)
    got = [rfl.canon(x.value) for x in rfl.returns]
    its = ("range(len(P0.lru))", "range(P0.associativity)")
    if young == "back":
        # position of block i in the order list: list.index, or a lookup in the inverse permutation built from enumerate
        elts = ("P0.lru.index(_c0)", "DictComp(_c1: _c0 for (_c0, _c1) in enumerate(P0.lru))[_c0]")
    else:
        elts = ("Sub(Sub(len(P0.lru), 1), P0.lru.index(_c0))", "Sub(Sub(P0.associativity, 1), P0.lru.index(_c0))")
    ok = len(got) == 1 and got[0] in {f"ListComp({e} for _c0 in {i})" for e in elts for i in its}
    if not ok and young == "back" and len(got) == 1:
        # the inverse permutation filled in place: ages = [0] * n; for position, block in enumerate(order): ages[block] = position
        import re as _re2
        base = got[0]
        fills = [(rfl.canon(e_.expr), rfl.canon_cond(e_.cond)) for e_ in rfl.effects if e_.kind == "store"]
        sized = base in ("Mult(P0.associativity, [0])", "Mult(len(P0.lru), [0])", "Mult(P0.associativity, [None])", "Mult(len(P0.lru), [None])",
                         "Mult([0], P0.associativity)", "Mult([0], len(P0.lru))", "Mult([None], P0.associativity)", "Mult([None], len(P0.lru))")
        E_ = "ELEM1.0(enumerate(P0.lru))"
        ok = sized and len(fills) == 1 and _re2.sub(r"@\d+", "", fills[0][0]) == f"{base}[{E_}[1]] := {E_}[0]" and fills[0][1] == "LOOP1" \
            and not [e_ for e_ in rfl.effects if e_.kind not in ("store",)]
    r.check(ok, "LRU.get_repr", rep.loc(), f"reported ages are not the position counted from the victim end (0 = replaced next): {got}")


def _parity(e: ast.AST, var: str, p: int) -> Optional[int]:
    """Parity (0/1) of an integer expression linear in var with parity p; None if unknown."""
    lf = linform(e)
    if lf is None:
        return None
    tot = lf.get("", 0)
    for k, c in lf.items():
        if k == "":
            continue
        if k == var:
            tot += c * p
        else:
            if c % 2:
                return None
    return tot % 2


def plru_rule(ctx: Ctx) -> None:
    """PLRU's two walks by abstract interpretation (sa.absrun; affine forms over bit symbols, no path is
    followed separately).  For tree depths D = 0..4 (associativity 2**D):

      access(x)     x = a D-bit symbolic block index.  Every store tree_array[P] = V is recorded.  Writing
                    c_k = bit k of x, the leaf of x is 2**D - 1 + x and its ancestor k+1 levels up is
                    P_k = (x >> (k+1)) + 2**(D-k-1) - 1, reached from P_k through child number c_k.
                    Required: exactly the D stores (P_k, V_k), k = 0..D-1.
      victim()      every load tree_array[N_k] yields a fresh bit t_k.  Required: N_0 = 0 (the root),
                    N_{k+1} = 2*N_k + 1 + o(t_k) with o = identity or negation (the same at every level),
                    result = 2*N_{D-1} + 1 + o(t_{D-1}) - (2**D - 1)  (inverse of access()'s leaf position).
      polarity      the bit access() stores must send the walk to the *other* child:
                    o(V_k) = 1 - c_k.

    How the walks are written (heap index, level/prefix, temporaries, conditional expressions) is irrelevant:
    only the recorded (node, bit) pairs are compared."""
    from ..absrun import AbsRun, is_bit
    from ..bitslice import Form, Inconclusive
    m = ctx.model
    r = ctx.rule("R10.plru", "PLRU: both walks are heap-consistent, cover every level, and the stored bit points away "
                             "(abstract interpretation, depths 0..4)")
    c = m.cls("PLRU")
    acc, vic = m.method(c, "access"), m.method(c, "get_next_to_replace")
    s0 = acc.params[0]
    idx = acc.params[1]
    s1 = vic.params[0]
    one = Form.k(1)
    for D in range(0, 5):
        A = 1 << D
        consts0 = {f"{s0}.associativity": A, f"{s0}.tree_depth": D}
        consts1 = {f"{s1}.associativity": A, f"{s1}.tree_depth": D}
        x = Form.field("x", 0, D) if D else Form.k(0)
        # ---------------------------------------------------------------- access
        stores: list = []

        def on_store(t, v, ev, _stores=stores, _s0=s0):
            if isinstance(t, ast.Subscript) and ast.unparse(t.value) == f"{_s0}.tree_array":
                _stores.append((ev.ev(t.slice), v, t, list(ev.run.guards)))
                return True
            return False

        def on_load_acc(e, ev, _s0=s0):
            if isinstance(e, ast.Subscript) and ast.unparse(e.value) == f"{_s0}.tree_array":
                ev.ev(e.slice)
                return Form.field(f"s{getattr(e, 'lineno', 0)}_{getattr(e, 'col_offset', 0)}", 0, 1)
            return None

        try:
            AbsRun(m, acc, {idx: x}, consts0, on_store=on_store, on_load=on_load_acc).run()
        except Inconclusive as exc:
            if "non-constant branch" in str(exc) or "branch on a non-constant" in str(exc):
                r.check(False, f"PLRU.access|D={D}|every-level", acc.loc(),
                        f"access() is conditional on the tree's current bits ({exc}): an access must set *every* bit on its path, "
                        "whatever the tree held before")
                continue
            raise AnalysisError(f"R10.plru: PLRU.access is outside the abstract interpreter (depth {D}): {exc}")
        want = {}
        for k in range(D):
            P = (Form.field("x", k + 1, D) if k + 1 < D else Form.k(0)) + Form.k((1 << (D - k - 1)) - 1)
            want[P.describe()] = (P, Form.field("x", k, k + 1))  # node -> child number c_k
        got = {}
        guarded = [(P, t, g) for P, V, t, g in stores if g]
        if guarded:
            P, t, g = guarded[0]
            r.check(False, f"PLRU.access|D={D}|every-level", acc.loc(t),
                    f"with associativity {A}, access() sets the bit at node {P.describe()} only when `{' and '.join(g)}`: the walk from the "
                    "leaf to the root is conditional / can stop early, but an access must set *every* bit on its path")
            continue
        stores = [(P, V, t) for P, V, t, g in stores]
        for P, V, t in stores:
            got.setdefault(P.describe(), []).append((P, V, t))
        key = f"PLRU.access|D={D}"
        ok = set(got) == set(want) and all(len(v) == 1 for v in got.values())
        r.check(ok, f"{key}|nodes", acc.loc(stores[0][2]) if stores else acc.loc(),
                f"with associativity {A}, access(x) must set exactly the bits at the {D} ancestors of leaf x + {A - 1} "
                f"(nodes {sorted(want)}); it stores at {sorted(got)}")
        if not ok:
            continue
        # ---------------------------------------------------------------- victim
        loads: list = []

        def on_load(e, ev, _loads=loads, _s1=s1):
            if isinstance(e, ast.Subscript) and ast.unparse(e.value) == f"{_s1}.tree_array":
                n = ev.ev(e.slice)
                t = Form.field(f"t{len(_loads)}", 0, 1)
                _loads.append((n, t, e))
                return t
            return None

        try:
            res = AbsRun(m, vic, {}, consts1, on_load=on_load).run()
        except Inconclusive as exc:
            raise AnalysisError(f"R10.plru: PLRU.get_next_to_replace is outside the abstract interpreter (depth {D}): {exc}")
        key = f"PLRU.victim|D={D}"
        okv = len(loads) == D and res is not None
        orient = None  # 'same': bit 1 -> child 2N+2 ; 'neg': bit 1 -> child 2N+1
        detail = ""
        if okv:
            nxt = [n for n, _, _ in loads[1:]] + [res + Form.k(A - 1)]
            if D and not (loads[0][0] == Form.k(0)):
                okv, detail = False, f"the walk starts at node {loads[0][0].describe()}, not at the root 0"
            for k in range(D):
                if not okv:
                    break
                n, t, _ = loads[k]
                d = nxt[k] - n.scale(2) - one
                o = "same" if d == t else "neg" if d == one - t else None
                if o is None or (orient is not None and o != orient):
                    okv = False
                    detail = (f"after reading the bit at node {n.describe()} the walk continues at {nxt[k].describe()}"
                              f"{' (as a block number: minus ' + str(A - 1) + ')' if k == D - 1 else ''}; a heap-ordered tree requires 2*node + 1 + bit"
                              " (or the mirrored orientation at every level)")
                orient = orient or o
        r.check(okv, key, vic.loc(loads[0][2]) if loads else vic.loc(),
                f"with associativity {A}, the victim walk must read one bit per level from the root downwards and return the leaf it "
                f"reaches minus {A - 1}: {detail or str(len(loads)) + ' bits read, result ' + (res.describe() if res is not None else 'None')}")
        if not okv or D == 0:
            continue
        # ---------------------------------------------------------------- polarity
        for P, V, t in stores:
            ck = want[P.describe()][1]
            ov = V if orient == "same" else one - V
            r.check(is_bit(V) and ov == one - ck, f"PLRU|polarity|D={D}|node={P.describe()}", acc.loc(t),
                    f"with associativity {A}: accessing block x reaches node {P.describe()} through child number {ck.describe()} and stores "
                    f"{V.describe()} there; the victim walk then continues to child number {(ov).describe()} -- it must be the other one "
                    f"(1 - {ck.describe()}), or PLRU evicts on the side that was just used")
    # tree size / depth
    from ..parsershape import normal_flow
    init = m.method(c, "__init__")
    ifl = normal_flow(m, init)
    st = {ifl.canon(e.expr.targets[0]): ifl.canon(e.expr.value) for e in ifl.effects if e.kind == "store"}  # type: ignore[attr-defined]
    r.check(st.get("P0.tree_array") in ("Mult(Sub(P1, 1), [False])", "Mult(Sub(P0.associativity, 1), [False])",
                                        "ListComp(False for _c0 in range(Sub(P1, 1)))", "ListComp(False for _c0 in range(Sub(P0.associativity, 1)))"),
            "PLRU.__init__|tree", init.loc(), f"tree_array is not associativity-1 cleared bits: {st.get('P0.tree_array')}")
    depth_reads = [f for f in m.functions.values() if any(isinstance(n, ast.Attribute) and n.attr == "tree_depth" and isinstance(n.ctx, ast.Load)
                                                            for n in ast.walk(f.node))]
    if "P0.tree_depth" not in st and not depth_reads:
        # no stored depth at all (e.g. a read-only property, written out where it is read by the model): the walks computed their
        # number of levels themselves, and the abstract runs above followed exactly that computation for every associativity
        r.inst("PLRU.__init__|depth", {"stored": False})
    else:
        r.check(st.get("P0.tree_depth") in ("int(math.log2(P0.associativity))", "int(math.log2(P1))", "Sub(P1.bit_length(), 1)", "Sub(P0.associativity.bit_length(), 1)"),
                "PLRU.__init__|depth", init.loc(), f"tree_depth is not log2(associativity): {st.get('P0.tree_depth')}")


